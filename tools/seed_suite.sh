#!/bin/bash
# apply all stored seeded patches (or the ones given) together on a scratch worktree of /repo HEAD and run the pinned suite once
wt=/tmp/wt_seedsuite
git -C /repo worktree remove --force $wt 2>/dev/null
git -C /repo worktree add --detach $wt main -q || exit 2
applied=""
for d in ${@:-/verif/seeded/*}; do
  id=$(basename $d)
  if git -C $wt apply --check $d/patch.diff 2>/dev/null; then git -C $wt apply $d/patch.diff && applied="$applied $id"; else echo "SKIP $id (does not apply on top of the others)"; fi
done
echo "applied:$applied"
python3 /verif/tools/suite.py $wt 2>&1 | tail -8
git -C /repo worktree remove --force $wt
