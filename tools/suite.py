#!/usr/bin/env python3
'''Run the repository's pinned test-suite (xdist) on a tree and compare with BASELINE.json stable_pass.
usage: suite.py [repo_dir] [-k expr]   -> prints missing/failed stable tests; exit 0 iff all stable_pass tests pass.'''
import sys, os, json, subprocess, tempfile, xml.etree.ElementTree as ET
repo = sys.argv[1] if len(sys.argv) > 1 and not sys.argv[1].startswith('-') else '/repo'
extra = [a for a in sys.argv[1:] if a != repo]
base = json.load(open('/root/.vp/BASELINE.json'))
stable = set(base['stable_pass'])
with tempfile.TemporaryDirectory() as d:
    xml = os.path.join(d, 'j.xml')
    env = dict(os.environ, PYTHONPATH=os.path.join(repo, 'src'), OMP_NUM_THREADS='1', OPENBLAS_NUM_THREADS='1', MKL_NUM_THREADS='1')  # one BLAS thread per xdist worker: 16x16 threads thrash
    for k in ('NUTILS_VERIF', 'NUTILS_MATRIX', 'VERIF_EXTRA_PYTHONPATH'):
        env.pop(k, None)
    p = subprocess.run((['nice', '-n', os.environ.get('SUITE_NICE', '-15')] if os.geteuid() == 0 else []) + ['/venv/bin/python', '-m', 'pytest', '-q', '-p', 'no:cacheprovider', '--timeout=900', '--continue-on-collection-errors',
                        '-n', os.environ.get('SUITE_PROCS', '16'), '--junitxml=' + xml] + extra, cwd=repo, env=env, capture_output=True, text=True)
    print(p.stdout.strip().splitlines()[-1] if p.stdout.strip() else p.stderr[-500:])
    passed = set()
    failed = set()
    for tc in ET.parse(xml).getroot().iter('testcase'):
        name = '{}::{}'.format(tc.get('classname'), tc.get('name'))
        bad = any(ch.tag in ('failure', 'error', 'skipped') for ch in tc)
        (failed if bad else passed).add(name)
if extra:
    broken = sorted(failed & stable)
else:
    broken = sorted(stable - passed)
if broken and not extra:
    # xdist under full load makes a few timing-sensitive tests flaky: confirm serially
    files = sorted({'tests/' + b.split('::')[0].split('.')[1].split(':')[0] + '.py' for b in broken})
    with tempfile.TemporaryDirectory() as d:
        xml = os.path.join(d, 'j.xml')
        subprocess.run(['/venv/bin/python', '-m', 'pytest', '-q', '-p', 'no:cacheprovider', '--timeout=900', '--junitxml=' + xml] + files, cwd=repo, env=env, capture_output=True, text=True)
        for tc in ET.parse(xml).getroot().iter('testcase'):
            name = '{}::{}'.format(tc.get('classname'), tc.get('name'))
            if not any(ch.tag in ('failure', 'error', 'skipped') for ch in tc):
                passed.add(name)
    broken = sorted(stable - passed)
print('stable tests: {}  passed now: {}  broken: {}'.format(len(stable), len(passed & stable), len(broken)))
for b in broken[:40]:
    print('  BROKEN', b)
sys.exit(1 if broken else 0)
