#!/bin/bash
# usage: seed_test.sh <worktree> <A|B> <CHECK> [--only filter]   : apply seed, run check against the worktree, revert
wt=$1; x=$2; chk=$3; shift 3
cd $wt && git checkout -q -- . && git apply SEED_$x.diff || exit 2
cd /verif && VERIF_BUDGET_S=${VERIF_BUDGET_S:-3000} VERIF_REPO=$wt timeout 3400 ./check $chk --procs ${PROCS:-4} "$@" 2>&1 | grep -E "VIOLATION|key:|what:|tier=|HARNESS" | cut -c1-260 | head -${LINES_:-7}
cd $wt && git checkout -q -- .
