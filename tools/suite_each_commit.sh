#!/bin/bash
# run the pinned suite at every fix: commit of /repo (oldest first) in a scratch worktree; log to /verif/tools/suite_per_commit.log
log=/verif/tools/suite_per_commit.log
: > $log
for c in $(git -C /repo log --reverse --format=%h de9fb05..HEAD); do
  wt=/tmp/wt_each_$c
  git -C /repo worktree add --detach $wt $c -q 2>/dev/null || continue
  out=$(SUITE_NICE=${SUITE_NICE:-5} python3 /verif/tools/suite.py $wt 2>&1 | tail -3 | tr '\n' ' ')
  echo "$c $(git -C /repo log -1 --format=%s $c | cut -c1-70) :: $out" >> $log
  git -C /repo worktree remove --force $wt
done
echo done >> $log
