#!/bin/bash
# Re-run, for every seeded change under /verif/seeded/, the check named in its meta.json against a scratch worktree of /repo's HEAD
# with the patch applied; a seed counts as caught when the check exits 1 with a VIOLATION line.  usage: seed_regress.sh [ID-X ...]
# Log: tools/seed_regress.log.  The worktree (/tmp/seed_rg) is removed afterwards.
cd /verif
wt=/tmp/seed_rg
git -C /repo worktree remove --force $wt 2>/dev/null; rm -rf $wt
git -C /repo worktree add -q --detach $wt HEAD || exit 2
log=tools/seed_regress.log
[ $# -eq 0 ] && : > $log
for d in ${@:-$(ls seeded)}; do
  [ -f seeded/$d/patch.diff ] || continue
  chk=${CHECK:-$(python3 -c "import json,re;m=json.load(open('seeded/$d/meta.json'));print(re.match(r'C\d\d',m['detected_by']['check']).group(0))")}
  (cd $wt && git checkout -q -- . && git apply /verif/seeded/$d/patch.diff) || { echo "$d APPLY-FAILED" >> $log; continue; }
  t0=$(date +%s)
  VERIF_REPO=$wt ./check $chk > /tmp/seed_rg_$d.out 2>&1; rc=$?
  echo "$d check=$chk exit=$rc $(( $(date +%s) - t0 ))s violations=$(grep -c '^VIOLATION' /tmp/seed_rg_$d.out) :: $(grep -m1 -E 'key:|what:' /tmp/seed_rg_$d.out | cut -c1-160)" >> $log
  (cd $wt && git checkout -q -- .)
done
git -C /repo worktree remove --force $wt; git -C /repo worktree prune
echo done >> $log
