#!/bin/bash
# run every check's quick tier sequentially on /repo; summary in tools/run_all.log
cd /verif
log=tools/run_all.log
: > $log
for id in ${@:-C15 C20 C13 C14 C17 C19 C07 C08 C09 C10 C11 C12 C05 C06 C04 C03 C02 C01 C18 C16}; do
  t0=$(date +%s)
  ./check $id --tier ${TIER:-quick} > /tmp/run_$id.out 2>&1; rc=$?
  echo "$id exit=$rc $(( $(date +%s) - t0 ))s :: $(grep -c VIOLATION /tmp/run_$id.out) violations, $(grep -c KNOWN-FINDING /tmp/run_$id.out) known :: $(tail -1 /tmp/run_$id.out | cut -c1-250)" >> $log
done
echo done >> $log
