#!/usr/bin/env python3
'''Regenerate /verif/MANIFEST.json from tools/claims.json (per-property claim texts) -- keeps the manifest valid by construction.'''
import json, os, sys
here = os.path.dirname(os.path.dirname(os.path.abspath(__file__)))
claims = json.load(open(os.path.join(here, 'tools', 'claims.json')))
props = [json.loads(l)['id'] for l in open(os.path.join(here, 'properties.jsonl'))]
checks = []
na = []
for pid in props:
    c = claims.get(pid)
    if not c or not c.get('claimed'):
        na.append({'property_id': pid, 'reason': (c or {}).get('reason', 'check not built yet; the property is decidable by bounded exhaustive exploration (DESIGN.md section 2) and will be claimed once its check exists')})
        continue
    checks.append({
        'property_id': pid,
        'quick_cmd': './check {} --tier quick'.format(pid),
        'thorough_cmd': './check {} --tier thorough'.format(pid),
        'evidence_file': '/verif/evidence/{}.json'.format(pid),
        'replay_cmd_template': './check {} --replay {{path}}'.format(pid),
        'engine': 'vmc',
        'level_claimed': {'category': c['level'], 'text': c['text'], 'design_ref': 'DESIGN.md section 2, ' + pid},
        'level_note': c['note'],
        'technique': c['technique'],
    })
m = {
    'version': 1,
    'setup_cmd': './setup.sh',
    'hooks': {'guard': 'NUTILS_VERIF', 'enable': 'no source hooks: checks import /repo/src directly (PYTHONPATH) with NUTILS_VERIF=1 exported; instrumentation is applied from outside (sys.settrace, attribute wrapping)',
              'baseline_off_cmd': 'cd /repo && /venv/bin/python -m pytest -ra -q -p no:cacheprovider --timeout=900 --continue-on-collection-errors',
              'source_commits': [], 'add_only': True},
    'engines': [{'name': 'vmc', 'path': '/verif/vmc', 'serves_properties': [c['property_id'] for c in checks],
                 'kind_free_text': 'hand-written explicit-state / bounded-exhaustive explorers in Python driving the real nutils code (term-space BFS, operation-sequence search against reference models, preemption-bounded process scheduler, crash-point and fault enumerators)'}],
    'checks': checks,
    'not_applicable': na,
    'notes': 'All checks are bounded exhaustive enumerations (model checking family); bounds and alphabets are in DESIGN.md and in each evidence file. known_findings.json and known_findings.d/<ID>.json list repaired (fixed:, 24 fix: commits on /repo main) and recorded (known) genuine defects; seeded property-breaking changes with their detection record are under seeded/; DESIGN.md section 5 is the as-built record (framework, deviations and false alarms, defects, measured quick tiers, thorough-tier runs, seeded changes).',
}
json.dump(m, open(os.path.join(here, 'MANIFEST.json'), 'w'), indent=1)
print('MANIFEST.json: {} checks, {} not claimed'.format(len(checks), len(na)))
