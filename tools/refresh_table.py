#!/usr/bin/env python3
'''rewrite the measured columns of the table in DESIGN.md section 5.4 from the committed evidence files'''
import json, re
def fmt(n):
    if n is None: return '-'
    if n >= 1e6: return '{:.2f} M'.format(n / 1e6)
    if n >= 1e3: return '{:.0f} k'.format(n / 1e3) if n >= 1e5 else '{:.1f} k'.format(n / 1e3)
    return str(n)
s = open('/verif/DESIGN.md').read()
i = s.index('### 5.4 Checks as built'); j = s.index('### 5.4b')
sec = s[i:j]
out = []
for line in sec.split('\n'):
    m = re.match(r'\| (C\d\d) \| ([a-z_]+) \| (.*?) \| [^|]* \| [^|]* \| [^|]* \|$', line)
    if m:
        e = json.load(open('/verif/evidence/{}.json'.format(m.group(1)))); c = e['coverage']
        assert e['tier'] == 'quick' and c['exhaustive'], m.group(1)
        line = '| {} | {} | {} | {} / {} | {:.0f} s | {} |'.format(m.group(1), e['level'], m.group(3), fmt(c.get('evaluations')), fmt(c.get('distinct_nontrivial')), e['wall_s'], len(e.get('known_findings_listed', [])))
    out.append(line)
open('/verif/DESIGN.md', 'w').write(s[:i] + '\n'.join(out) + s[j:])
print('table refreshed')
