#!/bin/bash
# usage: seed_wave3.sh <PID> [CHECK]   : third wave of independently seeded changes (suffix -C).
# Takes /tmp/sc_<PID>_out/{patch.diff,demo.py,notes.txt} written by a fresh sub-agent, confirms the demonstration on a
# fresh scratch worktree of /repo's HEAD (exit 0 without the patch, non-zero with it), stores it under
# /verif/seeded/<PID>-C/, runs the check's quick tier against the patched worktree and removes the worktree.
pid=$1; chk=${2:-$1}; id="${pid}-C"; out=/tmp/sc_${pid}_out; wt=/tmp/sw_$pid
cd /verif
git -C /repo worktree remove --force $wt 2>/dev/null; rm -rf $wt
git -C /repo worktree add -q --detach $wt HEAD || exit 2
export OMP_NUM_THREADS=1 OPENBLAS_NUM_THREADS=1
(cd $wt && PYTHONPATH=$wt/src timeout 900 /venv/bin/python -W ignore $out/demo.py >/tmp/sw_${pid}_clean.log 2>&1); clean=$?
(cd $wt && git apply $out/patch.diff) || { echo "$id: patch does not apply"; git -C /repo worktree remove --force $wt; exit 2; }
(cd $wt && PYTHONPATH=$wt/src timeout 900 /venv/bin/python -W ignore $out/demo.py >/tmp/sw_${pid}_mut.log 2>&1); mut=$?
echo "$id: demo exit clean=$clean mutated=$mut"
if [ $clean -eq 0 ] && [ $mut -ne 0 ]; then
  mkdir -p seeded/$id
  cp $out/patch.diff seeded/$id/patch.diff; cp $out/demo.py seeded/$id/demo.py; cp $out/notes.txt seeded/$id/notes.txt 2>/dev/null
  tail -3 /tmp/sw_${pid}_mut.log > seeded/$id/demo_output_with_change.txt
  t0=$(date +%s)
  VERIF_REPO=$wt timeout 3000 ./check $chk --procs ${PROCS:-8} > /tmp/sw_${pid}_check.out 2>&1; rc=$?
  echo "$id check=$chk exit=$rc $(( $(date +%s) - t0 ))s violations=$(grep -c '^VIOLATION' /tmp/sw_${pid}_check.out)"
  grep -E "key:|what:" /tmp/sw_${pid}_check.out | cut -c1-220 | head -5
else
  echo "$id: NOT confirmed"; tail -5 /tmp/sw_${pid}_clean.log
fi
git -C /repo worktree remove --force $wt; git -C /repo worktree prune
