#!/bin/bash
# smoke-run every thorough tier with a short wall guard (default 150 s): must exit 0 and report the cap; evidence/ is restored afterwards
cd /verif
log=tools/thorough_smoke.log
: > $log
for id in ${@:-C01 C02 C03 C04 C05 C06 C07 C08 C09 C10 C11 C12 C13 C14 C15 C16 C17 C18 C19 C20}; do
  t0=$(date +%s)
  VERIF_BUDGET_S=${BUDGET:-150} timeout 1500 ./check $id --tier thorough > /tmp/thor_$id.out 2>&1; rc=$?
  echo "$id exit=$rc $(( $(date +%s) - t0 ))s :: $(grep -c '^VIOLATION' /tmp/thor_$id.out) violations, $(grep -c KNOWN-FINDING /tmp/thor_$id.out) known, $(grep -c HARNESS /tmp/thor_$id.out) harness :: $(tail -1 /tmp/thor_$id.out | cut -c1-200)" >> $log
done
git checkout -- evidence
echo done >> $log
