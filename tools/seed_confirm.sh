#!/bin/bash
# usage: seed_confirm.sh <PID> <worktree> <A|B> : confirm a seeded change (demo fails with it, passes without) and store it under /verif/seeded/
pid=$1; wt=$2; x=$3; id="${pid}-${x}"
cd "$wt" || exit 2
git checkout -q -- . 2>/dev/null
PYTHONPATH=$wt/src timeout 900 /venv/bin/python -W ignore demo_$x.py >/tmp/seed_${id}_clean.log 2>&1; clean=$?
git apply SEED_$x.diff || { echo "$id: diff does not apply"; exit 2; }
PYTHONPATH=$wt/src timeout 900 /venv/bin/python -W ignore demo_$x.py >/tmp/seed_${id}_mut.log 2>&1; mut=$?
git checkout -q -- .
echo "$id: demo exit clean=$clean mutated=$mut"
if [ $clean -eq 0 ] && [ $mut -ne 0 ]; then
  mkdir -p /verif/seeded/$id
  cp SEED_$x.diff /verif/seeded/$id/patch.diff
  cp demo_$x.py /verif/seeded/$id/demo.py
  tail -3 /tmp/seed_${id}_mut.log > /verif/seeded/$id/demo_output_with_change.txt
  echo "stored /verif/seeded/$id"
else
  echo "$id: NOT confirmed"; tail -5 /tmp/seed_${id}_clean.log
fi
