#!/bin/bash
# quick tier of all checks for VERIF_SEED 1, 2 and finally 0 (the evidence files left behind are the seed-0 ones); logs tools/run_all.seed<k>.log
cd /verif
for seed in ${@:-1 2 0}; do
  VERIF_SEED=$seed tools/run_all.sh
  cp tools/run_all.log tools/run_all.seed$seed.log
done
