'''C20 helper: fixtures, operand kinds, the per-entry call catalogue and the
single-case judge for Quantity's dispatch table.  The catalogue says HOW each
registered function is called and WHICH physics rule (c20_model.RULES) gives
its result dimension; it is keyed by the function's qualified name and is
matched against the table reflectively (an entry without a catalogue record
is a harness error, never silently skipped).'''

import operator, json
from fractions import Fraction as F
import numpy
from . import core
from . import c20_model as M

_FX = None


def fx():
    global _FX
    if _FX is None:
        _FX = Fixtures()
    return _FX


def table():
    from nutils import SI
    try:
        return SI.Quantity._Quantity__DISPATCH_TABLE
    except AttributeError:
        raise core.HarnessError('Quantity dispatch table not found (renamed?)')


def entry_name(f):
    mod = getattr(f, '__module__', None) or type(f).__module__
    qn = getattr(f, '__qualname__', None) or getattr(f, '__name__', None) or repr(f)
    return '{}.{}'.format(mod, qn)


def entries():
    'name -> registered callable, reflectively'
    out = {}
    for f in table():
        n = entry_name(f)
        if n in out:
            raise core.HarnessError('two dispatch entries share the name ' + n)
        out[n] = f
    return out


def dimtype(d):
    from nutils import SI
    return SI.Dimension.from_powers(M.clean(d))


def powers_of(T):
    try:
        return M.clean(T._Dimension__powers)
    except AttributeError:
        raise core.HarnessError('Dimension powers attribute not found (renamed?)')


def wrap(d, raw):
    return dimtype(d).wrap(raw) if M.clean(d) else raw


class Fixtures:
    'function-array operands on a small non-affine 2-D (and 3-D) mesh; all values positive and smooth'

    def __init__(self):
        from nutils import mesh, function
        import treelog
        self._quiet = treelog.set(treelog.NullLog())
        self._quiet.__enter__()
        topo, geom = mesh.rectilinear([2, 2])
        self.topo = topo
        self.x = 1 + geom + .1 * numpy.stack([geom[0] * geom[1], geom[0]**2])
        basis = topo.basis('std', degree=2)
        self.basis = basis
        n = len(basis)
        self.u = [basis @ (1 + numpy.linspace(0, 1, n)**(k + 1)) for k in range(4)]
        self.w = [numpy.stack([self.u[k], 1.5 + .25 * geom[0] * geom[1] + .1 * k]) for k in range(4)]
        dbasis = topo.basis('discont', degree=1)
        self.ud = dbasis @ (1 + (numpy.arange(len(dbasis)) % 5) / 4)
        self.smp = topo.sample('gauss', 2)
        self.bnd = topo.boundary.sample('gauss', 2)
        self.ifc = topo.interfaces.sample('gauss', 1)
        self.a = function.Argument('a', ())
        self.p = [self.u[k] * self.a**2 + self.a * (k + 1) for k in range(4)]
        self.P = [self.smp.integral(p) for p in self.p]
        self.B = [self.smp.bind(u) for u in self.u]
        topo3, geom3 = mesh.rectilinear([1, 1, 1])
        self.x3 = 1 + geom3 + .1 * numpy.stack([geom3[1] * geom3[2], geom3[0] * geom3[2], geom3[0]**2])
        self.w3 = 1 + numpy.stack([geom3[0] * geom3[1], geom3[2]**2, geom3[0] + geom3[1] * geom3[2]])
        self.smp3 = topo3.sample('gauss', 2)
        self.samples = {'smp': self.smp, 'bnd': self.bnd, 'ifc': self.ifc, 'smp3': self.smp3}
        self.refcache = {}

    S = [1.7, .6, 2.3, .9]
    V = [[1.7, 2.9], [.6, 2.9], [2.3, .4], [.9, 1.1]]

    def raw(self, kind, slot):
        'a FRESH plain operand of the given kind for the given operand slot (values differ per slot, one shared element for ==)'
        from nutils import function
        if kind == 's':
            return self.S[slot]
        if kind == 'n':
            return numpy.float64(self.S[slot])
        if kind == 'i':
            return [3, 2, 5, 7][slot]
        if kind == 'v':
            return numpy.array(self.V[slot])
        if kind == 'M':
            return numpy.array([[1.7, 2.9], [.6, 3.1]]) + .5 * slot
        if kind == 'c':
            return numpy.array(self.V[slot]) + 1j * numpy.array(self.V[(slot + 1) % 4])
        if kind == 'e':
            return 2.
        if kind == 'E':
            return numpy.array([1., 2.])
        if kind == 'v3':  # increasing abscissae / ordinates for interp
            return numpy.array([[0., 1.5, 4.], [0., 1.5, 4.], [1., 3., 2.]][slot])
        if kind == 'c2':  # coordinates for locate, inside the mesh image
            return numpy.array([[1.6, 1.7], [2.4, 2.2]])
        if kind == 'tol':
            return 1e-10
        if kind == 'md':
            return .5
        if kind == 'g':
            return self.u[slot]
        if kind == 'f':
            return self.w[slot]
        if kind == 'gd':
            return self.ud
        if kind == 'x':
            return self.x
        if kind == 'x3':
            return self.x3
        if kind == 'w3':
            return self.w3
        if kind == 'p':
            return self.p[slot]
        if kind == 'P':
            return self.P[slot]
        if kind == 'b':
            return self.basis
        if kind == 'B':
            return self.B[slot]
        if kind == 'A':
            return self.a
        raise core.HarnessError('unknown operand kind ' + kind)


FUNCKINDS = set('g f gd x x3 w3 p P b B A'.split())


class T:
    'one way of calling a dispatch entry'

    def __init__(self, name, kinds, call, rule, params=None, smp='smp', args=None, mayraise=False, dims=None, entry_free=False):
        self.name = name
        self.kinds = [tuple(k) if isinstance(k, (tuple, list)) else (k,) for k in kinds]
        self.call = call
        self.rule = rule
        self.params = params or {}
        self.smp = None if smp == 'none' else smp
        self.args = args or {}
        self.mayraise = mayraise      # an exception of the implementation is "unsupported", only a returned value is judged
        self.dims = dims              # optional restriction of the per-slot dimension alphabet


# ------------------------------------------------------------------ normalisation and comparison of values

class Undefined(Exception):
    pass


def norm(v, t):
    'plain comparable form of a (plain) result: nested tuples of ndarrays / strings'
    from nutils import function, sample
    if isinstance(v, function.Array):
        f = fx()
        if t.smp:
            return numpy.asarray(f.samples[t.smp].eval(v, arguments=t.args) if t.args else f.samples[t.smp].eval(v))
        return numpy.asarray(function.eval(v, arguments=t.args) if t.args else function.eval(v))
    if isinstance(v, sample.Sample):
        return numpy.asarray(v.eval(fx().x))
    if isinstance(v, dict):
        return tuple((k, norm(getattr(x, 'shape', x), t)) for k, x in sorted(v.items()))
    if isinstance(v, (tuple, list)):
        return tuple(norm(x, t) for x in v)
    if v is None or isinstance(v, str):
        return v
    a = numpy.asarray(v)
    if a.dtype == object:
        a = a.astype(float)
    return a


def same(a, b):
    'None if equal, else a description'
    if isinstance(a, tuple) or isinstance(b, tuple):
        if not (isinstance(a, tuple) and isinstance(b, tuple)) or len(a) != len(b):
            return 'structure {!r} != {!r}'.format(type(a).__name__, type(b).__name__)
        for x, y in zip(a, b):
            d = same(x, y)
            if d:
                return d
        return None
    if a is None or b is None or isinstance(a, str) or isinstance(b, str):
        return None if a == b else '{!r} != {!r}'.format(a, b)
    if a.shape != b.shape:
        return 'shape {} != {}'.format(a.shape, b.shape)
    if a.dtype.kind != b.dtype.kind:
        return 'dtype {} != {}'.format(a.dtype, b.dtype)
    if a.dtype.kind in 'fc' and not numpy.isfinite(b).all():
        return None  # reference not finite: value not compared
    if not numpy.allclose(a, b, rtol=1e-9, atol=1e-12):
        return 'value {} != {}'.format(numpy.array2string(a.ravel()[:6]), numpy.array2string(b.ravel()[:6]))
    return None


def split(r):
    'result -> (dims, plain value); containers of quantities -> container of pairs is handled by the caller'
    from nutils import SI
    if isinstance(r, SI.Quantity):
        return powers_of(type(r)), r.unwrap()
    return {}, r


def has_quantity(v):
    from nutils import SI
    if isinstance(v, SI.Quantity):
        return True
    if isinstance(v, (tuple, list)):
        return any(has_quantity(x) for x in v)
    if isinstance(v, dict):
        return any(has_quantity(x) for x in v.values())
    if isinstance(v, numpy.ndarray) and v.dtype == object:
        return any(has_quantity(x) for x in v.ravel())
    return False


def judge_value(r, mdims, ref, t):
    '''r: implementation result; mdims: model dimension; ref: normalised reference value.
    returns None or (kind, message)'''
    from nutils import SI, function
    rd, rv = split(r)
    if rd != M.clean(mdims):
        return 'wrong-dimension', 'result has dimension [{}], the operand exponents dictate [{}]'.format(M.dkey(rd), M.dkey(mdims))
    if has_quantity(rv):
        return 'nested-quantity', 'the value inside the result still carries a dimension: {!r}'.format(rv)[:300]
    try:
        got = norm(rv, t)
    except Exception as e:
        return 'result-unusable', 'the result could not be evaluated: {!r}'.format(e)[:300]
    d = same(got, ref)
    if d:
        return 'wrong-value', 'value differs from the same call on plain numbers in reference units: ' + d
    if rd and not isinstance(rv, (function.Array, tuple, list, dict)) and rv is not None:
        # public observation: dividing out a unit string of the model's dimension gives the plain number
        try:
            v2 = r / M.ustr(mdims)
        except Exception as e:
            return 'unit-division', 'q / {!r} raised {!r}'.format(M.ustr(mdims), e)
        if has_quantity(v2):
            return 'unit-division', 'q / {!r} is still dimensional'.format(M.ustr(mdims))
        n2 = norm(v2, t)
        if isinstance(ref, numpy.ndarray) and ref.dtype.kind in 'iu':
            ref = ref.astype(float)  # true division by the unit
        d = same(n2, ref)
        if d:
            return 'unit-division', 'q / {!r}: {}'.format(M.ustr(mdims), d)
    return None


# ------------------------------------------------------------------ one case

def operands(t, kinds, dims):
    f = fx()
    raws = [f.raw(k, i) for i, k in enumerate(kinds)]
    qs = [wrap(d, f.raw(k, i)) for i, (k, d) in enumerate(zip(kinds, dims))]
    return raws, qs


def expectation(t, kinds, dims, raws):
    'model: ("value", dims) | ("reject", why) | ("unspec", why)'
    try:
        if t.rule == 'pow' and 'exponent' not in t.params:
            d = M.rule_pow(dims, exponent=raws[1] if not isinstance(raws[1], numpy.ndarray) else None)
        elif t.rule == 'tuple':
            return 'tuple', [M.clean(d) for d in dims]
        elif t.rule == 'each':
            return 'each', M.clean(dims[0])
        else:
            d = M.RULES[t.rule](list(dims), **t.params)
        return 'value', M.clean(d)
    except M.Reject as e:
        return 'reject', str(e)
    except M.Unspecified as e:
        return 'unspec', str(e)


EQ_FALLBACK = {'_operator.eq': False, '_operator.ne': True}


def run_case(ename, fn, t, kinds, dims):
    '''returns (status, detail): status in ok / reject-ok / trivial / undefined / unspec / unsupported / VIOLATION
    for VIOLATION detail = (kind, message)'''
    f = fx()
    if not any(M.clean(d) for d in dims):
        return 'trivial', None
    raws, qs = operands(t, kinds, dims)
    exp = expectation(t, kinds, dims, raws)
    if exp[0] == 'unspec':
        return 'unspec', exp[1]
    # reference: the same call on plain numbers
    isfunc = any(k in FUNCKINDS for k in kinds)
    ckey = (ename, t.name, tuple(kinds))
    if isfunc and ckey in f.refcache:
        ref = f.refcache[ckey]
    else:
        try:
            ref = norm(t.call(fn, raws, f), t)
        except Exception as e:
            ref = Undefined(repr(e)[:200])
        if isfunc:
            f.refcache[ckey] = ref
    if isinstance(ref, Undefined):
        return 'undefined', str(ref)
    if exp[0] == 'each':
        exp = 'tuple', [exp[1]] * len(ref)
    try:
        r = t.call(fn, qs, f)
    except Exception as e:
        if exp[0] == 'reject':
            return 'reject-ok', type(e).__name__
        if t.mayraise:
            return 'unsupported', type(e).__name__
        return 'VIOLATION', ('raised:' + type(e).__name__, 'a dimensionally valid call raised {}: {}'.format(type(e).__name__, str(e)[:200]))
    if exp[0] == 'reject':
        if ename in EQ_FALLBACK and type(r) is bool and r is EQ_FALLBACK[ename]:
            return 'reject-ok', 'python-unequal-fallback'
        return 'VIOLATION', ('accepted-mismatch', 'operands of different dimension were accepted ({}); result {!r}'.format(exp[1], r)[:400])
    if exp[0] == 'tuple':
        if not isinstance(r, (tuple, list)) or len(r) != len(exp[1]):
            return 'VIOLATION', ('wrong-structure', 'expected {} results, got {!r}'.format(len(exp[1]), r)[:300])
        for ri, di, refi in zip(r, exp[1], ref):
            v = judge_value(ri, di, refi, t)
            if v:
                return 'VIOLATION', v
        return 'ok', None
    v = judge_value(r, exp[1], ref, t)
    if v:
        return 'VIOLATION', v
    return 'ok', M.dkey(exp[1])
