'''Loop programs for C02 / C03 / C05 / C16: a deterministic, finite grammar of expressions with LoopSum / LoopConcatenate
(nested, adjacent with equal / different lengths, dependent, loop-dependent chunk sizes) and tuples of expressions that
share subterms or loops.  A *program* is either a term (vmc.terms) or a (nested) list of programs.'''

from . import terms as T

a, b, A_, C = T.A('a', (2,)), T.A('b', (3,)), T.A('A', (2, 2)), T.A('C', (3, 3))
L, M = T.LOOP_L, T.LOOP_M

POST_OPS = {'add', 'multiply', 'subtract', 'sum', 'insertaxis', 'transpose', 'takediag', 'diagonalize', 'inflate', 'take', 'stack', 'concat',
            'negative', 'powc', 'exp', 'einsum', 'ravel', 'unravel', 'get', 'slice', 'product', 'abs'}
BODY2_OPS = set(T.CORE) | {'add', 'multiply', 'subtract', 'stack', 'concat', 'einsum', 'exp', 'negative'}


def is_term(p):
    return isinstance(p, tuple) and p and isinstance(p[0], str)


def flatten(prog):
    if is_term(prog):
        return [prog]
    out = []
    for q in prog:
        out.extend(flatten(q))
    return out


def to_json(prog):
    return {'t': T.to_json(prog)} if is_term(prog) else [to_json(q) for q in prog]


def from_json(j):
    return T.from_json(j['t']) if isinstance(j, dict) else tuple(from_json(q) for q in j)


def show(prog):
    return T.show(prog) if is_term(prog) else '(' + ', '.join(show(q) for q in prog) + (',)' if len(prog) == 1 else ')')


def build(prog, memo=None):
    if memo is None:
        memo = {}
    return T.build(prog, memo) if is_term(prog) else tuple(build(q, memo) for q in prog)


def ref(prog, env, memo=None):
    if memo is None:
        memo = {}
    return T.ref(prog, env, memo) if is_term(prog) else tuple(ref(q, env, memo) for q in prog)


def arguments(prog):
    acc = {}
    for t in flatten(prog):
        T.arguments(t, acc)
    return acc


def _dedup(it):
    seen = set()
    out = []
    for t in it:
        if t not in seen:
            seen.add(t)
            out.append(t)
    return out


def base_closed():
    'closures of the loop leaves themselves, for both loop indices: the set S of small closed loops'
    out = []
    for idx in (L, M):
        for leaf in T.loop_leaves(idx):
            out.extend(T.closures(leaf))
    # assembled vectors: loop sums of inflations with loop-dependent dofs (products of two of these over the same index are
    # the 'product of two integrals' pattern)
    Ll, Lm = T.loop_leaves(L), T.loop_leaves(M)
    out.append(('loopsum', ('l', 3), ('inflatearg', (0, 4), Ll[4], Ll[3])))
    out.append(('loopsum', ('m', 2), ('inflatearg', (0, 4), Lm[4], Lm[3])))
    out.append(('loopsum', ('l', 3), ('inflatearg', (0, 4), ('exp', (), Ll[4]), Ll[3])))
    return _dedup(out)


def p1_bodies1():
    'closed loops over l with bodies of depth <= 1 over loop leaves + plain leaves, plus the ragged (loop-dependent length) composites'
    leaves = T.loop_leaves(L) + [a, b]
    l1 = list(T.grow(leaves, leaves))
    out = [c for t in leaves + l1 if T.freevars(t) for c in T.closures(t)]
    out += list(T.grow([a, b], [], {'raggedcat', 'raggedsum'}))
    # a nonlinear function of an index operation on a loop-dependent operand (depth 2): the derivatives of these are chains of scatters
    # with scalar (loop index) and vector dof maps, which the optimisation pass merges into one
    INDEX_OPS = {'take', 'takearg', 'inflate', 'inflatearg', 'get', 'transpose', 'diagonalize', 'takediag', 'ravel', 'unravel', 'takend', 'inflatend'}
    for t in T.grow(T.loop_leaves(L), [], INDEX_OPS):
        if T.freevars(t) and T.typeof(t)[1] == 'f':
            for u in T.unary_apps(t, {'exp', 'powc'}):
                if u[0] == 'exp' or u[1] == (2.,):
                    out.extend(T.closures(u))
    return _dedup(out)


def p2_bodies2():
    'closed loops over l with bodies of depth 2 over the rewrite core + a few binary ops'
    leaves = T.loop_leaves(L) + [a, b]
    l1 = [t for t in T.grow(leaves, leaves, BODY2_OPS)]
    l2 = T.grow(l1, leaves, BODY2_OPS)
    return _dedup(c for t in l2 if T.freevars(t) for c in T.closures(t))


def p3_post():
    'operations on closed loops: one unary op on top, and every pair of small closed loops combined (adjacent loops: grouped if equal length and independent)'
    S = base_closed()
    out = []
    for c in S:
        out.extend(T.unary_apps(c, POST_OPS))
    for c1 in S:
        for c2 in S:
            out.extend(T.binary_apps(c1, c2, POST_OPS))
    # dependent adjacent loops: the second loop's body uses the first loop's (scalar or vector) result
    for c1 in S:
        sh, k = T.typeof(c1)
        if k != 'f':
            continue
        for idx in (L, M):
            for leaf in T.loop_leaves(idx):
                for t in T.binary_apps(leaf, c1, {'multiply', 'add'}):
                    out.extend(T.closures(t))
    ragged = list(T.grow([a, b], [], {'raggedcat', 'raggedsum', 'raggedrange'}))
    out += list(T.grow(ragged, [a, b], POST_OPS))
    # a loop sum added to an array whose SHAPE is only known after another loop (total length of a variable-size concatenation):
    # the accumulator is allocated between the loops; equal loop lengths are merged into one for-loop
    for R in ragged:
        sh, k = T.typeof(R)
        for idx in (L, M):
            scal = T.loop_leaves(idx)[0]
            body = scal
            for n in reversed(sh):
                body = ('insertaxis', (0, n), body)
            for LSum in T.closures(body):
                if LSum[0] == 'loopsum':
                    s_ = ('add', (), R, LSum)
                    out += [s_, ('add', (), LSum, R), ('multiply', (), s_, ('const', (2., 'f'))), (R, s_)]
    return _dedup(out)


def p4_nested():
    'nested loops: outer l (3), inner m (2); inner bodies depend on both indices'
    g = [('multiply', (), ('getl', (0,), b, L), ('tofloat', (), M)),
         ('getl', (0,), ('getl', (0,), C, L), M),
         ('multiply', (), ('getl', (0,), A_, M), ('tofloat', (), L)),
         ('add', (), ('multiply', (), ('getl', (0,), C, L), ('tofloat', (), M)), ('insertaxis', (0, 3), ('getl', (0,), a, M))),
         ('inflatearg', (0, 4), ('getl', (0,), A_, M), ('add', (), ('range', (2,)), L)),
         ('takearg', (0,), ('getl', (0,), C, L), ('add', (), ('range', (2,)), M))]
    inner = []
    for t in g:
        name = 'm'
        shape, kind = T.typeof(t)
        inner.append(('loopsum', ('m', 2), t))
        if shape:
            inner.append(('loopcat', ('m', 2), t))
    out = []
    for t in inner:
        mids = [t] + list(T.unary_apps(t, {'insertaxis', 'negative', 'sum', 'powc', 'transpose'}))
        for leaf in T.loop_leaves(L)[:3]:
            mids.extend(T.binary_apps(t, leaf, {'multiply', 'add'}))
        for mid in mids:
            if T.freevars(mid):
                out.extend(T.closures(mid))
    return _dedup(out)


def tuples():
    'tuples / nested tuples of outputs that share subterms or loops'
    S = base_closed()
    out = []
    for i, c1 in enumerate(S):
        for c2 in S[i:]:
            out.append((c1, c2))
        for u in list(T.unary_apps(c1, POST_OPS))[:6]:
            out.append((c1, u))
            out.append(((u,), (c1, u)))
    # same body summed and concatenated; same body with and without a post-op; three outputs (the design-phase script)
    for leaf in T.loop_leaves(L):
        cl = list(T.closures(leaf))
        if len(cl) == 2:
            out.append(tuple(cl))
            out.append((cl[0], (cl[1], cl[0])))
    infl = ('loopsum', ('l', 3), ('inflatearg', (0, 4), T.loop_leaves(L)[4], T.loop_leaves(L)[3]))
    cat = ('loopcat', ('l', 3), T.loop_leaves(L)[1])
    sca = ('loopsum', ('l', 3), T.loop_leaves(L)[0])
    out.append((infl, cat, sca))
    out.append((infl, ('add', (), infl, infl)))
    # plain shared subterms without loops
    e = ('exp', (), a)
    out.append((e, ('multiply', (), e, e), ('sum', (0,), e)))
    out.append((('insertaxis', (0, 2), a), a))
    return out


def programs(tier):
    'ordered list of (family, program)'
    fams = [('p1', p1_bodies1()), ('p3', p3_post()), ('p4', p4_nested()), ('tuples', tuples())]
    if tier == 'thorough':
        fams.append(('p2', p2_bodies2()))
    return [(n, p) for n, ps in fams for p in ps]
