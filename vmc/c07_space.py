'''C07 operand space: the three samples and the function-array operands.

An operand is described by the JSON node

    ['arr', kind, shape, dtype, variant, slot]

kind     const | arg | geom | basis | ielem | raw
         const  function.Array.cast(ndarray)            (lowered with prependaxes)
         arg    function.Argument, value passed via arguments=
         geom   built from the geometry of the sample    (varies per point)
         basis  built from a basis of the topology       (Inflate structure)
         ielem  built from the element index             (integer, varies per element)
         raw    a plain numpy array handed to the NumPy call next to a function array
dtype    'b' | 'i' | 'f' | 'c'
variant  value class: any | pos | nz | unit | exp | idx | nidx | mat | sym  (keeps inputs
         inside the domain on which the NumPy reference is defined and finite)
slot     small integer; different slots give different values / different spaces

Not every (kind, dtype) exists: geom and basis are real valued by nature (b, f, c
are derived from them), ielem is integer valued (b, i).  AVAILABLE lists them.
'''

import numpy

PYTYPE = {'b': bool, 'i': int, 'f': float, 'c': complex}
NPTYPE = {'b': numpy.bool_, 'i': numpy.int64, 'f': numpy.float64, 'c': numpy.complex128}
KINDCHAR = {'b': 'b', 'i': 'i', 'u': 'i', 'f': 'f', 'c': 'c'}

AVAILABLE = {
    'const': 'bifc', 'arg': 'bifc', 'raw': 'bifc',
    'geom': 'bfc', 'basis': 'bfc', 'ielem': 'bi',
}
KINDS = ['const', 'arg', 'geom', 'basis', 'ielem']  # function-array kinds
SAMPLES = ['line', 'prod', 'bnd']

FT = [0.5, -1.25, 2.0, -0.75, 1.5, -2.5, 0.25, 3.0, -1.75, 1.0, -0.25, 2.75]
ET = [2., 0.5, -1., 1.5, 0., 3., 1., -0.5, 2.5, -2., 0.25, -1.5]
IT = [2, -3, 1, -1, 3, 0, -2, 4, 5, -4, 6, -5]
BT = [True, False, True, True, False, False, True, False, False, True, True, False]
TH = [0.3, 0.9, 1.4, 0.6, 1.7, 0.2, 1.1, 0.75, 1.55, 0.45, 1.25, 0.05]


def kindchar(dtype):
    return KINDCHAR[numpy.dtype(dtype).kind]


def _seq(table, n, slot):
    m = len(table)
    return [table[(i + 5 * slot) % m] for i in range(n)]


def _eye_like(shape):
    if len(shape) >= 2 and shape[-1] == shape[-2]:
        return numpy.broadcast_to(numpy.eye(shape[-1]), shape)
    return numpy.zeros(shape)


def base_values(shape, dtype, variant, slot):
    'the constant part of an operand: a numpy array of the requested shape and element kind'
    shape = tuple(shape)
    n = int(numpy.prod(shape, dtype=int))
    if dtype == 'b':
        v = numpy.array(_seq(BT, n, slot), dtype=bool)
        if variant in ('nz', 'pos', 'mat'):
            v[:] = True
        v = v.reshape(shape)
        if variant == 'sym' and len(shape) >= 2:
            v = v | numpy.swapaxes(v, -1, -2)
        return v
    if dtype == 'i':
        v = numpy.array(_seq(IT, n, slot), dtype=numpy.int64)
        if variant == 'pos':
            v = abs(v) + 1
        elif variant == 'nz':
            v = numpy.where(v == 0, 7, v)
        elif variant == 'exp':
            v = numpy.array([(i + slot) % 4 for i in range(n)], dtype=numpy.int64)
        elif variant in ('idx', 'nidx', 'zidx'):
            v = numpy.array([(i + slot + 1) % 2 for i in range(n)], dtype=numpy.int64)
            if variant == 'nidx':
                v = v - 2
            elif variant == 'zidx':   # negative entries mixed with 0: integer bounds [-1, 0]
                v = v - 1
        elif variant == 'unit':
            v = numpy.array([(i + slot) % 3 - 1 for i in range(n)], dtype=numpy.int64)
        v = v.reshape(shape)
        if variant == 'mat':
            v = (numpy.arange(n).reshape(shape) + slot) % 3 - 1 + 4 * _eye_like(shape).astype(numpy.int64)
        elif variant == 'sym':
            v = v + numpy.swapaxes(v, -1, -2) if len(shape) >= 2 else v
        return v.astype(numpy.int64)
    f = numpy.array(_seq(ET if variant == 'exp' else FT, n, slot), dtype=float)
    g = numpy.array(_seq(FT, n, slot + 1), dtype=float)[::-1].copy()
    if variant == 'pos':
        f = abs(f) + .25
    elif variant == 'unit':
        f = f / 4
        g = g / 8
    f = f.reshape(shape)
    g = g.reshape(shape)
    if variant == 'mat':
        f = f * .25 + 2 * _eye_like(shape)
        g = g * .25
    elif variant == 'sym' and len(shape) >= 2:
        f = f + numpy.swapaxes(f, -1, -2)
        g = g - numpy.swapaxes(g, -1, -2)  # hermitian for complex
    if dtype == 'f':
        return f
    return f + 1j * g


def _weights(shape, dtype, variant, slot, base):
    'coefficient array W of the point-dependent part D = W * P, chosen so the operand stays inside its value class'
    shape = tuple(shape)
    n = int(numpy.prod(shape, dtype=int))
    if dtype == 'i':
        if variant in ('idx', 'nidx', 'zidx'):
            b = base if variant == 'idx' else base + 2 if variant == 'nidx' else base + 1
            return (1 - 2 * b).astype(numpy.int64)
        if variant == 'nz':
            return numpy.sign(base).astype(numpy.int64)
        if variant == 'mat':
            return _eye_like(shape).astype(numpy.int64)
        if variant == 'sym':
            return numpy.ones(shape, dtype=numpy.int64)
        if variant == 'unit':
            return numpy.zeros(shape, dtype=numpy.int64)
        w = numpy.array([1 + (i + slot) % 2 for i in range(n)], dtype=numpy.int64).reshape(shape)
        return w
    if variant in ('mat', 'sym'):
        return numpy.full(shape, .0625)
    w = numpy.array([.0625 * (1 + (i + slot) % 3) for i in range(n)]).reshape(shape)
    if variant == 'unit':
        w = w * .25
    if variant == 'nz':
        w = w * numpy.sign(base.real)
    return w


class Ctx:
    '''one sample plus the space-bound ingredients used to build operands; built lazily, once per process'''

    _cache = {}

    @classmethod
    def get(cls, name):
        if name not in cls._cache:
            cls._cache[name] = cls(name)
        return cls._cache[name]

    def __init__(self, name):
        from nutils import mesh, function
        self.name = name
        self.function = function
        if name == 'line':
            X, x = mesh.line(2, space='X')
            self.sample = X.sample('gauss', 2)
            self.P = [x, x * .75 + .125, 1.5 - x * .5]
            self.bases = [X.basis('std', degree=1), X.basis('std', degree=2)]
            self.ielems = [X.f_index, X.f_index]
            self.npointaxes = 1
        elif name == 'prod':
            X, x = mesh.line(2, space='X')
            Y, y = mesh.line(numpy.array([0., 1., 3.]), space='Y')
            self.sample = X.sample('gauss', 1) * Y.sample('gauss', 2)
            self.P = [x, y * .5, x * .5 + y * .25]
            self.bases = [X.basis('std', degree=1), Y.basis('std', degree=1)]
            self.ielems = [X.f_index, Y.f_index]
            self.npointaxes = 2
        elif name == 'bnd':
            T, g = mesh.rectilinear([2, 1])
            self.sample = T.boundary.sample('gauss', 1)
            self.P = [g[0], g[1] + .5, g[0] * .5 + g[1]]
            self.bases = [T.basis('std', degree=1), T.basis('std', degree=1)]
            self.ielems = [T.f_index, T.f_index]
            self.npointaxes = 1
        else:
            raise ValueError(name)
        self.npoints = self.sample.npoints
        self._operands = {}
        self._values = {}

    # ------------------------------------------------------------ operands

    def operand(self, node):
        '''-> (object handed to the NumPy call, arguments dict). Cached per node.'''
        key = repr(node)
        if key not in self._operands:
            try:
                self._operands[key] = self._build(*node[1:])
            except Exception as e:
                # operands are built with nutils arithmetic / comparison / indexing on the real code: if that breaks the property is broken
                raise OperandError('building operand {} raised {}: {}'.format(node, type(e).__name__, str(e)[:200]))
        return self._operands[key]

    def _build(self, kind, shape, dtype, variant, slot):
        function = self.function
        shape = tuple(shape)
        if dtype not in AVAILABLE[kind]:
            raise ValueError('operand kind {} has no dtype {}'.format(kind, dtype))
        V = base_values(shape, dtype, variant, slot)
        if kind == 'raw':
            return V, {}
        if kind == 'const':
            return function.Array.cast(V), {}
        if kind == 'arg':
            name = 'a_{}_{}_{}_{}'.format(dtype, 'x'.join(map(str, shape)) or 's', variant, slot)
            return function.Argument(name, shape, PYTYPE[dtype]), {name: V}
        n = int(numpy.prod(shape, dtype=int))
        if kind == 'geom':
            P = self.P[slot % 3]
            field = P
        elif kind == 'basis':
            b = self.bases[slot % 2]
            idx = numpy.array([(i + slot) % b.shape[0] for i in range(n)], dtype=int).reshape(shape)
            # mat / sym operands must stay (hermitian) symmetric: one basis function times a symmetric weight
            field = b[idx] if shape and variant not in ('mat', 'sym') else b[(slot) % b.shape[0]]
        elif kind == 'ielem':
            field = self.ielems[slot % 2]
        else:
            raise ValueError(kind)
        if kind == 'ielem' and variant in ('idx', 'nidx', 'zidx'):
            # an index must have integer bounds that nutils can PROVE to lie inside the axis (evaluable.NormDim asserts it,
            # numpy's IndexError is value dependent): element index times ones, bounds [0,1] (idx) or [-2,-1] (nidx)
            arr = field * function.Array.cast(numpy.ones(shape, dtype=int)) if shape else field
            return (arr - 2 if variant == 'nidx' else arr - 1 if variant == 'zidx' else arr), {}
        if dtype == 'b':
            if kind == 'ielem':
                pat = function.Array.cast(base_values(shape, 'i', 'idx', slot))
                return numpy.equal(field, pat), {}
            th = numpy.array(_seq(TH, n, slot)).reshape(shape)
            if kind == 'basis':
                th = th / 2
            if variant == 'sym' and len(shape) >= 2:
                th = (th + numpy.swapaxes(th, -1, -2)) / 2
            return numpy.greater(field, function.Array.cast(th)), {}
        W = numpy.asarray(_weights(shape, dtype, variant, slot, V))
        if dtype == 'c' and variant != 'sym':
            W = W * (1 - .5j)
        return function.Array.cast(V) + function.Array.cast(W) * field, {}

    def values(self, node):
        'per-point values of an operand, shape (npoints, *shape), obtained with sample.eval (raw: the array itself)'
        key = repr(node)
        if key not in self._values:
            obj, args = self.operand(node)
            if node[1] == 'raw':
                v = numpy.broadcast_to(obj, (self.npoints, *obj.shape))
            elif 0 in node[2]:
                # an empty operand has no values to ask for (and nutils cannot evaluate it on a product sample: raise:zero-length-result)
                v = numpy.zeros((self.npoints, *node[2]), dtype=NPTYPE[node[3]])
            else:
                try:
                    v = numpy.asarray(self.sample.eval(obj, arguments=args))
                except Exception as e:
                    raise OperandError('evaluating operand {} raised {}: {}'.format(node, type(e).__name__, str(e)[:200]))
                if v.shape != (self.npoints, *node[2]):
                    raise OperandError('operand {} evaluates to shape {}'.format(node, v.shape))
                if kindchar(v.dtype) != node[3]:
                    raise OperandError('operand {} evaluates to dtype {}'.format(node, v.dtype))
                if node[1] in ('const', 'arg'):
                    V = base_values(node[2], node[3], node[4], node[5])
                    if not all(numpy.array_equal(v[p], V) for p in range(self.npoints)):
                        raise OperandError('constant/argument operand {} does not evaluate to its own value'.format(node))
            self._values[key] = v
        return self._values[key]


class OperandError(Exception):
    'a leaf operand (constant, argument, ...) does not evaluate to what it was built from'
