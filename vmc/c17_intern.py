'''C17 part 2: interning as a history state space.

A history is a list of events on a table of live references (slots):
  ['create', v, r]  build value v of the subject by route r, keep the reference
  ['drop', k]       delete the k-th live reference
  ['gc']            gc.collect()
  ['pickle', k]     pickle round trip of the k-th live object, keep the result
The reference model is the list of value indices held by the slots.  After
every event:
  I1  two live slots holding the same value are the same object;
  I2  two live slots holding structurally different values are different objects;
  I3  every live object shows exactly the parameters (type exact) and the
      nutils_hash that the same call gives in an empty history;
  I4  a create is accepted / rejected exactly as in an empty history.
'''

import gc, pickle, weakref, json
from . import c17_corpus as cc, core
from .c17_corpus import I, F, B, S, T, AD, FMS, TYPE, canon, _jkey
from .c17_objects import O, registry
from .c17_values import ev_leaves


def subjects(tier):
    leaves, C2, c = ev_leaves()
    x, y = leaves[0], leaves[1]
    r3 = [0, 1, 2] if tier == 'thorough' else [0, 1]
    S_ = {}
    S_['Sinc'] = dict(kind='DataClass', values=[O('ev.Sinc', x, I(1)), O('ev.Sinc', x, F(1.)), O('ev.Sinc', x, B(True)), O('ev.Sinc', x, I(2))], routes=r3)
    S_['DC'] = dict(kind='DataClass', values=[O('K.DC', I(1)), O('K.DC', F(1.)), O('K.DC', B(True)), O('K.DC', I(1), I(3))], routes=r3)
    S_['DCnested'] = dict(kind='DataClass', values=[O('K.DC', T(I(1), I(0))), O('K.DC', T(B(True), B(False))), O('K.DC', T(F(1.), F(0.))), O('K.DC', T(I(0), I(1)))], routes=[0, 1])
    S_['DCzero'] = dict(kind='DataClass', values=[O('K.DC', F(0.)), O('K.DC', F(-0.)), O('K.DC', I(0)), O('K.DC', S('0'))], routes=[0, 1])
    S_['Sing'] = dict(kind='Singleton', values=[O('K.Sing', I(1)), O('K.Sing', F(1.)), O('K.Sing', B(True)), O('K.Sing', I(1), I(3))], routes=r3)
    S_['Index'] = dict(kind='Singleton', values=[O('tr.Index', I(1), I(1)), O('tr.Index', I(1), B(True)), O('tr.Index', I(1), F(1.)), O('tr.Index', I(1), I(0))], routes=[0, 1])
    S_['arraydata'] = dict(kind='Singleton', values=[AD('int', (2,), [1, 0]), AD('float', (2,), ['1.0', '0.0']), AD('bool', (2,), [True, False]), AD('int', (1, 2), [1, 0])], routes=[0, 1, 2])
    S_['Constant'] = dict(kind='DataClass', values=[O('ev.Constant', AD('int', (2,), [1, 0])), O('ev.Constant', AD('float', (2,), ['1.0', '0.0'])), O('ev.Constant', AD('bool', (2,), [True, False]))], routes=[0, 1, 2, 4])
    S_['Add'] = dict(kind='DataClass', values=[O('ev.Add', FMS(x, y)), O('ev.Add', FMS(x, x)), O('ev.Multiply', FMS(x, y)), O('ev.Add', FMS(y, y))], routes=[0, 5] if tier != 'thorough' else [0, 1, 5])
    S_['Argument'] = dict(kind='DataClass', values=[O('ev.Argument', S('x'), T(C2), TYPE('float')), O('ev.Argument', S('x'), T(C2), TYPE('int')), O('ev.Argument', S('x'), T(c(3)), TYPE('float'))], routes=[0, 1, 2])
    S_['Points'] = dict(kind='Singleton', values=[O('pt.SimplexGaussPoints', I(1), I(2)), O('pt.SimplexGaussPoints', I(1), I(3)), O('pt.CoordsUniformPoints', AD('float', (1, 1), ['0.5']), F(1.)), O('pt.CoordsUniformPoints', AD('float', (1, 1), ['0.5']), I(1))], routes=[0, 1])
    for name, sub in S_.items():
        sub['depth'] = 4 if tier == 'quick' else 5
    if tier == 'thorough':  # depth 5 over two routes, all routes at depth 4
        for name in ('arraydata', 'Constant', 'Add', 'Argument'):
            full = S_[name]
            S_[name + '/all-routes'] = dict(full, depth=4)
            S_[name] = dict(full, routes=full['routes'][:1] + full['routes'][-1:])
    return S_


def _pykey(c):
    'canon with numbers identified the way Python == identifies them'
    if isinstance(c, list):
        if len(c) == 2 and c[0] in ('bool', 'int'):
            return ['num', repr(complex(int(c[1])))]
        if len(c) == 2 and c[0] == 'float' and c[1] != 'nan':
            return ['num', repr(complex(float(c[1]) + 0.))]  # -0.0 == 0.0
        return [_pykey(i) for i in c]
    return c


def python_equal(sa, sb):
    return _jkey(_pykey(canon(sa))) == _jkey(_pykey(canon(sb)))


def observe_params(obj, spec):
    'type exact description of the parameters an object shows, next to what the spec asked for'
    if spec[0] == 'arraydata':
        try:
            return cc.vcanon(obj), canon(spec)
        except Exception as e:
            return ['unreadable', type(e).__name__], canon(spec)
    ent = registry()[spec[1]]
    seen, asked = [], []
    for p, a in spec[2]:
        attr = ent['attrs'].get(p)
        if attr is None:
            continue
        v = cc.vcanon(getattr(obj, attr))
        if v is None:
            continue
        seen.append([p, v])
        asked.append([p, canon(a)])
    return seen, asked


class Explorer:

    def __init__(self, name, tier):
        self.name = name
        self.sub = subjects(tier)[name]
        self.values = self.sub['values']
        self.keys = [cc.ckey(v) for v in self.values]
        assert len(set(self.keys)) == len(self.keys)
        self.kind = self.sub['kind']
        self.leftover = 0
        self.baseline = {}
        for vi, spec in enumerate(self.values):
            for r in self.sub['routes']:
                self.baseline[vi, r] = self._fresh(spec, r)
        hashes = {}
        for (vi, r), out in self.baseline.items():
            if out[0] == 'ok':
                hashes.setdefault(vi, set()).add(out[1])
        # in an empty history all routes of one value must agree (this is the corpus property, re-checked here so that I3 has one reference)
        self.refhash = {vi: sorted(hs)[0] for vi, hs in hashes.items()}
        self.baseline_problem = next(('routes of {} disagree in an empty history'.format(cc.expr(self.values[vi])) for vi, hs in hashes.items() if len(hs) > 1), None)

    def _fresh(self, spec, r):
        from nutils import types
        gc.collect()
        try:
            obj = cc.build(spec, r)
        except Exception as e:
            return ('raise', type(e).__name__)
        h = types.nutils_hash(obj)
        seen, asked = observe_params(obj, spec)
        del obj
        gc.collect()
        return ('ok', h.hex() if isinstance(h, bytes) else repr(type(h)), seen == asked)

    def events(self, nslots):
        out = [['create', vi, r] for vi in range(len(self.values)) for r in self.sub['routes']]
        out += [['drop', k] for k in range(nslots)]
        out += [['gc']]
        out += [['pickle', k] for k in range(nslots)]
        return out

    def run(self, history):
        '''execute the history on the real classes from an empty table; returns
        (violation or None, number of live slots, abstract state); a violation is (key, what)'''
        from nutils import types
        slots = []   # [value index, object]; the table is empty here: every run ends with a collection
        pending = []  # value indices dropped since the last gc (may still sit in the weak tables)
        created = []  # value indices created so far
        viol = None
        for n, ev in enumerate(history):
            what = None
            if ev[0] == 'create':
                vi, r = ev[1], ev[2]
                base = self.baseline[vi, r]
                try:
                    obj = cc.build(self.values[vi], r)
                except Exception as e:
                    obj = None
                    if base[0] == 'ok':
                        what = ('accept', 'create {} raises {} although the same call succeeds in an empty history'.format(cc.expr(self.values[vi]), type(e).__name__), vi)
                else:
                    if base[0] == 'raise':
                        what = ('accept', 'create {} is accepted although the same call raises {} in an empty history'.format(cc.expr(self.values[vi]), base[1]), vi)
                    slots.append([vi, obj])
                    created.append(vi)
                obj = None
            elif ev[0] == 'drop':
                pending.append(slots[ev[1]][0])
                del slots[ev[1]]
            elif ev[0] == 'gc':
                gc.collect()
                pending = []
            elif ev[0] == 'pickle':
                vi, obj = slots[ev[1]]
                try:
                    slots.append([vi, pickle.loads(pickle.dumps(obj))])
                except Exception as e:
                    what = ('pickle-raises', 'pickle round trip of {} raises {}'.format(cc.expr(self.values[vi]), type(e).__name__), vi)
                obj = None
            if what is None:
                what = self.invariants(slots, types)
            if what is not None:
                kind, text, vi = what
                others = [w for w in created + pending if w != vi] + [w for w, o in slots if w != vi]
                peq = any(python_equal(self.values[vi], self.values[w]) for w in others)
                if kind in ('merged', 'params', 'hash', 'accept') and peq:
                    key = 'intern:python-equal-key:{}'.format(self.kind)
                else:
                    key = 'intern:{}:{}'.format(kind, self.kind)
                viol = (key, 'after {}: {}'.format(json.dumps(history[:n + 1]), text))
                break
        state = json.dumps([[vi for vi, o in slots], sorted(pending)])
        nslots = len(slots)
        refs = [weakref.ref(o) for vi, o in slots]
        slots = o = obj = None
        gc.collect()
        self.leftover += sum(1 for r in refs if r() is not None)  # must stay 0: every history starts from empty intern tables
        return viol, nslots, state

    def invariants(self, slots, types):
        for i, (vi, oi) in enumerate(slots):
            for vj, oj in slots[:i]:
                if vi == vj and oi is not oj:
                    return ('not-identical', 'two live structurally equal objects {} are not identical'.format(cc.expr(self.values[vi])), vi)
                if vi != vj and oi is oj:
                    return ('merged', '{} and {} are structurally different but the same object'.format(cc.expr(self.values[vj]), cc.expr(self.values[vi])), vi)
        for vi, o in slots:
            seen, asked = observe_params(o, self.values[vi])
            if seen != asked:
                return ('params', 'object created as {} shows parameters {} instead of {}'.format(cc.expr(self.values[vi]), json.dumps(seen), json.dumps(asked)), vi)
            h = types.nutils_hash(o)
            if not isinstance(h, bytes) or len(h) != 20:
                return ('badhash', 'nutils_hash of {} is not 20 bytes'.format(cc.expr(self.values[vi])), vi)
            if vi in self.refhash and h.hex() != self.refhash[vi]:
                return ('hash', 'nutils_hash of {} is {} but {} in an empty history'.format(cc.expr(self.values[vi]), h.hex(), self.refhash[vi]), vi)
        return None

    def explore(self, prefix, depth, res, witness_base):
        viol, nslots, state = self.run(prefix)
        res.count('transitions')
        res.count('evaluations')
        res.count('traces_validated_against_impl')
        res.distinct('distinct_states', self.name + state)
        res.distinct('distinct_nontrivial', self.name + json.dumps(prefix))
        res.maximum('max_history_depth', len(prefix))
        if viol is not None:
            res.violation(viol[0], viol[1], dict(witness_base, events=prefix))
            return
        if len(prefix) == 2:
            res.sample({'subject': self.name, 'history': prefix, 'state': json.loads(state)})
        if len(prefix) < depth:
            for ev in self.events(nslots):
                if ev[0] == 'gc' and prefix[-1][0] == 'gc':
                    continue  # gc;gc == gc
                self.explore(prefix + [ev], depth, res, witness_base)


def run_shard(spec, tier, res):
    gc.collect()
    gc.freeze()  # everything imported so far is immortal: keeps gc.collect() cheap and focused on the objects of the histories
    ex = Explorer(spec['subject'], tier)
    if ex.baseline_problem:
        res.violation('intern:baseline:{}'.format(ex.kind), ex.baseline_problem, {'kind': 'history', 'subject': spec['subject'], 'tier': tier, 'events': []})
        return
    first = ex.events(0)[spec['first']]
    depth = ex.sub['depth']
    ex.explore([first], depth, res, {'kind': 'history', 'subject': spec['subject'], 'tier': tier})
    if ex.leftover:
        res.errors.append('intern subject {}: {} objects survived the end of their history (an outside reference keeps them alive; histories are not independent)'.format(spec['subject'], ex.leftover))


def nfirst(name, tier):
    sub = subjects(tier)[name]
    return len(sub['values']) * len(sub['routes'])


def replay(w):
    ex = Explorer(w['subject'], w.get('tier', 'quick'))
    if ex.baseline_problem:
        return ex.baseline_problem
    viol, nslots, state = ex.run(w['events'])
    return None if viol is None else viol[1]
