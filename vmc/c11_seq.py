'''C11 part (a): nutils.transformseq.Transforms as a state space.

A state is a live Transforms object together with a boring model: a python list
of `Elem` records (literal chain, reference, lineage).  Every operation is
applied to both; afterwards the complete observation set (len / iter / getitem
/ index / contains / index_with_tail for every element and every tail / unknown
chains) is compared.

The model never calls a Transforms method.  It uses Reference.child_transforms
/ edge_transforms / child_refs / edge_refs (module nutils.element, not under
test) as data, and transform.apply on single items to compare affine maps.
'''

import itertools, json
import numpy


class Elem:
    __slots__ = 'chain', 'ref', 'b', 'path', 'cellref'

    def __init__(self, chain, ref, b, path, cellref=None):
        self.chain = chain      # literal tuple of TransformItems that seq[i] must return
        self.ref = ref          # reference element
        self.b = b              # id of the base-universe element this element descends from
        self.path = path        # derived steps since the base: (('c', k) | ('e', k), ...)
        self.cellref = cellref if cellref is not None else ref  # reference of the base cell (where the leading Index items end)


# ---------------------------------------------------------------- bases

def _axes(spec):
    from nutils import transformseq
    out = []
    for a in spec:
        if a[0] == 'dim':
            out.append(transformseq.DimAxis(a[1], a[2], a[3], bool(a[4])))
        else:
            out.append(transformseq.IntAxis(a[1], a[2], a[3], a[4], bool(a[5])))
    return tuple(out)


def _structured_model(name, rootindex, axes, nrefine):
    '''independent construction of the chains of a StructuredTransforms:
    (root, Index per axis at level 0, one child item per refinement level, edge items)'''
    from nutils import transform, element
    naxes = len(axes)
    root = transform.Index(naxes, rootindex)
    line = element.LineReference()
    point = element.PointReference()
    box = line
    for _ in range(naxes - 1):
        box = box * line
    ctrans = {}
    for k, bits in enumerate(itertools.product((0, 1), repeat=naxes)):
        ctrans[bits] = box.child_transforms[k]
    # edge items, in the order (ibound, side, idim) of the internal axes
    et = []
    removed = [False] * naxes
    for ibound, side, idim in sorted((a[4], int(a[5]), idim) for idim, a in enumerate(axes) if a[0] == 'int'):
        ref = None
        for r in removed:
            f = point if r else line
            ref = f if ref is None else ref * f
        iedge = (idim - sum(removed[:idim])) * 2 + 1 - side
        et.append(ref.edge_transforms[iedge])
        removed[idim] = True
    elemref = None
    for a in axes:
        f = line if a[0] == 'dim' else point
        elemref = f if elemref is None else elemref * f
    lens = [a[2] - a[1] for a in axes]
    elems = []
    for multi in itertools.product(*[range(n) for n in lens]):
        idx = []
        for e, a in zip(multi, axes):
            v = a[1] + e
            if a[3]:
                v %= a[3]
            idx.append(v)
        levels = []
        for _ in range(nrefine):
            levels.insert(0, tuple(v % 2 for v in idx))
            idx = [v // 2 for v in idx]
        chain = (root,) + tuple(transform.Index(naxes, v) for v in idx) + tuple(ctrans[b] for b in levels) + tuple(et)
        elems.append(Elem(chain, elemref, (name, tuple(idx), tuple(levels)), (), box))
    return elems


def _structured(name, rootindex, axes, nrefine):
    from nutils import transformseq, transform
    seq = transformseq.StructuredTransforms(transform.Index(len(axes), rootindex), _axes(axes), nrefine)
    return seq, _structured_model(name, rootindex, axes, nrefine)


def _plain(name, chains, refs, todims, fromdims, cellrefs=None):
    from nutils import transformseq
    seq = transformseq.PlainTransforms(tuple(chains), todims, fromdims)
    return seq, [Elem(c, r, (name, i), (), cr) for i, (c, r, cr) in enumerate(zip(chains, refs, cellrefs or refs))]


def _index(name, ndims, length, offset, refs):
    from nutils import transformseq, transform
    seq = transformseq.IndexTransforms(ndims, length, offset)
    return seq, [Elem((transform.Index(ndims, offset + i),), refs[i], (name, offset + i), ()) for i in range(length)]


PERIODIC_FIRST_AXIS = {'s1p', 's2p'}
BASES = ['s1', 's1p', 's1r', 's2', 's2p', 's2r', 's2b', 's2i', 'p2', 'p2d', 'p1e', 'i1', 'i2', 'i2m']


def build_base(name):
    '''returns (seq, model, sibling) where sibling is None or (seq, model) of a
    sequence over disjoint base cells with the same todims/fromdims'''
    from nutils import transform, element
    line = element.LineReference()
    tri = element.TriangleReference()
    sq = line * line
    I = transform.Index
    SC = transform.SimplexChild
    SE = transform.SimplexEdge
    if name == 's1':
        return _structured('s1', 0, [['dim', 0, 3, 0, 0]], 0) + (_structured('s1x', 0, [['dim', 4, 6, 0, 0]], 0),)
    if name == 's1p':
        return _structured('s1p', 0, [['dim', 0, 3, 3, 1]], 0) + (_structured('s1px', 1, [['dim', 0, 2, 0, 0]], 0),)
    if name == 's1r':
        return _structured('s1r', 0, [['dim', 1, 5, 0, 0]], 1) + (_structured('s1rx', 0, [['dim', 6, 8, 0, 0]], 1),)
    if name == 's2':
        return _structured('s2', 0, [['dim', 0, 2, 0, 0], ['dim', 0, 2, 0, 0]], 0) + (_structured('s2x', 0, [['dim', 2, 3, 0, 0], ['dim', 0, 2, 0, 0]], 0),)
    if name == 's2p':
        return _structured('s2p', 0, [['dim', 0, 2, 2, 1], ['dim', 1, 3, 0, 0]], 0) + (None,)
    if name == 's2r':
        return _structured('s2r', 0, [['dim', 0, 2, 0, 0], ['dim', 3, 5, 4, 1]], 1) + (_structured('s2rx', 0, [['dim', 2, 4, 0, 0], ['dim', 3, 5, 4, 1]], 1),)
    if name == 's2b':  # right boundary of a 1x2 mesh refined once: x-axis internal
        return _structured('s2b', 0, [['int', 1, 2, 0, 0, 1], ['dim', 0, 4, 0, 0]], 1) + (_structured('s2bx', 0, [['int', 0, 1, 0, 0, 0], ['dim', 0, 4, 0, 0]], 1),)
    if name == 's2i':  # interfaces in y of a periodic 2x3 mesh (side=True axis as built by StructuredTopology.interfaces)
        return _structured('s2i', 0, [['dim', 0, 2, 0, 0], ['int', -1, 2, 3, 0, 1]], 0) + (None,)
    if name == 'p2':
        chains = [(I(2, 5),), (I(2, 1),), (I(2, 3),), (I(2, 2),)]
        sib = _plain('p2x', [(I(2, 9),), (I(2, 8),)], [tri, tri], 2, 2)
        return _plain('p2', chains, [tri] * 4, 2, 2) + (sib,)
    if name == 'p2d':  # mixed depth, mixed reference, one chain per cell or per child of a cell
        chains = [(I(2, 0), SC(2, 3)), (I(2, 1),), (I(2, 0), SC(2, 0)), (I(2, 2), transform.TensorChild(SC(1, 1), SC(1, 0))), (I(2, 0), SC(2, 1), SC(2, 2))]
        seq, model = _plain('p2d', chains, [tri, tri, tri, sq, tri], 2, 2, [tri, tri, tri, sq, tri])
        model[0].b, model[0].path = ('p2d', 'cell0'), (('c', 3),)
        model[2].b, model[2].path = ('p2d', 'cell0'), (('c', 0),)
        model[4].b, model[4].path = ('p2d', 'cell0'), (('c', 1), ('c', 2))
        return seq, model, None
    if name == 'p1e':  # edges of two triangles, as a plain sequence with fromdims 1
        chains = [(I(2, 0), SE(2, 2)), (I(2, 0), SE(2, 0)), (I(2, 1), SE(2, 1)), (I(2, 1), SE(2, 0))]
        seq, model = _plain('p1e', chains, [line] * 4, 2, 1, [tri] * 4)
        for e, (cell, k) in zip(model, [(0, 2), (0, 0), (1, 1), (1, 0)]):
            e.b, e.path = ('p1e', cell), (('e', k),)
        return seq, model, None
    if name == 'i1':
        return _index('i1', 1, 3, 2, [line] * 3) + (_index('i1x', 1, 2, 7, [line] * 2),)
    if name == 'i2':
        return _index('i2', 2, 3, 0, [sq] * 3) + (_index('i2x', 2, 2, 3, [sq] * 2),)
    if name == 'i2m':
        return _index('i2m', 2, 3, 1, [sq, tri, sq]) + (_index('i2mx', 2, 2, 4, [tri, tri]),)
    raise ValueError(name)


# ---------------------------------------------------------------- model operations

def nutils_refs(model, ndims):
    from nutils import elementseq
    return elementseq.References.from_iter([e.ref for e in model], ndims)


def m_refined(model):
    return [Elem(e.chain + (ct,), cr, e.b, e.path + (('c', k),), e.cellref) for e in model for k, (ct, cr) in enumerate(zip(e.ref.child_transforms, e.ref.child_refs))]


def m_edges(model):
    return [Elem(e.chain + (et,), er, e.b, e.path + (('e', k),), e.cellref) for e in model for k, (et, er) in enumerate(zip(e.ref.edge_transforms, e.ref.edge_refs))]


def disjoint(p, q):
    'certainly chain-disjoint lineages under the same base element: the paths diverge at a step of equal kind'
    for s, t in zip(p, q):
        if s != t:
            return s[0] == t[0]
    return False  # one is a prefix of the other (or equal)


def valid(model):
    byb = {}
    for e in model:
        byb.setdefault(e.b, []).append(e.path)
    for paths in byb.values():
        for i, p in enumerate(paths):
            for q in paths[:i]:
                if not disjoint(p, q):
                    return False
    return True


def masks(n):
    'a fixed alphabet of boolean masks for a sequence of length n (exhaustive for n <= 3)'
    if n == 0:
        return []
    if n <= 3:
        return [list(m) for m in itertools.product([False, True], repeat=n)]
    out = []
    for m in ([i != 0 for i in range(n)], [i != n - 1 for i in range(n)], [i % 2 == 0 for i in range(n)], [i % 2 == 1 for i in range(n)],
              [i == 0 for i in range(n)], [i == n - 1 for i in range(n)], [i not in (1, n // 2) for i in range(n)], [i < n // 2 for i in range(n)],
              [False] * n, [True] * n):
        if m not in out:
            out.append(m)
    return out


def takes(n):
    'index arrays without repetition that are not monotone increasing (those are masks)'
    if n < 2:
        return []
    out = [list(range(n))[::-1], list(range(1, n)) + [0], [n - 1, 0]]
    if n >= 3:
        out += [[1, 0] + list(range(2, n)), [2, 0, 1], [0, 2, 1]]
    res = []
    for t in out:
        if t not in res and t != sorted(t):
            res.append(t)
    return res


def slices(n):
    out = []
    for s in ([1, None, None], [None, -1, None], [None, None, 2], [1, None, 2], [1, 3, None], [None, 2, None], [n // 2, None, None], [2, 2, None], [None, None, None], [-2, None, None]):
        r = range(n)[slice(*s)]
        key = list(r)
        if all(key != k for k, _ in out):
            out.append((key, s))
    return [s for k, s in out]


def split_masks(n):
    if n < 2:
        return []
    out = [[i < (n + 1) // 2 for i in range(n)], [i % 2 == 0 for i in range(n)]]
    if n > 2:
        out.append([i == 1 for i in range(n)])
    res = []
    for m in out:
        if m not in res:
            res.append(m)
    return res


SPLIT_FORMS = ['id+id', 'swap', 'ref+id', 'id+ref', 'ref+ref', 'edg+edg', 'refswap']


NARROW = {'quick': (0, 2, 3), 'thorough': (0, 1, 2)}


def operations(model, fromdims, has_sibling, depth, tier):
    '''the operation alphabet applicable to a state; the same kinds of operation are available at every
    depth, the number of parameter choices narrows with depth (level 0 = full alphabet)'''
    level = NARROW[tier][depth]
    n = len(model)
    ops = []
    ms, ts, ss, sp = masks(n), takes(n), slices(n), split_masks(n)
    forms = SPLIT_FORMS
    if level >= 1:
        ms = [m for m in ms if any(m) and not all(m)][:4] + [m for m in ms if not any(m)][:1]
        ts = ts[:2]
        ss = ss[:3]
        sp = sp[:2]
    if level >= 2:
        ms = ms[:3]
        ts = ts[:1]
        ss = ss[:2]
        sp = sp[:1]
        forms = ['id+id', 'ref+id', 'id+ref', 'edg+edg']
    if level >= 3:
        ms = ms[:2]
        ss = ss[:1]
        forms = ['id+id', 'ref+id']
    ops += [['mask', m] for m in ms]
    ops += [['take', t] for t in ts]
    ops += [['slice', s] for s in ss]
    if n:
        ops.append(['refined'])
        if fromdims > 0:
            ops.append(['edges'])
        for m in sp:
            for f in forms:
                if f == 'edg+edg' and fromdims == 0:
                    continue
                ops.append(['split', f, m])
        if has_sibling:
            ops.append(['sib', 'after'])
            if level == 0:
                ops.append(['sib', 'before'])
    return ops


def _sel(seq, model, m):
    idx = numpy.array(m, dtype=bool)
    return seq[idx], [e for e, k in zip(model, m) if k]


def apply_op(seq, model, op, sibling):
    '''apply op to the real object and to the model; returns (seq2, model2, sibling2) or None if the
    operation is not applicable (the model says the result would violate the documented precondition
    that no chain is a head of another)'''
    kind = op[0]
    fromdims = seq.fromdims
    if kind == 'mask':
        s2, m2 = _sel(seq, model, op[1])
        return s2, m2, sibling
    if kind == 'take':
        return seq[numpy.array(op[1], dtype=int)], [model[i] for i in op[1]], sibling
    if kind == 'slice':
        return seq[slice(*op[1])], model[slice(*op[1])], sibling
    if kind == 'refined':
        sib2 = (sibling[0].refined(nutils_refs(sibling[1], fromdims)), m_refined(sibling[1])) if sibling else None
        return seq.refined(nutils_refs(model, fromdims)), m_refined(model), sib2
    if kind == 'edges':
        sib2 = (sibling[0].edges(nutils_refs(sibling[1], fromdims)), m_edges(sibling[1])) if sibling else None
        return seq.edges(nutils_refs(model, fromdims)), m_edges(model), sib2
    if kind == 'split':
        form, m = op[1], op[2]
        a, ma = _sel(seq, model, m)
        b, mb = _sel(seq, model, [not k for k in m])
        fa, fb = {'id+id': ('id', 'id'), 'swap': ('id', 'id'), 'ref+id': ('ref', 'id'), 'id+ref': ('id', 'ref'), 'ref+ref': ('ref', 'ref'), 'edg+edg': ('edg', 'edg'), 'refswap': ('ref', 'id')}[form]

        def f(kind, s, mm):
            if kind == 'id' or not mm:
                return s, (mm if kind == 'id' else [])
            if kind == 'ref':
                return s.refined(nutils_refs(mm, fromdims)), m_refined(mm)
            return s.edges(nutils_refs(mm, fromdims)), m_edges(mm)
        a, ma = f(fa, a, ma)
        b, mb = f(fb, b, mb)
        if form in ('swap', 'refswap'):
            a, ma, b, mb = b, mb, a, ma
        m2 = ma + mb
        if not valid(m2):
            return None
        s2 = a + b
        sib2 = sibling
        if form == 'edg+edg' and sibling:
            sib2 = (sibling[0].edges(nutils_refs(sibling[1], fromdims)), m_edges(sibling[1]))
        return s2, m2, sib2
    if kind == 'sib':
        if not sibling or not len(sibling[1]):
            return None
        if op[1] == 'after':
            return seq + sibling[0], model + sibling[1], None
        return sibling[0] + seq, sibling[1] + model, None
    raise ValueError(op)


# ---------------------------------------------------------------- observations

_VERT = {}


def probe_points(ref):
    'vertices and centroid of a reference element'
    key = ref
    if key not in _VERT:
        v = numpy.asarray(ref.vertices, dtype=float)
        _VERT[key] = numpy.concatenate([v, v.mean(axis=0)[None]], axis=0) if ref.ndims else numpy.zeros((1, 0))
    return _VERT[key]


def item_apply(chain, x):
    for item in reversed(chain):
        x = numpy.asarray(item.apply(x))
    return x


_TAILS = {}


def tails(ref, tier):
    '''all dimension-valid tails from {child, edge, child.child, edge-then-child-of-edge, child-then-edge-of-child};
    returns list of (kind, tail chain, final reference)'''
    if (ref, tier) in _TAILS:
        return _TAILS[ref, tier]
    out = []
    ch = list(zip(ref.child_transforms, ref.child_refs))
    ed = list(zip(ref.edge_transforms, ref.edge_refs)) if ref.ndims else []
    for ct, cr in ch:
        out.append(('c', (ct,), cr))
    for et, er in ed:
        out.append(('e', (et,), er))
    for ct, cr in ch:
        for ct2, cr2 in zip(cr.child_transforms, cr.child_refs):
            out.append(('cc', (ct, ct2), cr2))
        if cr.ndims:
            for et, er in zip(cr.edge_transforms, cr.edge_refs):
                out.append(('ce', (ct, et), er))
    for et, er in ed:
        for ct, cr in zip(er.child_transforms, er.child_refs):
            out.append(('ec', (et, ct), cr))
        if er.ndims and tier != 'quick':
            for et2, er2 in zip(er.edge_transforms, er.edge_refs):
                out.append(('ee', (et, et2), er2))
    _TAILS[ref, tier] = out
    return out


_SWAPS = {}


def swap_table(ref):
    '''pairs (child of ref, edge of that child) <-> (edge of ref, child of that edge) that denote the same affine map,
    found by comparing the maps on the vertices of the final reference; both directions'''
    if ref not in _SWAPS:
        tab = {}
        if ref.ndims:
            down = []
            for et, er in zip(ref.edge_transforms, ref.edge_refs):
                for ct2, cr2 in zip(er.child_transforms, er.child_refs):
                    down.append(((et, ct2), cr2))
            for ct, cr in zip(ref.child_transforms, ref.child_refs):
                if not cr.ndims:
                    continue
                for et2, er2 in zip(cr.edge_transforms, cr.edge_refs):
                    for pair, fref in down:
                        if fref == er2 and same_map((ct, et2), pair, er2):
                            tab[ct, et2] = pair
                            tab[pair] = (ct, et2)
        _SWAPS[ref] = tab
    return _SWAPS[ref]


def step_ref(ref, item):
    'reference reached from `ref` through child or edge item, or None'
    if item.fromdims == item.todims:
        for t, r in zip(ref.child_transforms, ref.child_refs):
            if t == item:
                return r
    elif ref.ndims:
        for t, r in zip(ref.edge_transforms, ref.edge_refs):
            if t == item:
                return r
    return None


_EQUIV = {}


def equivalents(cellref, items):
    'all chains obtained from `items` (starting at reference cellref) by swapping adjacent child/edge pairs; includes items itself'
    key = cellref, items
    if key in _EQUIV:
        return _EQUIV[key]
    seen = {items}
    todo = [items]
    while todo:
        cur = todo.pop()
        ref = cellref
        for pos in range(len(cur) - 1):
            if ref is None:
                break
            pair = swap_table(ref).get((cur[pos], cur[pos + 1]))
            if pair is not None:
                new = cur[:pos] + pair + cur[pos + 2:]
                if new not in seen:
                    seen.add(new)
                    todo.append(new)
            ref = step_ref(ref, cur[pos])
    if len(_EQUIV) > 100000:
        _EQUIV.clear()
    _EQUIV[key] = seen
    return seen


_APPLIED = {}


def applied(chain, ref):
    key = chain, ref
    r = _APPLIED.get(key)
    if r is None:
        try:
            r = item_apply(chain, probe_points(ref))
        except Exception:
            r = False
        if len(_APPLIED) > 200000:
            _APPLIED.clear()
        _APPLIED[key] = r
    return r


def same_map(t1, t2, ref):
    if t1 == t2:
        return True
    a = applied(t1, ref)
    b = applied(t2, ref)
    if a is False or b is False:
        return False
    return a.shape == b.shape and bool(numpy.allclose(a, b, rtol=0, atol=1e-12))


def seqkind(seq):
    'structural description of the nutils object (class nesting), used in violation keys'
    n = type(seq).__name__.replace('Transforms', '')
    if hasattr(seq, '_parent'):
        return n + '(' + seqkind(seq._parent) + ')'
    if hasattr(seq, '_items'):
        kinds = []
        for it in seq._items:
            k = seqkind(it)
            if k not in kinds:
                kinds.append(k)
        return n + '(' + ','.join(kinds) + ')'
    return n


def ncells(chain):
    from nutils import transform
    n = 0
    while n < len(chain) and isinstance(chain[n], transform.Index):
        n += 1
    return n


class Mismatch(Exception):
    def __init__(self, key, what):
        self.key = key
        self.what = what


def equivalent_queries(seq, kind, e, i, tk, tail, tref, stats):
    '''swap-equivalent spellings of seq[i] + tail in which the element's own part (after the Index items) is
    spelled differently, e.g. (cell, edge, child-of-edge) for the element (cell, child) with tail (edge-of-child)'''
    c = e.chain
    ncell = ncells(c)
    own = c[ncell:]
    for form in equivalents(e.cellref, own + tail):
        if form[:len(own)] == own:
            continue
        q2 = c[:ncell] + form
        if stats is not None:
            stats['queries'] += 1
            stats['equiv'] += 1
        try:
            gi, gt = seq.index_with_tail(q2)
            gt = tuple(gt)
        except Exception as ex:
            raise Mismatch('equiv:raise:{}:{}'.format(tk, kind), 'index_with_tail({}) raised {!r}; the chain is a swap-equivalent spelling of seq[{}] + {}'.format(q2, ex, i, tail))
        if gi != i:
            raise Mismatch('equiv:index:{}:{}'.format(tk, kind), 'index_with_tail({}) returned index {}; the chain is a swap-equivalent spelling of seq[{}] + {}'.format(q2, gi, i, tail))
        if not same_map(own + gt, own + tail, tref):
            raise Mismatch('equiv:map:{}:{}'.format(tk, kind), 'index_with_tail({}) returned tail {} which is not the remainder of seq[{}] + {}'.format(q2, gt, i, tail))
        if not tail:
            try:
                if seq.index(q2) != i:
                    raise Mismatch('equiv:index:notail:' + kind, 'index({}) != {}'.format(q2, i))
            except ValueError as ex:
                raise Mismatch('equiv:raise:notail:' + kind, 'index({}) raised {!r}; the chain is a swap-equivalent spelling of seq[{}]'.format(q2, ex, i))


def observe(seq, model, tier, stats=None, unknown=()):
    '''compare the complete observation set of `seq` with the list model; raises Mismatch'''
    from nutils import transform
    n = len(model)
    kind = seqkind(seq)
    try:
        ln = len(seq)
    except Exception as e:
        raise Mismatch('len:raise:' + kind, 'len raised {!r}'.format(e))
    if ln != n:
        raise Mismatch('len:' + kind, 'len(seq) = {} but the list model has {} elements'.format(ln, n))
    try:
        it = list(seq)
    except Exception as e:
        raise Mismatch('iter:raise:' + kind, 'iter raised {!r}'.format(e))
    if len(it) != n or any(a != e.chain for a, e in zip(it, model)):
        bad = [i for i, (a, e) in enumerate(zip(it, model)) if a != e.chain]
        raise Mismatch('iter:' + kind, 'iter(seq) yields {} items, differs from the list model at positions {}'.format(len(it), bad[:5]))
    for i, e in enumerate(model):
        for j in (i, i - n):
            try:
                got = seq[j]
            except Exception as ex:
                raise Mismatch('getitem:raise:' + kind, 'seq[{}] raised {!r} (len {})'.format(j, ex, n))
            if got != e.chain:
                raise Mismatch('getitem:' + kind, 'seq[{}] = {} but the list model says {}'.format(j, got, e.chain))
        got = seq[numpy.int64(i)]
        if got != e.chain:
            raise Mismatch('getitem:' + kind, 'seq[numpy.int64({})] = {} but the list model says {}'.format(i, got, e.chain))
    for j in (n, -n - 1):
        try:
            got = seq[j]
        except IndexError:
            pass
        except Exception as ex:
            raise Mismatch('getitem-oob:raise:' + kind, 'seq[{}] with len {} raised {!r} instead of IndexError'.format(j, n, ex))
        else:
            raise Mismatch('getitem-oob:' + kind, 'seq[{}] with len {} returned {} instead of raising IndexError'.format(j, n, got))
    if seq.fromdims != (model[0].ref.ndims if model else seq.fromdims):
        raise Mismatch('fromdims:' + kind, 'fromdims {} but references have {}'.format(seq.fromdims, model[0].ref.ndims))
    for i, e in enumerate(model):
        c = e.chain
        try:
            got = seq.index(c)
        except Exception as ex:
            raise Mismatch('index:raise:' + kind, 'index(seq[{}]) raised {!r}'.format(i, ex))
        if got != i or not isinstance(got, (int, numpy.integer)):
            raise Mismatch('index:' + kind, 'index(seq[{}]) = {!r}'.format(i, got))
        if not seq.contains(c) or c not in seq or not seq.contains_with_tail(c):
            raise Mismatch('contains:' + kind, 'contains(seq[{}]) is False'.format(i))
        got = seq.index_with_tail(c)
        if got[0] != i or tuple(got[1]) != ():
            raise Mismatch('index_with_tail:notail:' + kind, 'index_with_tail(seq[{}]) = {}'.format(i, got))
        wrapped = set()  # index/contains/contains_with_tail are thin wrappers: one tail of each kind per element
        equivalent_queries(seq, kind, e, i, 'notail', (), e.ref, stats)
        for tk, tail, tref in tails(e.ref, tier):
            q = c + tail
            if stats is not None:
                stats['queries'] += 1
            try:
                got = seq.index_with_tail(q)
            except Exception as ex:
                raise Mismatch('tail:raise:{}:{}'.format(tk, kind), 'index_with_tail(seq[{}] + {}) raised {!r}'.format(i, tail, ex))
            try:
                gi, gt = got
                gt = tuple(gt)
            except Exception:
                raise Mismatch('tail:type:' + kind, 'index_with_tail returned {!r}'.format(got))
            if gi != i:
                raise Mismatch('tail:index:{}:{}'.format(tk, kind), 'index_with_tail(seq[{}] + {}) returned index {}'.format(i, tail, gi))
            if not same_map(gt, tail, tref):
                raise Mismatch('tail:map:{}:{}'.format(tk, kind), 'index_with_tail(seq[{}] + {}) returned tail {} which is a different affine map'.format(i, tail, gt))
            if gt and (gt[0].todims != seq.fromdims or gt[-1].fromdims != tref.ndims or any(a.fromdims != b.todims for a, b in zip(gt, gt[1:]))):
                raise Mismatch('tail:dims:{}:{}'.format(tk, kind), 'index_with_tail(seq[{}] + {}) returned ill-formed tail {}'.format(i, tail, gt))
            if stats is not None:
                if gt != tail:
                    stats['rewritten'] += 1
                stats['forms'].add((tk, bool(transform.iscanonical(gt)), gt == transform.uppermost(gt)))
            if tier != 'quick' or len(tail) == 1:
                equivalent_queries(seq, kind, e, i, tk, tail, tref, stats)
            if tk in wrapped:
                continue
            wrapped.add(tk)
            if not seq.contains_with_tail(q):
                raise Mismatch('tail:contains_with_tail:' + kind, 'contains_with_tail(seq[{}] + {}) is False'.format(i, tail))
            try:
                got = seq.index(q)
            except ValueError:
                pass
            except Exception as ex:
                raise Mismatch('tail:index-raise:' + kind, 'index(seq[{}] + {}) raised {!r} instead of ValueError'.format(i, tail, ex))
            else:
                raise Mismatch('tail:index-accepts:' + kind, 'index(seq[{}] + {}) returned {} although the chain has a tail'.format(i, tail, got))
            if seq.contains(q):
                raise Mismatch('tail:contains:' + kind, 'contains(seq[{}] + {}) is True'.format(i, tail))
    # chains that are certainly not in the sequence
    for why, q in unknown:
        if stats is not None:
            stats['unknown'] += 1
        for meth in ('index_with_tail', 'index'):
            try:
                got = getattr(seq, meth)(q)
            except ValueError:
                continue
            except Exception as ex:
                raise Mismatch('unknown:raise:{}:{}'.format(why, kind), '{}({}) raised {!r} instead of ValueError'.format(meth, q, ex))
            raise Mismatch('unknown:found:{}:{}'.format(why, kind), '{}({}) returned {} but no element of the sequence is a head of this chain'.format(meth, q, got))
        if seq.contains(q) or seq.contains_with_tail(q) or q in seq:
            raise Mismatch('unknown:contains:{}:{}'.format(why, kind), 'contains/contains_with_tail({}) is True'.format(q))


def unknown_chains(model, universe, base_model):
    '''chains for which the model can decide that no element is a head of them:
    (1) literal strict heads of elements; (2) elements of ancestor states (and one child below) whose lineage
    is chain-disjoint from everything in the state or shorter than everything under the same base element;
    (3) alien roots'''
    from nutils import transform
    out = []
    seen = set()
    byb = {}
    for e in model:
        byb.setdefault(e.b, []).append(e.path)
    present = set(e.chain for e in model)
    for e in model:
        for k in range(1, len(e.chain)):
            p = e.chain[:k]
            if p not in seen and p not in present:
                seen.add(p)
                out.append(('head', p))
    for e in universe:
        paths = byb.get(e.b, [])
        qs = [(e.chain, e.path)]
        if e.ref.child_transforms:
            qs.append((e.chain + (e.ref.child_transforms[-1],), e.path + (('c', len(e.ref.child_transforms) - 1),)))
        for q, qp in qs:
            if q in seen:
                continue
            if all(len(qp) < len(p) or disjoint(p, qp) for p in paths):
                seen.add(q)
                out.append(('absent', q))
    if base_model:
        c = base_model[0].chain
        nd = c[0].todims
        aliens = [(transform.Index(nd, 77),), (transform.Index(nd, 77),) + c[1:]]
        if base_model[0].b[0] not in PERIODIC_FIRST_AXIS:
            aliens.append(c[:1] + (transform.Index(nd, 77),) + c[2:])  # for a periodic axis every index is a legitimate alias
        for alien in aliens:
            if alien not in seen and alien not in present and all(alien[:k] not in present for k in range(1, len(alien))):
                seen.add(alien)
                out.append(('alien', alien))
    return out


# ---------------------------------------------------------------- explorer / replay

def run_ops(base, ops, tier, check_all=True):
    'rebuild a state from scratch; returns None or (key, what)'
    seq, model, sibling = build_base(base)
    base_model = list(model)
    universe = list(model) + (list(sibling[1]) if sibling else [])
    try:
        observe(seq, model, tier, unknown=unknown_chains(model, universe, base_model))
    except Mismatch as m:
        return m.key, m.what
    for k, op in enumerate(ops):
        try:
            r = apply_op(seq, model, op, sibling)
        except Exception as e:
            return 'op:raise:{}:{}'.format(op[0] + (':' + op[1] if op[0] in ('split', 'sib') else ''), seqkind(seq)), 'operation {} on {} raised {!r}'.format(op, seqkind(seq), e)
        if r is None:
            return None
        seq, model, sibling = r
        universe += [e for e in model if all(e.chain != u.chain for u in universe)]
        if check_all or k == len(ops) - 1:
            try:
                observe(seq, model, tier, unknown=unknown_chains(model, universe, base_model))
            except Mismatch as m:
                return m.key, 'after {}: {}'.format(ops[:k + 1], m.what)
    return None
