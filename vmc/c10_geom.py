'''C10 reference model: cells as exact rational convex polytopes (plain Python).

Nothing in this module imports nutils.  A cell is the affine image
x = v0 + E lambda of a reference product of unit simplices (kind = tuple of
simplex dimensions, e.g. (1,1) for a square, (2,1) for a prism) intersected
with a list of ambient half spaces ("cuts"), or -- for lower dimensional
pieces adopted from a validated boundary -- a free convex polytope given by
its exact vertices (kind None).  All arithmetic on the model side uses
fractions.Fraction; floats only appear when an (irrational) manifold measure
is needed or when a value is compared with a number observed from nutils.
'''

import math, itertools
from fractions import Fraction as Fr

ZERO = Fr(0)
ONE = Fr(1)
HALF = Fr(1, 2)


class NonDyadic(Exception):
    pass


def exact(x, bits=14):
    'float -> Fraction on the 2^-bits grid (raises NonDyadic if x is further than 1e-10 from the grid)'
    s = 1 << bits
    r = round(float(x) * s)
    if abs(float(x) * s - r) > 1e-10 * s:
        raise NonDyadic(repr(x))
    return Fr(r, s)


def dot(a, b):
    return sum((x * y for x, y in zip(a, b)), ZERO)


def vadd(a, b):
    return tuple(x + y for x, y in zip(a, b))


def vsub(a, b):
    return tuple(x - y for x, y in zip(a, b))


def vscale(a, s):
    return tuple(x * s for x in a)


def cross3(a, b):
    return (a[1] * b[2] - a[2] * b[1], a[2] * b[0] - a[0] * b[2], a[0] * b[1] - a[1] * b[0])


def normalise(a, b):
    'scale the inequality a.x <= b by a positive factor so that the first nonzero coefficient is +-1'
    for c in a:
        if c != 0:
            s = abs(c)
            return tuple(x / s for x in a), b / s
    raise ValueError('zero normal')


def rank_ge2(normals):
    'do the given vectors (in Q^3) span at least a plane'
    for i in range(len(normals)):
        for j in range(i + 1, len(normals)):
            if any(c != 0 for c in cross3(normals[i], normals[j])):
                return True
    return False


def order_polygon(pts2):
    'indices of 2-D points sorted counter clockwise around their mean (points are the vertices of a convex polygon)'
    n = len(pts2)
    cx = sum(float(p[0]) for p in pts2) / n
    cy = sum(float(p[1]) for p in pts2) / n
    return sorted(range(n), key=lambda i: math.atan2(float(pts2[i][1]) - cy, float(pts2[i][0]) - cx))


def polygon_area(pts2):
    'exact area of a convex polygon given by its (unordered) vertices in Q^2'
    if len(pts2) < 3:
        return ZERO
    o = order_polygon(pts2)
    s = ZERO
    for i in range(len(o)):
        p = pts2[o[i]]
        q = pts2[o[(i + 1) % len(o)]]
        s += p[0] * q[1] - p[1] * q[0]
    return abs(s) / 2


def drop(p, j):
    return tuple(c for i, c in enumerate(p) if i != j)


class Poly:
    '''convex polytope with nonempty interior in Q^k, k <= 3: vertices V and
    inequalities H = [(a, b)] meaning a.x <= b (normalised, no duplicates)'''

    __slots__ = ('k', 'V', 'H', '_measure', '_facets')

    def __init__(self, k, V, H):
        self.k = k
        self.V = list(V)
        self.H = list(H)
        self._measure = None
        self._facets = None

    @staticmethod
    def reference(kind):
        'product of unit simplices'
        k = sum(kind)
        V = [()]
        H = []
        off = 0
        for n in kind:
            sv = [tuple(ZERO for _ in range(n))] + [tuple(ONE if i == j else ZERO for i in range(n)) for j in range(n)]
            V = [v + s for v in V for s in sv]
            for j in range(n):
                H.append((tuple(-ONE if i == off + j else ZERO for i in range(k)), ZERO))
            H.append((tuple(ONE if off <= i < off + n else ZERO for i in range(k)), ONE))
            off += n
        return Poly(k, V, [normalise(a, b) for a, b in H])

    def tight(self, v):
        return [i for i, (a, b) in enumerate(self.H) if dot(a, v) == b]

    def adjacent(self, tu, tv):
        common = [i for i in tu if i in tv]
        if self.k == 1:
            return True
        if self.k == 2:
            return len(common) >= 1
        return rank_ge2([self.H[i][0] for i in common])

    def clip(self, a, b):
        'intersection with a.x <= b; None if that has measure zero'
        if self.k == 0:
            return self if b >= 0 else None
        s = [dot(a, v) - b for v in self.V]
        if all(x <= 0 for x in s):
            return self
        if all(x >= 0 for x in s):
            return None
        tights = [set(self.tight(v)) for v in self.V]
        V = [v for v, x in zip(self.V, s) if x <= 0]
        new = []
        for i in range(len(self.V)):
            if s[i] >= 0:
                continue
            for j in range(len(self.V)):
                if s[j] <= 0:
                    continue
                if self.adjacent(tights[i], tights[j]):
                    t = s[i] / (s[i] - s[j])
                    p = tuple(x + t * (y - x) for x, y in zip(self.V[i], self.V[j]))
                    if p not in new:
                        new.append(p)
        h = normalise(a, b)
        H = list(self.H)
        if h not in H:
            H.append(h)
        return Poly(self.k, V + new, H)

    def facets(self):
        'list of (a, b, [vertices]) for the inequalities that support a (k-1)-dimensional face'
        if self._facets is None:
            out = []
            for a, b in self.H:
                vs = [v for v in self.V if dot(a, v) == b]
                if self.k == 1:
                    ok = len(vs) >= 1
                elif self.k == 2:
                    ok = len(vs) >= 2
                else:
                    ok = len(vs) >= 3 and any(any(c != 0 for c in cross3(vsub(vs[1], vs[0]), vsub(w, vs[0]))) for w in vs[2:])
                if ok:
                    out.append((a, b, vs))
            self._facets = out
        return self._facets

    def measure(self):
        if self._measure is None:
            if self.k == 0:
                m = ONE
            elif self.k == 1:
                xs = [v[0] for v in self.V]
                m = max(xs) - min(xs)
            elif self.k == 2:
                m = polygon_area(self.V)
            else:
                m = ZERO
                for a, b, vs in self.facets():
                    j = max(range(3), key=lambda i: abs(a[i]))
                    m += b * polygon_area([drop(v, j) for v in vs]) / abs(a[j])
                m = m / 3
            self._measure = m
        return self._measure


# sub-simplices of the midpoint subdivision, as vertex lists in the local coordinates of the parent simplex
_SUBSIMPLICES = {
    0: [[()]],
    1: [[(ZERO,), (HALF,)], [(HALF,), (ONE,)]],
    2: [[(ZERO, ZERO), (HALF, ZERO), (ZERO, HALF)], [(HALF, ZERO), (ONE, ZERO), (HALF, HALF)],
        [(ZERO, HALF), (HALF, HALF), (ZERO, ONE)], [(HALF, HALF), (ZERO, HALF), (HALF, ZERO)]],
}


class Cell:
    '''kind is a tuple -> typed cell x = v0 + E lambda, lambda in the reference product of simplices, intersected
    with cuts [(a, c, sign)] meaning sign*(a.x - c) >= 0;  kind is None -> free convex polytope with vertices
    `verts` of dimension k (only for k < d, no cuts, cannot be subdivided by the model).'''

    __slots__ = ('kind', 'v0', 'E', 'cuts', 'k', 'd', 'verts', 'atomic', '_poly', '_key', '_pverts', '_scale', '_measure', '_einv')

    def __init__(self, kind, v0=None, E=None, cuts=(), verts=None, k=None, atomic=None):
        self.kind = None if kind is None else tuple(kind)
        self.atomic = atomic      # per simplex factor: True = the next refinement returns this factor unchanged (nutils' OwnChildReference)
        self.cuts = tuple(cuts)
        self._poly = False
        self._key = None
        self._pverts = None
        self._scale = None
        self._measure = None
        self._einv = None
        if kind is None:
            self.verts = sorted(set(tuple(v) for v in verts))
            self.k = k
            self.d = len(self.verts[0])
            self.v0 = self.E = None
        else:
            self.v0 = tuple(v0)
            self.E = [tuple(e) for e in E]     # k ambient vectors
            self.k = sum(self.kind)
            self.d = len(self.v0)
            self.verts = None
            assert len(self.E) == self.k

    # -- geometry --------------------------------------------------------------------------------

    def to_ambient(self, lam):
        x = self.v0
        for l, e in zip(lam, self.E):
            if l != 0:
                x = vadd(x, vscale(e, l))
        return x

    def local_halfspace(self, a, c, sign):
        'sign*(a.x - c) >= 0 as alpha.lambda <= beta'
        alpha = tuple(-sign * dot(a, e) for e in self.E)
        beta = sign * (dot(a, self.v0) - c)
        return alpha, beta

    @property
    def poly(self):
        'the cell in local coordinates (None if it has measure zero); typed cells only'
        if self._poly is False:
            P = Poly.reference(self.kind)
            for a, c, sign in self.cuts:
                alpha, beta = self.local_halfspace(a, c, sign)
                if all(x == 0 for x in alpha):
                    if beta < 0:
                        P = None
                        break
                    continue
                P = P.clip(alpha, beta)
                if P is None:
                    break
            self._poly = P
        return self._poly

    @property
    def base_verts(self):
        return [self.to_ambient(v) for v in Poly.reference(self.kind).V]

    @property
    def pverts(self):
        'exact ambient vertices of the (trimmed) cell'
        if self._pverts is None:
            if self.kind is None:
                self._pverts = list(self.verts)
            else:
                P = self.poly
                self._pverts = [] if P is None else sorted(set(self.to_ambient(v) for v in P.V))
        return self._pverts

    @property
    def key(self):
        'identity of the cell inside a state: dimension + untrimmed vertex set (typed) or vertex set (free polytope)'
        if self._key is None:
            if self.kind is None:
                self._key = (self.k, frozenset(self.verts))
            else:
                self._key = (self.k, frozenset(self.base_verts))
        return self._key

    @property
    def scale(self):
        'measure of the image of the unit local volume element (float; exact for full dimensional cells)'
        if self._scale is None:
            k = self.k
            if k == 0:
                self._scale = 1.
            else:
                G = [[dot(self.E[i], self.E[j]) for j in range(k)] for i in range(k)]
                if k == 1:
                    det = G[0][0]
                elif k == 2:
                    det = G[0][0] * G[1][1] - G[0][1] * G[1][0]
                else:
                    det = (G[0][0] * (G[1][1] * G[2][2] - G[1][2] * G[2][1]) - G[0][1] * (G[1][0] * G[2][2] - G[1][2] * G[2][0])
                           + G[0][2] * (G[1][0] * G[2][1] - G[1][1] * G[2][0]))
                self._scale = math.sqrt(float(det))
        return self._scale

    @property
    def measure(self):
        'float k-dimensional measure'
        if self._measure is None:
            if self.kind is None:
                self._measure = free_measure(self.verts, self.k)
            else:
                P = self.poly
                self._measure = 0. if P is None else float(P.measure()) * self.scale
        return self._measure

    def exact_measure(self):
        'Fraction; full dimensional typed cells only'
        assert self.kind is not None and self.k == self.d
        P = self.poly
        if P is None:
            return ZERO
        return P.measure() * abs(det_exact(self.E))

    def with_cut(self, a, c, sign):
        return Cell(self.kind, self.v0, self.E, self.cuts + ((tuple(a), c, sign),))

    def without_cuts(self):
        return Cell(self.kind, self.v0, self.E, ())

    def children(self):
        'midpoint subdivision of the untrimmed cell, each child intersected with the cuts; empty children dropped'
        assert self.kind is not None
        per_factor = [_SUBSIMPLICES[n] for n in self.kind]
        out = []
        for combo in itertools.product(*per_factor):
            lam0 = tuple(c for sub in combo for c in sub[0])
            v0 = self.to_ambient(lam0)
            E = []
            off = 0
            for n, sub in zip(self.kind, combo):
                for i in range(1, n + 1):
                    dl = [ZERO] * self.k
                    for j in range(n):
                        dl[off + j] = sub[i][j] - sub[0][j]
                    e = tuple(ZERO for _ in range(self.d))
                    for l, ee in zip(dl, self.E):
                        if l != 0:
                            e = vadd(e, vscale(ee, l))
                    E.append(e)
                off += n
            c = Cell(self.kind, v0, E, self.cuts)
            if c.poly is not None:
                out.append(c)
        return out

    def product(self, other):
        'cartesian product; ambient coordinates are concatenated'
        assert self.kind is not None and other.kind is not None
        z1 = tuple(ZERO for _ in range(self.d))
        z2 = tuple(ZERO for _ in range(other.d))
        E = [e + z2 for e in self.E] + [z1 + e for e in other.E]
        cuts = [(a + z2, c, s) for a, c, s in self.cuts] + [(z1 + a, c, s) for a, c, s in other.cuts]
        return Cell(self.kind + other.kind, self.v0 + other.v0, E, cuts)

    def shifted(self, p):
        assert self.kind is not None
        return Cell(self.kind, vadd(self.v0, p), self.E, [(a, c + dot(a, p), s) for a, c, s in self.cuts])

    # -- float containment (full dimensional typed cells) ------------------------------------------

    def contains(self, x, tol=1e-9):
        'is the ambient float point x inside the closed cell (within tol)'
        assert self.kind is not None and self.k == self.d
        if self._einv is None:
            self._einv = (inverse_float(self.E), [float(v) for v in self.v0])
        inv, v0 = self._einv
        dx = [float(xi) - vi for xi, vi in zip(x, v0)]
        lam = [sum(inv[i][j] * dx[j] for j in range(self.d)) for i in range(self.k)]
        P = self.poly
        if P is None:
            return False
        for a, b in P.H:
            if sum(float(ai) * li for ai, li in zip(a, lam)) > float(b) + tol:
                return False
        return True

    def facets(self):
        '''facets of a full dimensional typed cell in ambient coordinates: list of (n, beta, verts) with the outward
        inequality n.x <= beta normalised (first nonzero coefficient +-1) and verts the exact facet vertices'''
        assert self.kind is not None and self.k == self.d
        P = self.poly
        out = []
        if P is None:
            return out
        Einv = inverse_exact(self.E)    # rows: lambda_i = Einv[i] . (x - v0)
        for a, b, vs in P.facets():
            n = tuple(sum((a[i] * Einv[i][j] for i in range(self.k)), ZERO) for j in range(self.d))
            beta = b + dot(n, self.v0)
            n, beta = normalise(n, beta)
            out.append((n, beta, [self.to_ambient(v) for v in vs]))
        return out


def det_exact(E):
    k = len(E)
    if k == 0:
        return ONE
    if k == 1:
        return E[0][0]
    if k == 2:
        return E[0][0] * E[1][1] - E[0][1] * E[1][0]
    return dot(E[0], cross3(E[1], E[2]))


def inverse_exact(E):
    'E = list of k ambient column vectors (k == d); returns M with M[i][j] such that lambda = M (x - v0)'
    k = len(E)
    if k == 0:
        return []
    # matrix A[j][i] = E[i][j]; solve by Gauss-Jordan
    A = [[E[i][j] for i in range(k)] + [ONE if j == c else ZERO for c in range(k)] for j in range(k)]
    for col in range(k):
        piv = next(r for r in range(col, k) if A[r][col] != 0)
        A[col], A[piv] = A[piv], A[col]
        p = A[col][col]
        A[col] = [x / p for x in A[col]]
        for r in range(k):
            if r != col and A[r][col] != 0:
                f = A[r][col]
                A[r] = [x - f * y for x, y in zip(A[r], A[col])]
    return [row[k:] for row in A]


def inverse_float(E):
    return [[float(x) for x in row] for row in inverse_exact(E)]


def free_measure(verts, k):
    'float measure of a convex polytope of dimension k <= 2 given by exact ambient vertices'
    if k == 0:
        return 1.
    if k == 1:
        lo, hi = min(verts), max(verts)
        return math.sqrt(float(dot(vsub(hi, lo), vsub(hi, lo))))
    if k == 2:
        d = len(verts[0])
        if d == 2:
            return float(polygon_area(verts))
        n, j = plane_normal(verts)
        return float(polygon_area([drop(v, j) for v in verts])) * math.sqrt(float(dot(n, n))) / abs(float(n[j]))
    raise NotImplementedError(k)


def plane_normal(verts):
    'normal of the plane through coplanar points in Q^3 and the index of its largest component'
    v0 = verts[0]
    for i in range(1, len(verts)):
        for j in range(i + 1, len(verts)):
            n = cross3(vsub(verts[i], v0), vsub(verts[j], v0))
            if any(c != 0 for c in n):
                return n, max(range(3), key=lambda t: abs(n[t]))
    raise ValueError('degenerate polygon')


# ---------------------------------------------------------------------------- coplanar convex intersections

def _clip_polygon(subject, a, b):
    'Sutherland-Hodgman: ordered polygon (list of Q^2 points) clipped to a.x <= b'
    out = []
    n = len(subject)
    for i in range(n):
        p, q = subject[i], subject[(i + 1) % n]
        sp, sq = dot(a, p) - b, dot(a, q) - b
        if sp <= 0:
            out.append(p)
        if (sp < 0 < sq) or (sq < 0 < sp):
            t = sp / (sp - sq)
            out.append(tuple(x + t * (y - x) for x, y in zip(p, q)))
    return out


def _ordered(pts2):
    return [pts2[i] for i in order_polygon(pts2)]


def _ordered_area(poly):
    s = ZERO
    for i in range(len(poly)):
        p, q = poly[i], poly[(i + 1) % len(poly)]
        s += p[0] * q[1] - p[1] * q[0]
    return s / 2


def facet_overlap(n, v1, v2):
    '''(d-1)-measure (float) of the intersection of two convex facets that lie in the same hyperplane with normal n,
    given by their exact ambient vertices'''
    d = len(n)
    if d == 1:
        return 1. if v1[0] == v2[0] else 0.
    j = max(range(d), key=lambda i: abs(n[i]))
    factor = math.sqrt(float(dot(n, n))) / abs(float(n[j]))
    if d == 2:
        a = [drop(v, j)[0] for v in v1]
        b = [drop(v, j)[0] for v in v2]
        lo, hi = max(min(a), min(b)), min(max(a), max(b))
        return float(hi - lo) * factor if hi > lo else 0.
    p1 = _ordered([drop(v, j) for v in v1])
    p2 = _ordered([drop(v, j) for v in v2])
    if _ordered_area(p2) < 0:
        p2 = p2[::-1]
    poly = p1
    for i in range(len(p2)):
        p, q = p2[i], p2[(i + 1) % len(p2)]
        # interior of a ccw polygon is to the left of each edge: cross(q-p, x-p) >= 0  <=>  a.x <= b
        a = (q[1] - p[1], -(q[0] - p[0]))
        b = dot(a, p)
        poly = _clip_polygon(poly, a, b)
        if len(poly) < 3:
            return 0.
    return abs(float(_ordered_area(poly))) * factor


def facet_measure(n, verts):
    '(d-1)-measure (float) of a convex facet with normal n given by its exact vertices'
    d = len(n)
    if d == 1:
        return 1.
    j = max(range(d), key=lambda i: abs(n[i]))
    factor = math.sqrt(float(dot(n, n))) / abs(float(n[j]))
    if d == 2:
        a = [drop(v, j)[0] for v in verts]
        return float(max(a) - min(a)) * factor
    return float(polygon_area([drop(v, j) for v in verts])) * factor


def hull_vertices(points, k, tol=1e-9):
    '''extreme points of a finite float point set that spans a convex set of dimension k <= 2 (ambient dimension
    arbitrary); returns the selected input points'''
    pts = []
    for p in points:
        if not any(all(abs(a - b) <= tol for a, b in zip(p, q)) for q in pts):
            pts.append(tuple(float(c) for c in p))
    if k == 0 or len(pts) <= 1:
        return pts[:1]
    if k == 1:
        d = len(pts[0])
        j = max(range(d), key=lambda i: max(p[i] for p in pts) - min(p[i] for p in pts))
        return [min(pts, key=lambda p: p[j]), max(pts, key=lambda p: p[j])]
    if k == 2:
        d = len(pts[0])
        if d == 2:
            q = pts
        else:
            # project along the dominant normal component
            n = None
            for i in range(1, len(pts)):
                for l in range(i + 1, len(pts)):
                    u = [a - b for a, b in zip(pts[i], pts[0])]
                    v = [a - b for a, b in zip(pts[l], pts[0])]
                    c = (u[1] * v[2] - u[2] * v[1], u[2] * v[0] - u[0] * v[2], u[0] * v[1] - u[1] * v[0])
                    if max(abs(x) for x in c) > 1e-7:
                        n = c
                        break
                if n:
                    break
            if n is None:
                raise ValueError('degenerate point set')
            j = max(range(3), key=lambda i: abs(n[i]))
            q = [drop(p, j) for p in pts]
        # Andrew monotone chain, strict (collinear points are not extreme)
        idx = sorted(range(len(q)), key=lambda i: q[i])

        def cr(o, a, b):
            return (q[a][0] - q[o][0]) * (q[b][1] - q[o][1]) - (q[a][1] - q[o][1]) * (q[b][0] - q[o][0])
        lower = []
        for i in idx:
            while len(lower) >= 2 and cr(lower[-2], lower[-1], i) <= tol:
                lower.pop()
            lower.append(i)
        upper = []
        for i in reversed(idx):
            while len(upper) >= 2 and cr(upper[-2], upper[-1], i) <= tol:
                upper.pop()
            upper.append(i)
        return [pts[i] for i in lower[:-1] + upper[:-1]]
    raise NotImplementedError(k)


def simplex_measure(verts):
    'float measure of a k-simplex given by k+1 float points in R^d'
    k = len(verts) - 1
    if k == 0:
        return 1.
    e = [[a - b for a, b in zip(v, verts[0])] for v in verts[1:]]
    G = [[sum(x * y for x, y in zip(e[i], e[j])) for j in range(k)] for i in range(k)]
    if k == 1:
        det = G[0][0]
    elif k == 2:
        det = G[0][0] * G[1][1] - G[0][1] * G[1][0]
    else:
        det = (G[0][0] * (G[1][1] * G[2][2] - G[1][2] * G[2][1]) - G[0][1] * (G[1][0] * G[2][2] - G[1][2] * G[2][0])
               + G[0][2] * (G[1][0] * G[2][1] - G[1][1] * G[2][0]))
    return math.sqrt(max(det, 0.)) / math.factorial(k)
