'''C14 part (d): constraint projection with a drop tolerance.

 (d1) System.solve_constraints and the legacy optimize(droptol=...) on the
      quadratic functionals  1/2 sum_i w_i (u_i - g_i)^2 + 1/2 w_c (u_0 - u_1)^2
      for ALL weight vectors over W, coupling weights, drop tolerances,
      constraint patterns and initial guesses.
 (d2) Topology.project (lsqr and convolute) of {0, 1, x} onto linear hat
      functions on 1D meshes with a scaled geometry, over sub-domains,
      drop tolerances and pre-existing constraints.

Oracle: the Hessian / mass matrix is written down in closed form in numpy; the
NaN entries must be exactly the unconstrained columns whose largest absolute
entry (within the free block) is <= droptol; constrained entries are bit-equal
to their prescription; the determined entries make the gradient vanish.
No drop tolerance coincides with a matrix entry (ties only at exactly zero).
'''

import itertools, json
import numpy
from . import core

W = [1., 1e-4, 1e-14, 0.]
WC = [0., 1., 1e-14]
G = [1., -2., .5]
DROPTOL = [0., 1e-12, 1e-3, 10.]
U0 = [.3, -1.7, 2.2]
CV = [.5, -1.25, 2.]


def hessian(w, wc):
    H = numpy.diag(numpy.array(w, dtype=float))
    H[:2, :2] += wc * numpy.array([[1., -1.], [-1., 1.]])
    return H


def functional(w, wc):
    from nutils import function
    u = function.Argument('u', (3,))
    return .5 * (function.asarray(numpy.array(w)) * (u - numpy.array(G))**2).sum() + .5 * wc * (u[0] - u[1])**2


def constraint_patterns(n=3):
    out = [None]
    for m in itertools.product([False, True], repeat=n):
        if any(m):
            out.append({'t': 'b', 'v': list(m)})
            out.append({'t': 'f', 'v': [CV[i] if c else None for i, c in enumerate(m)]})
    return out


def _cons_array(cons):
    if cons is None:
        return None
    if cons['t'] == 'b':
        return numpy.array(cons['v'], dtype=bool)
    return numpy.array([numpy.nan if v is None else v for v in cons['v']], dtype=float)


def _where(e):
    name = '?'
    tb = e.__traceback__
    while tb is not None:
        code = tb.tb_frame.f_code
        if '/nutils/' in code.co_filename:
            name = code.co_filename.rsplit('/', 1)[-1][:-3] + '.' + getattr(code, 'co_qualname', code.co_name)
        tb = tb.tb_next
    return name


def execute(S, c):
    from nutils import solver, matrix
    u0 = None if c['u0'] is None else numpy.array(c['u0'], dtype=float)
    cons = _cons_array(c['cons'])
    try:
        with numpy.errstate(all='ignore'):
            if c['api'] == 'solve_constraints':
                out = S.solve_constraints(droptol=c['droptol'], arguments={} if u0 is None else {'u': u0}, constrain={} if cons is None else {'u': cons})
                out = out['u'] if isinstance(out, dict) and 'u' in out else out
            elif c['api'] == 'optimize':
                out = solver.optimize('u', functional(c['w'], c['wc']), droptol=c['droptol'], constrain=cons, lhs0=u0)
            elif c['api'] == 'optimize-absent':
                out = solver.optimize('v', functional(c['w'], c['wc']), droptol=c['droptol'])
            else:
                raise core.HarnessError(c['api'])
    except (solver.SolverError, matrix.MatrixError) as e:
        return ('raised', type(e).__name__, 'ok')
    except Exception as e:
        return ('raised', type(e).__name__ + '@' + _where(e), 'other', str(e)[:150])
    return ('returned', out)


def judge(c, out):
    if out[0] == 'raised':
        if out[2] == 'ok':
            return None
        if c['api'] == 'optimize-absent' and c['droptol'] == 0 and out[1].startswith('ValueError'):
            return None  # documented: target does not occur and no drop tolerance
        return 'cons:raised-unexpected:' + out[1], '{} raised {}({!r})'.format(c['api'], out[1], out[3])
    u = out[1]
    if c['api'] == 'optimize-absent':
        # nothing depends on the target: every entry is undetermined
        if isinstance(u, numpy.ndarray) and numpy.isnan(u).all():
            return None
        return 'cons:absent-target', 'optimize for a target that does not occur returned {!r}'.format(u)
    if not isinstance(u, numpy.ndarray) or u.shape != (3,):
        return 'cons:bad-shape', 'returned {!r}'.format(u)
    H = hessian(c['w'], c['wc'])
    rhs = numpy.array(c['w']) * numpy.array(G)
    start = numpy.zeros(3) if c['u0'] is None else numpy.array(c['u0'], dtype=float)
    cons = c['cons']
    if cons is None:
        free = numpy.ones(3, dtype=bool)
    elif cons['t'] == 'b':
        free = ~numpy.array(cons['v'], dtype=bool)
    else:
        free = numpy.array([v is None for v in cons['v']], dtype=bool)
        for i, v in enumerate(cons['v']):
            if v is not None:
                start[i] = v
    if u[~free].tobytes() != start[~free].tobytes():
        return 'cons:constraint-violated', 'constrained entries {} differ from the prescription {}'.format(u[~free].tolist(), start[~free].tolist())
    Hff = abs(H[numpy.ix_(free, free)])
    determined = numpy.zeros(3, dtype=bool)
    determined[free] = Hff.max(axis=0, initial=0.) > c['droptol'] if free.any() else []
    nan = numpy.isnan(u)
    expect_nan = free & ~determined
    if nan.tolist() != expect_nan.tolist():
        return 'cons:wrong-nan-set', 'NaN entries {} but the columns with largest free entry <= droptol={:g} are {} (hessian {})'.format(nan.tolist(), c['droptol'], expect_nan.tolist(), H.tolist())
    if not numpy.isfinite(u[~nan]).all():
        return 'cons:nonfinite-returned', 'returned {}'.format(u.tolist())
    if determined.any():
        full = numpy.where(nan, start, u)
        r = (H @ full - rhs)[determined]
        scale = float((abs(H) @ abs(full) + abs(rhs))[determined].max())
        HDD = H[numpy.ix_(determined, determined)]
        if not abs(r).max() <= 1e-9 * scale and numpy.linalg.cond(HDD) < 1e6:
            return 'cons:unconverged-returned', 'determined entries of {} leave gradient {} (undetermined entries held at {})'.format(u.tolist(), r.tolist(), start.tolist())
    return None


def brief(c):
    return '{} w={} wc={:g} droptol={:g} u0={} cons={}'.format(c['api'], c['w'], c['wc'], c['droptol'], c['u0'], None if c['cons'] is None else c['cons']['v'])


def weight_vectors():
    return [list(w) for w in itertools.product(W, repeat=3)]


OPT_W = [[1., 1e-4, 1e-14, 0.], [1., 1., 1.], [0., 0., 0.], [1e-14, 1., 1e-4]]
OPT_CONS = [None, {'t': 'b', 'v': [True, False, False]}, {'t': 'f', 'v': [None, CV[1], None]}, {'t': 'f', 'v': [CV[0], CV[1], CV[2]]}]


def optimize_slice(w, wc, cons, tier):
    if tier == 'thorough':
        return w[0] == 1. or w in OPT_W
    return w in OPT_W and wc != 1e-14 and cons in OPT_CONS


def explore_functionals(res, chunk, tier):
    from nutils import solver
    i, n = chunk
    for w in weight_vectors()[i::n]:
        for wc in WC:
            S = solver.System(functional(w, wc), 'u')
            res.count('states')
            hist = []
            for api in ('solve_constraints', 'optimize'):
                for droptol in DROPTOL:
                    for u0 in (None, U0):
                        for cons in constraint_patterns():
                            if api == 'optimize' and not optimize_slice(w, wc, cons, tier):
                                continue  # the wrapper builds a new System per call and adds only argument plumbing: a fixed slice of the space
                            c = {'api': api, 'w': w, 'wc': wc, 'droptol': droptol, 'u0': u0, 'cons': cons}
                            out = execute(S, c)
                            hist.append(c)
                            res.count('evaluations')
                            res.count('transitions')
                            v = judge(c, out)
                            res.distinct('distinct_outcomes', 'cons:{}:{}'.format(api, out[0] if out[0] == 'returned' else out[1]))
                            if v:
                                fresh = judge(c, execute(solver.System(functional(w, wc), 'u'), c))
                                res.violation(v[0] + ('' if fresh else ':history'), brief(c) + ': ' + v[1], {'part': 'cons', 'hist': [c] if fresh else list(hist)})
                                continue
                            res.count('traces_validated_against_impl')
                            if cons is None or not all(x is not None and x is not False for x in cons['v']):
                                res.distinct('distinct_nontrivial', json.dumps(c))
            if len(res.samples) < 2 and any(w):
                res.sample({'part': 'cons', 'weights': w, 'coupling': wc, 'droptols': DROPTOL, 'constraint_patterns': len(constraint_patterns())})
    if i == 0:
        for droptol in DROPTOL:
            c = {'api': 'optimize-absent', 'w': [1., 1., 1.], 'wc': 0., 'droptol': droptol, 'u0': None, 'cons': None}
            res.count('evaluations')
            v = judge(c, execute(None, c))
            if v:
                res.violation(v[0], brief(c) + ': ' + v[1], {'part': 'cons', 'hist': [c]})
        # a nonlinear functional is outside the contract of solve_constraints: ValueError is the documented answer
        from nutils import function
        u = function.Argument('u', (3,))
        try:
            solver.System((u**4).sum(), 'u').solve_constraints(droptol=1e-12)
            res.violation('cons:nonlinear-accepted', 'solve_constraints accepted a nonlinear functional', {'part': 'cons', 'nonlinear': True})
        except ValueError:
            pass
        res.count('evaluations')


def replay_functional(w):
    from nutils import solver, function
    if w.get('nonlinear'):
        u = function.Argument('u', (3,))
        try:
            solver.System((u**4).sum(), 'u').solve_constraints(droptol=1e-12)
        except ValueError:
            return None
        return 'solve_constraints accepted a nonlinear functional'
    hist = w['hist']
    c0 = hist[0]
    S = solver.System(functional(c0['w'], c0['wc']), 'u') if c0['api'] != 'optimize-absent' else None
    for i, c in enumerate(hist):
        v = judge(c, execute(S, c))
        if v and i == len(hist) - 1:
            return brief(c) + ': ' + v[1]
    return None


# ====================================================================== (d2) Topology.project

FUNS = ['zero', 'one', 'x']
SUBS = ['whole', 'first', 'left', 'right']
SCALES = [1., 1e-5, 1e-14]


def mass_and_load(n, sub, fun, s):
    'closed forms for linear hat functions on the unit-spaced mesh 0..n with geometry s*x and integrand in the unscaled coordinate'
    A = numpy.zeros((n + 1, n + 1))
    b = numpy.zeros(n + 1)
    m = numpy.zeros(n + 1)  # integral of the basis function (convolute scale)
    f = {'zero': lambda x: 0., 'one': lambda x: 1., 'x': lambda x: x}[fun]
    if sub in ('left', 'right'):
        k = 0 if sub == 'left' else n
        A[k, k] = 1.
        b[k] = f(float(k))
        m[k] = 1.
        return A, b, m
    for k in range(n if sub == 'whole' else 1):
        A[k:k + 2, k:k + 2] += s * numpy.array([[1 / 3, 1 / 6], [1 / 6, 1 / 3]])
        m[k:k + 2] += s * .5
        if fun == 'one':
            b[k:k + 2] += s * .5
        elif fun == 'x':
            b[k:k + 2] += s * numpy.array([k / 2 + 1 / 6, k / 2 + 1 / 3])
    return A, b, m


def run_project(c):
    from nutils import mesh, matrix, solver, _util as util
    n = c['n']
    dom, x = mesh.rectilinear([n])
    basis = dom.basis('std', degree=1)
    sub = {'whole': dom, 'first': dom[:1], 'left': dom.boundary['left'], 'right': dom.boundary['right']}[c['sub']]
    fun = {'zero': 0., 'one': 1., 'x': x[0]}[c['fun']]
    cons = None
    if c['cons'] is not None:
        cons = util.NanVec(n + 1)
        for i, v in enumerate(c['cons']):
            if v is not None:
                cons[i] = v
    try:
        with numpy.errstate(all='ignore'):
            out = sub.project(fun, onto=basis, geometry=x * c['s'], degree=4, droptol=c['droptol'], ptype=c['ptype'], constrain=cons)
    except (solver.SolverError, matrix.MatrixError) as e:
        return ('raised', type(e).__name__, 'ok')
    except Exception as e:
        return ('raised', type(e).__name__ + '@' + _where(e), 'other', str(e)[:150])
    return ('returned', numpy.array(out, dtype=float))


def judge_project(c, out):
    if out[0] == 'raised':
        if out[2] == 'ok':
            return None
        return 'project:raised-unexpected:' + out[1], 'project raised {}({!r})'.format(out[1], out[3])
    u = out[1]
    n = c['n']
    if u.shape != (n + 1,):
        return 'project:bad-shape', 'returned {!r}'.format(u)
    A, b, m = mass_and_load(n, c['sub'], c['fun'], c['s'])
    pre = numpy.array([numpy.nan if v is None else v for v in (c['cons'] or [None] * (n + 1))], dtype=float)
    fixed = ~numpy.isnan(pre)
    if c['ptype'] == 'lsqr':
        N = abs(A).max(axis=1) > c['droptol']
    else:
        N = m > c['droptol']
    expect_nan = ~fixed & ~N
    nan = numpy.isnan(u)
    if nan.tolist() != expect_nan.tolist():
        return 'project:wrong-nan-set:' + c['ptype'], 'NaN entries {} but the unconstrained dofs with support <= droptol={:g} are {} (row maxima {})'.format(
            nan.tolist(), c['droptol'], expect_nan.tolist(), (abs(A).max(axis=1) if c['ptype'] == 'lsqr' else m).tolist())
    if not numpy.isfinite(u[~nan]).all():
        return 'project:nonfinite-returned', 'returned {}'.format(u.tolist())
    if c['ptype'] == 'lsqr':
        # pre-existing constraints outside the support keep their value bit for bit; inside the support they take part in the solve as prescribed values
        if u[fixed & ~N].tobytes() != pre[fixed & ~N].tobytes() or not numpy.allclose(u[fixed & N], pre[fixed & N], rtol=1e-12, atol=0):
            return 'project:constraint-violated', 'pre-existing constraints {} became {}'.format(pre.tolist(), u.tolist())
        det = N & ~fixed
        if det.any() and b.any():  # for an identically zero load nutils prescribes zeros by fiat (homogeneous constraints); only the NaN set is demanded there
            full = numpy.where(nan, 0., u)
            r = (A @ full - b)[det]
            scale = float((abs(A) @ abs(full) + abs(b))[det].max())
            if not abs(r).max() <= 1e-9 * scale and numpy.linalg.cond(A[numpy.ix_(det, det)]) < 1e6:
                return 'project:unconverged-returned', 'returned {} leaves normal-equation residual {}'.format(u.tolist(), r.tolist())
    else:
        if u[fixed].tobytes() != pre[fixed].tobytes():
            return 'project:constraint-violated', 'pre-existing constraints {} became {}'.format(pre.tolist(), u.tolist())
        det = N & ~fixed
        if det.any() and not numpy.allclose(u[det], b[det] / m[det], rtol=1e-9, atol=0):
            return 'project:wrong-value:convolute', 'returned {} but the weighted averages are {}'.format(u.tolist(), (b / m).tolist())
    return None


def brief_project(c):
    return 'project n={n} sub={sub} fun={fun} scale={s:g} droptol={droptol:g} ptype={ptype} cons={cons}'.format(**c)


def explore_project(res, n, sub, tier):
    for fun in FUNS:
        for s in SCALES:
            for droptol in DROPTOL:
                for ptype in ('lsqr', 'convolute'):
                    for cons in (None, [.25] + [None] * n, [None] * n + [-.5]):
                        c = {'part': 'project', 'n': n, 'sub': sub, 'fun': fun, 's': s, 'droptol': droptol, 'ptype': ptype, 'cons': cons}
                        out = run_project(c)
                        res.count('evaluations')
                        res.count('transitions')
                        res.count('states')
                        v = judge_project(c, out)
                        res.distinct('distinct_outcomes', 'project:{}:{}'.format(ptype, out[0] if out[0] == 'returned' else out[1]))
                        if v:
                            res.violation(v[0], brief_project(c) + ': ' + v[1], c)
                            continue
                        res.count('traces_validated_against_impl')
                        res.distinct('distinct_nontrivial', json.dumps(c))
    if len(res.samples) < 1:
        res.sample({'part': 'project', 'n': n, 'sub': sub, 'funs': FUNS, 'scales': SCALES, 'droptols': DROPTOL})


def replay_project(c):
    v = judge_project(c, run_project(c))
    return v and brief_project(c) + ': ' + v[1]
