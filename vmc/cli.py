'''Runner: ./check <ID> [--tier quick|thorough] [--replay file]

A check module (vmc/checks/<id>.py, lower case) provides

  LEVEL        evidence level ('exploration' | 'fault_enumeration' | 'model_checking')
  RULE         str: how cases are enumerated / what is non-trivial
  ASSUMPTIONS  list of str
  shards(tier, seed) -> list of JSON-able shard specs (order = exploration order)
  run_shard(spec, tier, seed) -> vmc.core.ShardResult
  replay(witness) -> None if the property holds on that witness, else a str
                     describing the observation (must be deterministic)
  BUDGET_S     optional dict tier -> wall clock guard in seconds
  PROCS        optional int, max worker processes
  finalize(cov, tier) optional: post-process merged coverage dict

The runner enumerates all shards on a process pool, merges the counters,
replays every candidate violation twice in fresh interpreters, handles the
known-findings file and writes /verif/evidence/<ID>.json.
'''

import sys, os, signal, json, time, argparse, importlib, hashlib, subprocess, multiprocessing, traceback

from . import core

HERE = os.path.dirname(os.path.dirname(os.path.abspath(__file__)))


def _load(pid):
    return importlib.import_module('vmc.checks.' + pid.lower())


def _worker(args):
    pid, spec, tier, seed = args
    mod = _load(pid)
    t0 = time.time()
    try:
        res = mod.run_shard(spec, tier, seed)
    except BaseException as e:  # harness error, never a violation
        res = core.ShardResult()
        res.errors.append('shard {!r}: {}'.format(spec, ''.join(traceback.format_exception(type(e), e, e.__traceback__))[-3000:]))
    res.wall = time.time() - t0
    return spec, res.pack()


def _serve(conn, pid, tier, seed):
    os.setpgrp()  # own process group: processes forked by the code under test (parallel.fork) are killed with the worker
    while True:
        try:
            spec = conn.recv()
        except EOFError:
            return
        if spec is None:
            return
        conn.send(_worker((pid, spec, tier, seed)))


def pool_map(pid, specs, tier, seed, procs, remaining):
    '''yield (spec, packed result) in completion order from `procs` spawned worker
    processes; a worker that dies (segfault, os._exit) yields a harness-error
    result for its shard and is replaced; yields (None, None) when the wall
    clock guard trips.'''
    from multiprocessing import connection
    ctx = multiprocessing.get_context('spawn')
    todo = list(reversed(specs))
    workers = {}  # conn -> [process, current spec]

    def start():
        a, b = ctx.Pipe()
        p = ctx.Process(target=_serve, args=(b, pid, tier, seed), daemon=True)
        p.start()
        b.close()
        workers[a] = [p, None]
        return a

    def feed(c):
        if todo:
            workers[c][1] = todo.pop()
            c.send(workers[c][1])
        else:
            workers[c][1] = None
            try:
                c.send(None)
            except OSError:
                pass

    for _ in range(procs):
        feed(start())
    try:
        while any(w[1] is not None for w in workers.values()):
            rem = remaining()
            if rem <= 0:
                yield None, None
                return
            busy = [c for c, w in workers.items() if w[1] is not None]
            for c in connection.wait(busy, timeout=min(rem, 5.)):
                p, spec = workers[c]
                try:
                    sp, packed = c.recv()
                except (EOFError, OSError):
                    p.join(5)
                    res = core.ShardResult()
                    res.errors.append('worker died (exit code {}) while running shard {!r}'.format(p.exitcode, spec))
                    del workers[c]
                    c.close()
                    feed(start())
                    yield spec, res.pack()
                    continue
                feed(c)
                yield sp, packed
    finally:
        for c, (p, spec) in workers.items():
            try:
                os.killpg(p.pid, signal.SIGKILL)   # the worker and whatever it forked (a child blocked on a lock of a killed parent never exits)
            except (ProcessLookupError, PermissionError):
                pass
            if p.is_alive():
                p.terminate()


def _replay_fresh(pid, path):
    '''replay a witness in a fresh interpreter; returns (failed?, observation)'''
    p = subprocess.run([os.path.join(HERE, 'check'), pid, '--replay', path, '--quiet'], capture_output=True, text=True, timeout=1800)
    out = p.stdout.strip().splitlines()
    obs = out[-1] if out else ''
    if p.returncode == 1:
        return True, obs
    if p.returncode == 0:
        return False, obs
    raise core.HarnessError('replay of {} exited {}: {}'.format(path, p.returncode, (p.stdout + p.stderr)[-2000:]))


def main():
    ap = argparse.ArgumentParser()
    ap.add_argument('pid')
    ap.add_argument('--tier', default=os.environ.get('VERIF_TIER') or 'quick', choices=['quick', 'thorough'])
    ap.add_argument('--replay')
    ap.add_argument('--quiet', action='store_true')
    ap.add_argument('--procs', type=int, default=0)
    ap.add_argument('--list', action='store_true', help='list candidate violation keys without replaying (debugging)')
    ap.add_argument('--only', help='restrict to shards whose repr contains this string (debugging; evidence is marked partial)')
    ns = ap.parse_args()
    if os.environ.get('VERIF_TIER') in ('quick', 'thorough'):
        ns.tier = os.environ['VERIF_TIER']
    pid = ns.pid.upper()
    seed = int(os.environ.get('VERIF_SEED') or 0)
    mod = _load(pid)

    if ns.replay:
        with open(ns.replay) as f:
            rec = json.load(f)
        obs = mod.replay(rec['witness'])
        if obs is None:
            print('replay: property {} holds on this witness'.format(pid))
            sys.exit(0)
        if not ns.quiet:
            print('witness:', json.dumps(rec['witness'])[:2000])
        print('VIOLATION-REPLAYED property={} {}'.format(pid, str(obs).replace('\n', ' | ')[:1500]))
        sys.exit(1)

    t0 = time.time()
    known = core.load_known(pid)
    status = 0

    # 1. replay listed known findings, each in its own fresh interpreter, all at once (some of them are non-terminating rewrites
    #    that run into their backstop, so doing this serially would dominate the run)
    known_active = {}
    os.makedirs(os.path.join(HERE, 'replays', pid), exist_ok=True)
    procs = []
    for i, ent in enumerate(e for e in known if e.get('status') == 'known'):
        path = os.path.join(HERE, 'replays', pid, 'known_{}.json'.format(i))
        with open(path, 'w') as f:
            json.dump({'property': pid, 'key': ent['key'], 'what': ent['what'], 'witness': ent['witness']}, f)
        procs.append((ent, path, subprocess.Popen([os.path.join(HERE, 'check'), pid, '--replay', path, '--quiet'], stdout=subprocess.PIPE, stderr=subprocess.STDOUT, text=True)))
    for ent, path, p in procs:
        try:
            out, _ = p.communicate(timeout=600)
            rc = p.returncode
        except subprocess.TimeoutExpired:
            p.kill()
            rc = 1
        if rc == 1:
            print('KNOWN-FINDING: property={} {} [{}]'.format(pid, ent['what'], ent['key']))
        elif rc == 0:
            print('note: listed finding no longer reproduces: {} [{}]'.format(ent['what'][:200], ent['key']))
        else:
            print('HARNESS-ERROR replay of known finding {} exited {}'.format(ent['key'], rc), file=sys.stderr)
            status = 2
        known_active[ent['key']] = ent   # a listed key suppresses exactly itself; on a repaired tree no such violation is produced
        try:
            os.unlink(path)
        except OSError:
            pass

    # 2. exhaustive exploration, shard by shard
    specs = list(mod.shards(ns.tier, seed))
    if ns.only:
        specs = [s for s in specs if ns.only in repr(s)]
    nshards = len(specs)
    order = core.seeded_order(len(specs), seed)
    specs = [specs[i] for i in order]
    budget = float(os.environ.get('VERIF_BUDGET_S') or getattr(mod, 'BUDGET_S', {}).get(ns.tier, 240 if ns.tier == 'quick' else 3600))
    procs = ns.procs or min(getattr(mod, 'PROCS', 16), os.cpu_count() or 1, max(1, nshards))
    merged = core.ShardResult()
    done = 0
    capped = False
    if specs:
        for spec, packed in pool_map(pid, specs, ns.tier, seed, procs, lambda: budget - (time.time() - t0)):
            if packed is None:
                capped = True
                break
            r_ = core.ShardResult.unpack(packed)
            if os.environ.get('VERIF_TIMING'):
                print('TIMING {:7.1f}s at {:6.1f}s {}'.format(r_.wall, time.time() - t0, json.dumps(spec)[:160]), file=sys.stderr)
            merged.merge(r_)
            done += 1
    if merged.errors:
        for e in merged.errors[:5]:
            print('HARNESS-ERROR', e, file=sys.stderr)
        status = 2

    # 3. candidate violations -> known-finding filter -> two fresh replays
    reported = 0
    seen_keys = set()
    os.makedirs(os.path.join(HERE, 'replays', pid), exist_ok=True)
    cands = sorted(merged.violations, key=lambda v: (len(json.dumps(v['witness'])), v['key']))
    if ns.list:
        import collections
        cnt = collections.Counter(v['key'] for v in cands)
        first = {}
        for v in cands:
            first.setdefault(v['key'], v)
        for k, n in sorted(cnt.items()):
            print('CANDIDATE x{} {} :: {}'.format(n, k, first[k]['what'][:300]))
        if os.environ.get('VERIF_DUMP'):
            with open(os.environ['VERIF_DUMP'], 'w') as f:
                json.dump([first[k] for k in sorted(first)], f, indent=1)
        cands = []
    for v in cands:
        if v['key'] in seen_keys:
            continue
        seen_keys.add(v['key'])
        if v['key'] in known_active:
            merged.counters['suppressed_known'] = merged.counters.get('suppressed_known', 0) + 1
            continue
        if reported >= 10:
            break
        h = hashlib.sha1(json.dumps(v['witness'], sort_keys=True).encode()).hexdigest()[:12]
        path = os.path.join(HERE, 'replays', pid, h + '.json')
        with open(path, 'w') as f:
            json.dump({'property': pid, 'key': v['key'], 'what': v['what'], 'witness': v['witness']}, f, indent=1)
        try:
            r1 = _replay_fresh(pid, path)
            r2 = _replay_fresh(pid, path)
        except core.HarnessError as e:
            print('HARNESS-ERROR', e, file=sys.stderr)
            status = 2
            continue
        if r1[0] and r2[0] and r1[1] == r2[1]:
            print('VIOLATION property={} replay={}'.format(pid, path))
            print('  what: {}'.format(v['what'][:600]))
            print('  key: {}'.format(v['key']))
            reported += 1
        else:
            print('HARNESS-ERROR nondeterministic or non-reproducible candidate {} ({!r} vs {!r}); in-run observation: {}'.format(path, r1, r2, v['what'][:300]), file=sys.stderr)
            status = 2
            os.unlink(path)

    # 4. evidence
    cov = merged.coverage()
    cov['rule'] = mod.RULE
    cov['shards_total'] = nshards
    cov['shards_completed'] = done
    cov['exhaustive'] = bool(not capped and done == nshards and not ns.only and not merged.counters.get('capped', 0))
    if capped:
        cov['cap'] = 'wall-clock guard of {}s hit after {}/{} shards; completed shards are fully enumerated'.format(budget, done, nshards)
    if hasattr(mod, 'finalize'):
        mod.finalize(cov, ns.tier)
    ev = {'property_id': pid, 'tier': ns.tier, 'seed': seed, 'level': mod.LEVEL, 'coverage': cov,
          'assumptions': list(mod.ASSUMPTIONS), 'wall_s': round(time.time() - t0, 2), 'violations': reported,
          'known_findings_listed': sorted(known_active)}
    problems = core.validate_evidence(ev)
    if problems:
        print('HARNESS-ERROR evidence invalid: {}'.format(problems), file=sys.stderr)
        status = 2
    if cov.get('distinct_nontrivial', 0) < 2 and not ns.only:
        print('HARNESS-ERROR vacuous run: distinct_nontrivial < 2', file=sys.stderr)
        status = 2
    # evidence/ describes /repo; runs against another tree (VERIF_REPO=<scratch worktree>, seeded changes) are filed under scratch/
    evdir = os.path.join(HERE, 'evidence') if (os.environ.get('VERIF_REPO') or '/repo').rstrip('/') == '/repo' else os.path.join(HERE, 'scratch', 'evidence_other_tree')
    os.makedirs(evdir, exist_ok=True)
    if not ns.only:
        with open(os.path.join(evdir, pid + '.json'), 'w') as f:
            json.dump(ev, f, indent=1, sort_keys=True)
            f.write('\n')
    summ = {k: cov[k] for k in ('evaluations', 'distinct_nontrivial', 'states', 'transitions', 'traces_validated_against_impl', 'distinct_outcomes', 'exhaustive') if k in cov}
    print('{} tier={} seed={} shards={}/{} wall={:.1f}s {}'.format(pid, ns.tier, seed, done, nshards, time.time() - t0, json.dumps(summ)))
    if reported:
        sys.exit(1)
    sys.exit(status)


if __name__ == '__main__':
    main()
