'''Structured families of deeper terms that target specific rewrite / extraction protocols (used by C01 C02 C05 C06):
products of factors living on different axes in every order and grouping (the cluster logic of Multiply), multi-dimensional
dof maps and index arrays, sums of inflations through different dof maps, chains through Ravel/Unravel of inflated axes.'''

import itertools
from . import terms as T

a, b, A_, B, C, T3 = T.A('a', (2,)), T.A('b', (3,)), T.A('A', (2, 2)), T.A('B', (2, 3)), T.A('C', (3, 3)), T.A('T', (2, 2, 2))


def _groupings(factors, op='multiply'):
    'all binary trees over every ordering of the factors'
    if len(factors) == 1:
        yield factors[0]
        return
    for perm in itertools.permutations(range(len(factors))):
        fs = [factors[i] for i in perm]
        yield from _trees(fs, op)


def _trees(fs, op):
    if len(fs) == 1:
        yield fs[0]
        return
    for k in range(1, len(fs)):
        for l in _trees(fs[:k], op):
            for r in _trees(fs[k:], op):
                yield (op, (), l, r)


def cluster_products():
    u = ('insertaxis', (1, 3), a)        # (2,3) living on axis 0
    v = ('insertaxis', (0, 2), b)        # (2,3) living on axis 1
    out = list(_groupings([u, v, B]))
    p = ('insertaxis', (1, 2), ('insertaxis', (2, 2), a))     # (2,2,2) on axis 0
    q = ('insertaxis', (0, 2), A_)                             # (2,2,2) on axes 1,2
    r = ('insertaxis', (2, 2), A_)                             # (2,2,2) on axes 0,1
    out += list(_groupings([p, q, T3]))
    out += list(_groupings([p, q, r]))
    w = ('insertaxis', (0, 2), ('exp', (), b))
    out += list(_groupings([u, w, B, v]))[:60]
    # sums of products and products of sums over different axes
    out += [('add', (), ('multiply', (), u, v), B), ('multiply', (), ('add', (), u, v), B), ('multiply', (), ('add', (), u, B), ('add', (), v, B))]
    return out


def nd_index_terms():
    leaves = [A_, B, T3, ('insertaxis', (0, 2), A_), ('diagonalize', (0, 1), a), ('multiply', (), A_, A_), ('exp', (), T3),
              ('insertaxis', (0, 4), A_), ('insertaxis', (0, 3), A_), ('insertaxis', (0, 8), T3)]   # an axis as long as the inflated one: takediag over (other, inflated)
    l1 = list(T.grow(leaves, [], {'inflatend', 'takend'}, binary=False))
    l2 = list(T.grow(l1, [A_], {'inflatend', 'takend', 'sum', 'transpose', 'multiply', 'add', 'takediag', 'ravel', 'unravel', 'insertaxis'}))
    return l1 + l2


def inflation_sums():
    out = []
    infl = [t for t in T.grow([a, b, A_], [], {'inflate'}, binary=False)]
    for t1, t2 in itertools.combinations(infl, 2):
        try:
            if T.typeof(t1) == T.typeof(t2):
                out.append(('add', (), t1, t2))
                out.append(('multiply', (), t1, t2))
                out.append(('add', (), t1, ('multiply', (), t2, t2)))
        except T.IllTyped:
            pass
    return out


_cache = {}


def elementwise_loops():
    '''depth-2 pointwise compositions with sign / parity subtleties, consumed ELEMENT BY ELEMENT in a loop (the take moves into the
    composition: exponent vectors become loop-dependent scalars) and through the loop-dependent chunk constructors'''
    a = T.A('a', (2,))
    PW = {'powvec', 'powc', 'sqrt', 'abs', 'negative', 'sign', 'reciprocal'}
    l1 = [t for t in T.grow([a], [], PW, binary=False)]
    l2 = [t for t in T.grow(l1, [], PW, binary=False)]
    out = []
    for X in l2:
        try:
            if T.typeof(X) != ((2,), 'f'):
                continue
        except T.IllTyped:
            continue
        elem = ('getl', (0,), X, T.LOOP_M)
        out.append(('loopsum', ('m', 2), elem))
        rag = list(T.grow([X], [], {'raggedcat', 'raggedsum'}, binary=False))
        out.extend([t for t in rag if t[0] == 'raggedcat'][:1] + [t for t in rag if t[0] == 'raggedsum'][1:2])
    return out


def terms(tier='quick'):
    if 'all' not in _cache:
        seen = set()
        out = []
        for fam, ts in (('cluster', cluster_products()), ('ndindex', nd_index_terms()), ('inflsum', inflation_sums()), ('elemloop', elementwise_loops())):
            for t in ts:
                if t not in seen:
                    try:
                        T.typeof(t)
                    except T.IllTyped:
                        continue
                    seen.add(t)
                    out.append((fam, t))
        _cache['all'] = out
    return _cache['all']
