'''C09 part (a): reference model of the sample algebra.

The model of a sample is plain Python:

  spaces : tuple of (name, kind)            kind in X|Y|Z selects the fixed affine geometry
  elems  : list of elements, each a list of points
  point  : (locs, weight, index)            locs[j] = (base element number, local coordinates) in spaces[j]

and every operation of nutils.sample (product, sum, take_elements, subset, zip,
custom index, rename_spaces) is re-implemented on that representation without
touching nutils.  `Sim` pairs a live nutils sample with its model; `conform`
is the oracle that compares the two.

Two things are deliberately left to the implementation and only *validated*,
never prescribed (the property does not promise them):
  * the local order of the points inside one element of a base sample and of
    a zipped sample (adopted from points[i].coords / getindex(i) after checking
    that the multiset is the expected one);
  * the order of the elements produced by take_elements for a non-monotone
    request (an `_Add` sample returns them grouped by operand).
'''

import itertools, math, traceback
import numpy

S3 = math.sqrt(1. / 3)

# ---------------------------------------------------------------- geometry of the three base meshes

# mesh.line(2)@X, mesh.line(3)@Y, mesh.rectilinear([2,1])@Z: unit elements (integer arguments keep the geometry
# function, and with it the compile time per state, small; J is 1 everywhere)
NODES = {'X': [[0., 1., 2.]], 'Y': [[0., 1., 2., 3.]], 'Z': [[0., 1., 2.], [0., 1.]]}
NDIMS = {k: len(v) for k, v in NODES.items()}
SHAPE = {k: tuple(len(n) - 1 for n in v) for k, v in NODES.items()}
NELEMS = {k: int(numpy.prod(SHAPE[k])) for k in NODES}


def unravel(kind, ielem):
    return numpy.unravel_index(ielem, SHAPE[kind])


def phys(kind, ielem, xi):
    'physical coordinates of local point xi in element ielem (affine, written out)'
    return [n[i] + x * (n[i + 1] - n[i]) for n, i, x in zip(NODES[kind], unravel(kind, ielem), xi)]


def jac(kind, ielem):
    return math.prod(n[i + 1] - n[i] for n, i in zip(NODES[kind], unravel(kind, ielem)))


def local(kind, p):
    'element number and local coordinates of physical point p (p strictly inside an element)'
    idx, xi = [], []
    for n, x in zip(NODES[kind], p):
        i = max(k for k in range(len(n) - 1) if n[k] <= x)
        idx.append(i)
        xi.append((x - n[i]) / (n[i + 1] - n[i]))
    return int(numpy.ravel_multi_index(idx, SHAPE[kind])), tuple(xi)


# polynomial test integrands, one factor per space
def q(kind, g):
    if kind == 'X':
        return 1 + g[0] + g[0]**2 / 2
    if kind == 'Y':
        return 2 - g[0] + g[0]**3 / 4
    return 1 + g[0] - g[0] * g[1] / 2 + g[1]**2


def code(kind, g):
    if kind == 'X':
        return g[0]
    if kind == 'Y':
        return 7 * g[0]
    return 31 * g[0] + 131 * g[1]


def F_model(spaces, locs):
    'values of the three test integrands at a model point'
    f1, f2, J = 1., 0., 1.
    for j, ((name, kind), (ielem, xi)) in enumerate(zip(spaces, locs)):
        g = phys(kind, ielem, xi)
        f1 *= q(kind, g) + j
        f2 += (j + 1) * code(kind, g)
        J *= jac(kind, ielem)
    return numpy.array([f1, f2, f1 * J])


# ---------------------------------------------------------------- 1D quadrature tables of the model (written out)

LINE = {
    'gauss1': [((.5,), 1.)],
    'gauss2': [(((1 - S3) / 2,), .5), (((1 + S3) / 2,), .5)],
    'bezier2': [((0.,), .5), ((1.,), .5)],
    'uniform2': [((.25,), .5), ((.75,), .5)],
}


def table(kind, scheme):
    'multiset of (local coords, weight) of one full element'
    t = [((), 1.)]
    for d in range(NDIMS[kind]):
        t = [(c1 + c2, w1 * w2) for c1, w1 in t for c2, w2 in LINE[scheme]]
    return t


# ---------------------------------------------------------------- the model

class Model:

    def __init__(self, spaces, elems):
        self.spaces = tuple(tuple(s) for s in spaces)
        self.elems = [list(e) for e in elems]

    @property
    def names(self):
        return tuple(n for n, k in self.spaces)

    @property
    def nelems(self):
        return len(self.elems)

    @property
    def npoints(self):
        return sum(len(e) for e in self.elems)

    def points(self):
        return [p for e in self.elems for p in e]

    def key(self):
        return repr((self.spaces, [[(tuple((i, tuple(round(x, 10) for x in xi)) for i, xi in locs), round(w, 10), idx) for locs, w, idx in e] for e in self.elems]))

    def integral(self):
        tot = numpy.zeros(3)
        for locs, w, idx in self.points():
            tot += w * F_model(self.spaces, locs)
        return tot

    # operations -----------------------------------------------------------

    def mul(self, other):
        n2 = other.npoints
        return Model(self.spaces + other.spaces,
                     [[(l1 + l2, w1 * w2, i1 * n2 + i2) for l1, w1, i1 in e1 for l2, w2, i2 in e2] for e1 in self.elems for e2 in other.elems])

    def add(self, other):
        assert self.names == other.names
        n1 = self.npoints
        return Model(self.spaces, self.elems + [[(l, w, i + n1) for l, w, i in e] for e in other.elems])

    def take(self, sel):
        elems, n = [], 0
        for s in sel:
            elems.append([(l, w, n + k) for k, (l, w, i) in enumerate(self.elems[s])])
            n += len(elems[-1])
        return Model(self.spaces, elems)

    def marked_elements(self, marked):
        marked = set(marked)
        return [ie for ie, e in enumerate(self.elems) if any(i in marked for l, w, i in e)]

    def cidx(self, perm):
        elems, n = [], 0
        for e in self.elems:
            elems.append([(l, w, perm[n + k]) for k, (l, w, i) in enumerate(e)])
            n += len(e)
        return Model(self.spaces, elems)

    def rename(self, mapping):
        return Model([(mapping.get(n, n), k) for n, k in self.spaces], self.elems)

    def zip_groups(self, *others):
        '''elements of zip(self, *others): dict (ielem in every operand) -> set of result indices;
        the elements appear sorted on that tuple, the weights are those of self'''
        models = (self,) + others
        where = []
        for m in models:
            d = {}
            for ie, e in enumerate(m.elems):
                for k, (l, w, i) in enumerate(e):
                    assert i not in d
                    d[i] = (ie, l, w)
            assert sorted(d) == list(range(self.npoints))
            where.append(d)
        groups = {}
        for i in range(self.npoints):
            groups.setdefault(tuple(d[i][0] for d in where), []).append(i)
        point = {i: (sum((d[i][1] for d in where), ()), where[0][i][2], i) for i in range(self.npoints)}
        return [groups[k] for k in sorted(groups)], point, sum((m.spaces for m in models), ())


# ---------------------------------------------------------------- nutils side

_topo_cache = {}


def topo(kind, name):
    'the base mesh of the given kind living in space `name`'
    from nutils import mesh
    if (kind, name) not in _topo_cache:
        if NDIMS[kind] == 1:
            _topo_cache[kind, name] = mesh.line(SHAPE[kind][0], space=name)
        else:
            _topo_cache[kind, name] = mesh.rectilinear(list(SHAPE[kind]), space=name)
    return _topo_cache[kind, name]


def F_nutils(spaces):
    from nutils import function
    f1, f2, J = 1., 0., 1.
    for j, (name, kind) in enumerate(spaces):
        g = topo(kind, name)[1]
        gv = [g] if g.ndim == 0 else [g[0], g[1]]
        f1 = f1 * (q(kind, gv) + j)
        f2 = f2 + (j + 1) * code(kind, gv)
        J = J * function.J(g)
    return numpy.stack([f1, f2, f1 * J])


def locate_targets(kind, n, salt=0):
    'n deterministic physical points of the kind-mesh, none within 0.02 of a node, with distinct weights'
    pts, i = [], 0
    while len(pts) < n:
        p = []
        for d, nodes in enumerate(NODES[kind]):
            L = nodes[-1] - nodes[0]
            p.append(nodes[0] + L * ((0.37 * (i + 1) + 0.211 * d + 0.13 * salt + 0.11) % 1.))
        i += 1
        if all(min(abs(x - v) for v in nodes) > .02 for x, nodes in zip(p, NODES[kind])):
            pts.append(p)
    weights = [.5 * (k % 3 + 1) + .125 * (k % 2) for k in range(n)]
    return pts, weights


_located_cache = {}


def located(kind, name, n, salt=0):
    'a located sample with weights and its model'
    if (kind, name, n, salt) not in _located_cache:
        _located_cache[kind, name, n, salt] = _located(kind, name, n, salt)
    return _located_cache[kind, name, n, salt]


def _located(kind, name, n, salt):
    pts, weights = locate_targets(kind, n, salt)
    dom, geom = topo(kind, name)
    coords = numpy.array(pts) if NDIMS[kind] > 1 else numpy.array([p[0] for p in pts])
    smp = dom.locate(geom, coords, eps=1e-12, weights=numpy.array(weights))
    byelem = {}
    for i, (p, w) in enumerate(zip(pts, weights)):
        ie, xi = local(kind, p)
        byelem.setdefault(ie, []).append((((ie, xi),), w, i))
    expect = [(ie, byelem[ie]) for ie in sorted(byelem)]
    return smp, adopt_base(smp, kind, name, expect, custom_index=True)


class HarnessProblem(Exception):
    pass


def adopt_base(smp, kind, name, expect, custom_index=False):
    '''build the model of a base sample: `expect` lists per element the base element number and the
    multiset of (locs, weight, index) the model predicts; the local order is adopted from
    smp.points[i] after checking that it is a permutation of the prediction.  Raises Mismatch.'''
    dom, geom = topo(kind, name)
    if smp.nelems != len(expect):
        raise Mismatch('base-nelems', 'nelems {} != {}'.format(smp.nelems, len(expect)))
    elems, n = [], 0
    for i, (ie, pts) in enumerate(expect):
        got = dom.transforms.index(smp.transforms[0][i])
        if got != ie:
            raise Mismatch('base-element', 'element {} of the sample is element {} of the mesh, expected {}'.format(i, got, ie))
        P = smp.points[i]
        coords = numpy.asarray(P.coords)
        weights = numpy.asarray(P.weights)
        if len(coords) != len(pts):
            raise Mismatch('base-npoints', 'element {} has {} points, expected {}'.format(i, len(coords), len(pts)))
        todo = list(pts)
        elem = []
        for k in range(len(coords)):
            for m, (locs, w, idx) in enumerate(todo):
                if numpy.allclose(coords[k], locs[0][1], rtol=0, atol=1e-9) and abs(weights[k] - w) <= 1e-12:
                    break
            else:
                raise Mismatch('base-points', 'element {} point {} = {} weight {} is not one of the expected {}'.format(i, k, coords[k].tolist(), weights[k], [(l[0][1], w) for l, w, j in todo]))
            del todo[m]
            elem.append((locs, w, idx if custom_index else n + k))
        elems.append(elem)
        n += len(elem)
    return Model([(name, kind)], elems)


class Mismatch(Exception):
    def __init__(self, kind, what):
        self.kind = kind
        self.what = what
        super().__init__(kind, what)


TRIMS = {
    # name: kind, level c (domain keeps coordinate >= c), maxrefine, expected [(base element, [(lo, hi) local intervals])]
    'Xtrim': ('X', .5, 0, [(0, [(.5, 1.)]), (1, [(0., 1.)])]),
    'Ytrim': ('Y', 1.25, 1, [(1, [(.25, .5), (.5, 1.)]), (2, [(0., 1.)])]),
}


_base_cache = {}


def base(bname, rename=None):
    '''(nutils sample, model) of a named base sample; `rename` puts it in another space name'''
    if (bname, rename) not in _base_cache:
        _base_cache[bname, rename] = _base(bname, rename)
    return _base_cache[bname, rename]


def _base(bname, rename):
    kind = bname[0]
    name = rename or kind
    dom, geom = topo(kind, name)
    what = bname[1:]
    if what in ('g1', 'g2', 'b2', 'u2'):
        scheme = {'g': 'gauss', 'b': 'bezier', 'u': 'uniform'}[what[0]]
        smp = dom.sample(scheme, int(what[1]))
        t = table(kind, scheme + what[1])
        expect = [(ie, [(((ie, c),), w, None) for c, w in t]) for ie in range(NELEMS[kind])]
        return smp, adopt_base(smp, kind, name, expect)
    if what == 'loc':
        return located(kind, name, 5 if NDIMS[kind] == 1 else 4)
    if what == 'trim':
        kind, c, maxrefine, exp = TRIMS[bname]
        smp = dom.trim(geom - c, maxrefine=maxrefine).sample('gauss', 2)
        expect = []
        for ie, ivals in exp:
            pts = []
            for lo, hi in ivals:
                for (x,), w in LINE['gauss2']:
                    pts.append((((ie, (lo + x * (hi - lo),)),), w * (hi - lo), None))
            expect.append((ie, pts))
        return smp, adopt_base(smp, kind, name, expect)
    raise HarnessProblem('unknown base {}'.format(bname))


BASES = ['Xg2', 'Yg1', 'Zu2', 'Xg1', 'Xb2', 'Xu2', 'Yg2', 'Yb2', 'Yu2', 'Zg1', 'Zg2', 'Zb2', 'Xloc', 'Zloc', 'Xtrim', 'Ytrim']
KINDS = ['X', 'Y', 'Z']


def canonical(spaces, scheme):
    'product over the spaces of the plain base sample with the given scheme (the operand of `+`)'
    smp, mod = None, None
    for name, kind in spaces:
        s, m = base(kind + scheme, rename=name)
        smp, mod = (s, m) if smp is None else (smp * s, mod.mul(m))
    return smp, mod


PERMS = {
    'reverse': lambda n: list(range(n))[::-1],
    'rotate': lambda n: [(k + 1) % n for k in range(n)],
    'swap01': lambda n: [1, 0] + list(range(2, n)),
    'interleave': lambda n: list(range(0, n, 2)) + list(range(1, n, 2)),
}


def apply_op(smp, mod, op):
    '''apply one operation to the live sample and to the model; returns (sample, model, order_free)
    where order_free lists alternative element orders that are acceptable (see module docstring)'''
    from nutils import sample as nsample
    name = op[0]
    if name in ('mul', 'rmul'):
        o, om = base(op[1])
        return (smp * o, mod.mul(om)) if name == 'mul' else (o * smp, om.mul(mod))
    if name in ('add', 'radd'):
        o, om = canonical(mod.spaces, op[1])
        return (smp + o, mod.add(om)) if name == 'add' else (o + smp, om.add(mod))
    if name == 'addself':
        return smp + smp, mod.add(mod)
    if name == 'take':
        return smp.take_elements(numpy.array(op[1], dtype=int)), mod.take(op[1])
    if name == 'subset':
        mask = numpy.zeros(mod.npoints, dtype=bool)
        mask[op[1]] = True
        return smp.subset(mask), mod.take(mod.marked_elements(op[1]))
    if name == 'cidx':
        perm = PERMS[op[1]](mod.npoints)
        return nsample.Sample.new(smp.space, smp.transforms, smp.points, numpy.array(perm, dtype=int)), mod.cidx(perm)
    if name == 'rename':
        return smp.rename_spaces(dict(op[1])), mod.rename(dict(op[1]))
    if name == 'zip':
        kind, side, salt = op[1], op[2], op[3] if len(op) > 3 else 0
        o, om = located(kind, kind, mod.npoints, salt)
        first, second = ((smp, mod), (o, om)) if side == 'right' else ((o, om), (smp, mod))
        z = nsample.Sample.zip(first[0], second[0])
        groups, point, spaces = first[1].zip_groups(second[1])
        if z.nelems != len(groups):
            raise Mismatch('zip-nelems', 'zipped sample has {} elements, the operands pair up in {} distinct element combinations'.format(z.nelems, len(groups)))
        elems = []
        for i, g in enumerate(groups):
            idx = numpy.asarray(z.getindex(i)).tolist()
            if sorted(idx) != sorted(g):
                raise Mismatch('zip-getindex', 'getindex({}) = {} but the points sharing element combination {} are {}'.format(i, idx, i, sorted(g)))
            elems.append([point[j] for j in idx])
        return z, Model(spaces, elems)
    raise HarnessProblem('unknown op {}'.format(op))


def is_chain(smp):
    return hasattr(smp, 'transforms') and hasattr(smp, 'points') and hasattr(smp, 'space')


def typesig(smp, depth=2):
    'nested class names of a sample, cut at `depth`'
    name = type(smp).__name__
    if depth == 0:
        return name
    kids = []
    for attr in ('_parent', '_sample1', '_sample2'):
        if hasattr(smp, attr):
            kids.append(typesig(getattr(smp, attr), depth - 1))
    if hasattr(smp, '_samples'):
        kids.extend(typesig(s, depth - 1) for s in smp._samples)
    return name + ('(' + ','.join(kids) + ')' if kids else '')


def close(a, b):
    a = numpy.asarray(a, dtype=float)
    b = numpy.asarray(b, dtype=float)
    return a.shape == b.shape and bool((abs(a - b) <= 1e-9 * (1 + abs(b))).all())


def root_cause(e):
    'Class.method of the innermost nutils/sample.py frame of an exception (innermost nutils frame if there is none)'
    tb = e.__traceback__
    last = lastsample = None
    while tb is not None:
        f = tb.tb_frame
        fn = f.f_code.co_filename
        if 'nutils' in fn:
            slf = f.f_locals.get('self')
            last = type(slf).__name__ + '.' + f.f_code.co_name if slf is not None else f.f_code.co_qualname.replace('.<locals>', '').replace('.<genexpr>', '').replace('.<listcomp>', '')
            if fn.endswith('sample.py'):
                lastsample = last
        tb = tb.tb_next
    return lastsample or last or '?'


def conform(smp, mod, deep=True, integral=True, memo=None):
    '''the oracle: None, or (kind, description) of the first disagreement between the live sample
    and the model.  Exceptions raised by nutils are disagreements (the property promises a value).'''
    try:
        if tuple(smp.spaces) != mod.names:
            return 'spaces', 'spaces {} != {}'.format(tuple(smp.spaces), mod.names)
        if smp.nelems != mod.nelems:
            return 'nelems', 'nelems {} != {}'.format(smp.nelems, mod.nelems)
        if smp.npoints != mod.npoints:
            return 'npoints', 'npoints {} != {}'.format(smp.npoints, mod.npoints)
        for i, e in enumerate(mod.elems):
            got = numpy.asarray(smp.getindex(i))
            want = [idx for l, w, idx in e]
            if got.ndim != 1 or got.dtype.kind not in 'iu' or got.tolist() != want:
                return 'getindex', 'getindex({}) = {} != {}'.format(i, got.tolist(), want)
        if mod.nelems and [numpy.asarray(a).tolist() for a in smp.index] != [[idx for l, w, idx in e] for e in mod.elems]:
            return 'index', '.index disagrees with getindex'
        allidx = sorted(idx for l, w, idx in mod.points())
        if allidx != list(range(mod.npoints)):
            return 'getindex', 'the indices {} are not a permutation of range(npoints)'.format(allidx)
        if not deep:
            return None
        memo = {} if memo is None else memo   # observations of the live sample, reusable for another candidate model on the same spaces
        F = F_nutils(mod.spaces)
        if 'vals' not in memo:
            memo['vals'] = numpy.asarray(smp.eval(F))
        vals = memo['vals']
        if vals.shape != (mod.npoints, 3):
            return 'eval-shape', 'eval(F).shape = {} != {}'.format(vals.shape, (mod.npoints, 3))
        for i, e in enumerate(mod.elems):
            for k, (locs, w, idx) in enumerate(e):
                want = F_model(mod.spaces, locs)
                if not close(vals[idx], want):
                    return 'eval', 'eval(F)[getindex({})[{}]={}] = {} but F at that point (locs {}) = {}'.format(i, k, idx, vals[idx].tolist(), locs, want.tolist())
        want = mod.integral()
        if 'integrate' not in memo:
            memo['integrate'] = numpy.asarray(smp.integrate(F))
        got = memo['integrate']
        if not close(got, want):
            return 'integrate', 'integrate(F) = {} != sum w F = {}'.format(got.tolist(), want.tolist())
        if integral and 'integral' not in memo:
            memo['integral'] = numpy.asarray(smp.integral(F).eval())
        got2 = memo['integral'] if integral else got
        if not close(got2, want):
            return 'integral', 'integral(F).eval() = {} != sum w F = {}'.format(got2.tolist(), want.tolist())
    except NotImplementedError as e:
        return 'unsupported:' + root_cause(e), 'NotImplementedError in {}'.format(root_cause(e))
    except Exception as e:
        return 'raise:{}:{}'.format(type(e).__name__, root_cause(e)), '{!r} in {}'.format(e, root_cause(e))
    return None


def describe(bname, ops):
    s = bname
    for op in ops:
        n = op[0]
        if n == 'mul':
            s = '({} * {})'.format(s, op[1])
        elif n == 'rmul':
            s = '({} * {})'.format(op[1], s)
        elif n == 'add':
            s = '({} + plain:{})'.format(s, op[1])
        elif n == 'radd':
            s = '(plain:{} + {})'.format(op[1], s)
        elif n == 'addself':
            s = '({0} + {0})'.format(s)
        elif n == 'take':
            s = '{}.take_elements({})'.format(s, op[1])
        elif n == 'subset':
            s = '{}.subset(mask@{})'.format(s, op[1])
        elif n == 'cidx':
            s = 'reindexed({}, {})'.format(s, op[1])
        elif n == 'rename':
            s = '{}.rename_spaces({})'.format(s, dict(op[1]))
        elif n == 'zip':
            s = 'zip({}, {}loc)'.format(s, op[1]) if op[2] == 'right' else 'zip({}loc, {})'.format(op[1], s)
    return s
