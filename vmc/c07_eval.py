'''C07 evaluator: runs one JSON call tree twice - once on nutils function arrays
(build, then sample.eval) and once per sample point on plain numpy values (the
reference) - and compares value, shape and element kind.

A case is {'func': name, 'tag': input class, 'expr': node}; a node is one of

    ['arr', kind, shape, dtype, variant, slot]   operand, see c07_space
    ['op', fname, [argnodes], {kw: node}]        call
    ['lit', json]  ['tup', [nodes]]  ['lst', [nodes]]  ['sl', a, b, c]  ['ell']  ['new']
    ['np', dtype, nested list]                   a plain numpy array literal (indices, masks)

fname is 'numpy.<name>' / 'numpy.linalg.<name>' (the NumPy API), 'getitem',
'op.<name>' (python operator), 'divmod', 'attr.<name>', 'method.<name>', 'len'.
'''

import operator, builtins
import numpy
from . import c07_space as space

RTOL = 1e-9
ATOL = 1e-11


# ------------------------------------------------------------------ names

def np_name(f):
    'stable dotted name of a NumPy API object'
    name = getattr(f, '__name__', None)
    if name is None:
        return repr(f)
    if isinstance(f, numpy.ufunc):
        return 'numpy.' + name
    mod = getattr(f, '__module__', '') or ''
    if mod.startswith('numpy.linalg'):
        return 'numpy.linalg.' + name
    return 'numpy.' + name


def resolve(fname):
    obj = numpy
    for part in fname.split('.')[1:]:
        obj = getattr(obj, part)
    return obj


_OPS = {name: getattr(operator, name) for name in
        ('add', 'sub', 'mul', 'truediv', 'floordiv', 'mod', 'pow', 'matmul', 'neg', 'pos', 'abs', 'invert', 'and_', 'or_', 'lt', 'gt', 'eq')}


def _call(fname, args, kwargs):
    if fname.startswith('numpy.'):
        return resolve(fname)(*args, **kwargs)
    if fname == 'getitem':
        return args[0][args[1]]
    if fname.startswith('op.'):
        return _OPS[fname[3:]](*args)
    if fname == 'divmod':
        return builtins.divmod(*args)
    if fname == 'len':
        return len(*args)
    if fname.startswith('attr.'):
        return getattr(args[0], fname[5:])
    if fname.startswith('method.'):
        return getattr(args[0], fname[7:])(*args[1:], **kwargs)
    raise ValueError('unknown function {}'.format(fname))


_NP_TRACK = None   # when a list: every plain ndarray operand created by ev() is recorded with a pristine copy (NumPy never mutates an operand)


def ev(node, leaf):
    'evaluate a node; leaf(node) supplies the value of an arr node'
    t = node[0]
    if t == 'arr':
        return leaf(node)
    if t == 'op':
        args = [ev(a, leaf) for a in node[2]]
        kwargs = {k: ev(v, leaf) for k, v in (node[3] if len(node) > 3 else {}).items()}
        return _call(node[1], args, kwargs)
    if t == 'lit':
        return node[1]
    if t == 'tup':
        return tuple(ev(a, leaf) for a in node[1])
    if t == 'lst':
        return [ev(a, leaf) for a in node[1]]
    if t == 'sl':
        return slice(node[1], node[2], node[3])
    if t == 'ell':
        return Ellipsis
    if t == 'new':
        return None
    if t == 'np':
        a = numpy.array(node[2], dtype={'b': bool, 'i': int, 'f': float, 'c': complex}[node[1]])
        if _NP_TRACK is not None:
            _NP_TRACK.append((a, a.copy()))
        return a
    if t == 'cplx':
        return complex(node[1], node[2])
    if t == 'npscalar':
        return {'b': numpy.bool_, 'i': numpy.int64, 'f': numpy.float64, 'c': numpy.complex128}[node[1]](node[2])
    if t == 'pytype':
        return {'b': bool, 'i': int, 'f': float, 'c': complex}[node[1]]
    raise ValueError('unknown node {}'.format(node))


def leaves(node, out=None):
    if out is None:
        out = []
    t = node[0]
    if t == 'arr':
        out.append(node)
    elif t == 'op':
        for a in node[2]:
            leaves(a, out)
        for v in (node[3] if len(node) > 3 else {}).values():
            leaves(v, out)
    elif t in ('tup', 'lst'):
        for a in node[1]:
            leaves(a, out)
    return out


def render(node):
    'compact human readable form of a node'
    t = node[0]
    if t == 'arr':
        return '{}<{}:{}:{}{}>'.format(node[1], node[3], ','.join(map(str, node[2])), node[4], node[5])
    if t == 'op':
        parts = [render(a) for a in node[2]] + ['{}={}'.format(k, render(v)) for k, v in (node[3] if len(node) > 3 else {}).items()]
        return '{}({})'.format(node[1], ', '.join(parts))
    if t == 'lit':
        return repr(node[1])
    if t == 'tup':
        return '(' + ', '.join(render(a) for a in node[1]) + (',)' if len(node[1]) == 1 else ')')
    if t == 'lst':
        return '[' + ', '.join(render(a) for a in node[1]) + ']'
    if t == 'sl':
        return '{}:{}:{}'.format(*('' if v is None else v for v in node[1:4]))
    if t == 'ell':
        return '...'
    if t == 'new':
        return 'None'
    if t == 'np':
        return 'array({}, {})'.format(node[2], node[1])
    if t == 'cplx':
        return repr(complex(node[1], node[2]))
    if t == 'npscalar':
        return 'numpy.{}({})'.format({'b': 'bool_', 'i': 'int64', 'f': 'float64', 'c': 'complex128'}[node[1]], node[2])
    if t == 'pytype':
        return {'b': 'bool', 'i': 'int', 'f': 'float', 'c': 'complex'}[node[1]]
    return repr(node)


# ------------------------------------------------------------------ classification of exceptions

_NONSHAPE_MSG = ('step cannot be zero', 'negative integer power', 'invalid entry in choice', 'not supported for the input types',
                 'did not contain a loop', 'cannot be safely', 'casting', 'must be increasing', 'singular', 'only integer',
                 'arrays used as indices must be of integer', 'object arrays', 'no ordering', 'not supported')


def numpy_shape_reason(e):
    '''True if NumPy rejected the call because of shapes / axes / index ranges; False for
    element-type or value reasons (those are outside the statement of C07).'''
    if isinstance(e, (TypeError, ZeroDivisionError, OverflowError, NotImplementedError, AttributeError, DeprecationWarning)):
        return False
    msg = str(e).lower()
    if isinstance(e, numpy.linalg.LinAlgError):
        return 'square' in msg or 'dimension' in msg
    if isinstance(e, (IndexError, numpy.exceptions.AxisError)):
        return not any(m in msg for m in ('only integer', 'must be of integer', 'valid indices'))
    if isinstance(e, ValueError):
        return not any(m in msg for m in _NONSHAPE_MSG)
    return False


_ORDER = ('numpy.greater', 'numpy.less', 'numpy.minimum', 'numpy.maximum', 'op.lt', 'op.gt')
_LOGIC = ('numpy.logical_and', 'numpy.logical_or', 'numpy.logical_not', 'numpy.bitwise_and', 'numpy.bitwise_or', 'numpy.invert',
          'numpy.all', 'numpy.any', 'op.and_', 'op.or_', 'op.invert')


def deliberate_rejection(node, e, tag=''):
    '''nutils documents / spells out a handful of element-type restrictions (complex numbers are not
    ordered, logic is boolean only, ...). A loud build-time refusal of exactly these is not counted
    as a violation (the statement is about operations that are supported); it is counted and listed.
    Returns a short label or None.'''
    if node[0] != 'op':
        return None
    fname = node[1]
    dts = ''.join(sorted(set(top_dtypes(node) + scalar_dtypes(node))))
    msg = str(e)
    if fname in _ORDER and 'c' in dts and isinstance(e, ValueError) and 'total order' in msg:
        return 'complex-order'
    if fname in ('numpy.sign', 'numpy.arctan2') and 'c' in dts and isinstance(e, ValueError) and 'not defined for complex' in msg:
        return 'complex-' + fname[6:]
    if fname in _LOGIC and dts != 'b' and isinstance(e, TypeError):
        return 'logic-nonbool'
    if fname in ('numpy.all', 'numpy.any') and isinstance(e, TypeError):
        kw = node[3] if len(node) > 3 else {}
        ax = kw.get('axis') or (node[2][1] if len(node[2]) > 1 else None)
        if ax is not None and ax[0] in ('tup', 'lst'):
            return 'allany-axis-tuple'
    if fname == 'numpy.repeat' and isinstance(e, NotImplementedError) and tag.startswith('nonsingleton'):
        return 'repeat-nonsingleton'
    if fname == 'numpy.linalg.norm' and isinstance(e, NotImplementedError):
        return 'norm-ord'
    if fname == 'numpy.compress' and isinstance(e, ValueError) and 'expected a condition of length' in msg and ('short' in tag or 'long' in tag):
        return 'compress-short-condition'
    # argument forms that are not implemented and are refused loudly when the expression is built
    args = node[2]
    kw = node[3] if len(node) > 3 else {}
    if fname == 'numpy.concatenate' and kw.get('axis') == ['lit', None] and isinstance(e, TypeError):
        return 'concatenate-axis-none'
    if fname == 'numpy.prod' and len(args) == 1 and 'axis' not in kw and isinstance(e, TypeError) and 'missing 1 required positional argument' in msg:
        return 'prod-without-axis'
    if fname == 'numpy.repeat' and len(args) == 2 and 'axis' not in kw and isinstance(e, TypeError) and 'missing 1 required positional argument' in msg:
        return 'repeat-without-axis'
    if fname == 'numpy.broadcast_to' and len(args) == 2 and args[1][0] == 'lit' and type(args[1][1]) is int and isinstance(e, TypeError):
        return 'broadcast_to-int-shape'
    if fname == 'numpy.searchsorted' and args[0][0] in ('lit', 'np') and args[0][-1] == [] and isinstance(e, ValueError) and 'need at least one array' in msg:
        return 'searchsorted-empty-haystack'
    if fname == 'numpy.interp' and len(args) >= 3 and 'arr' in (args[1][0], args[2][0]) and isinstance(e, TypeError) and 'no implementation found' in msg:
        return 'interp-function-array-knots'
    if fname in ('numpy.diagonal', 'numpy.trace') and isinstance(e, ValueError) and 'axis lengths do not match' in msg and tag == 'nonsquare':
        return 'diagonal-of-unequal-axes'
    if fname == 'numpy.vdot' and isinstance(e, ValueError) and 'cannot broadcast shapes' in msg and tag == 'same-size':
        return 'vdot-different-shapes'
    return None


def top_dtypes(node):
    'dtype chars of the operands below a node (through nested ops)'
    return [l[3] for l in leaves(node)]


def scalar_dtypes(node):
    'dtype chars of python / numpy scalar literals that are direct arguments of the call'
    out = []
    if node[0] == 'op':
        for a in node[2]:
            if a[0] == 'lit' and type(a[1]) in (bool, int, float):
                out.append('bif'[(bool, int, float).index(type(a[1]))])
            elif a[0] == 'cplx':
                out.append('c')
            elif a[0] == 'npscalar':
                out.append(a[1])
    return out


# ------------------------------------------------------------------ comparison

def _describe(a):
    a = numpy.asarray(a)
    return '{}{} {}'.format(a.dtype, list(a.shape), numpy.array2string(a, precision=6, threshold=40).replace('\n', ''))


def is_finite(ref):
    for r in _flat_outputs(ref):
        r = numpy.asarray(r)
        if r.dtype.kind in 'fc' and not numpy.isfinite(r).all():
            return False
        if r.dtype.kind == 'O':
            return False
    return True


def _flat_outputs(x):
    'a NumPy call returns an array, a scalar, a shape tuple, or a tuple of arrays (divmod, eig, eigh)'
    if isinstance(x, tuple) and len(x) == 2 and not all(type(i) is int for i in x):
        return list(x)
    return [x]


def compare_values(got, ref, fname, iout, operand_at_point):
    'got, ref: numpy values at one point. Returns None or (category, text)'
    got = numpy.asarray(got)
    ref = numpy.asarray(ref)
    if got.shape != ref.shape:
        return 'shape', 'shape {} != numpy {}'.format(list(got.shape), list(ref.shape))
    gk, rk = space.kindchar(got.dtype), space.kindchar(ref.dtype)
    if gk != rk:
        return 'dtype', 'element kind {} != numpy {} ({} vs {})'.format(gk, rk, got.dtype, ref.dtype)
    if rk in 'bi':
        if not numpy.array_equal(got, ref):
            return 'value', '{} != numpy {}'.format(_describe(got), _describe(ref))
    else:
        # numpy computes bool/int8 inputs in half or single precision (numpy.sin(True) is float16): the
        # reference is then only as accurate as its own width; nutils has one width per kind
        eps = float(numpy.finfo(ref.dtype).eps)
        if not numpy.allclose(got, ref, rtol=max(RTOL, 8 * eps) if eps > 1e-12 else RTOL, atol=max(ATOL, 8 * eps) if eps > 1e-12 else ATOL):
            return 'value', '{} != numpy {}'.format(_describe(got), _describe(ref))
    return None


def compare_eig(fname, gots, refs, a):
    '''eig / eigh at one point: gots = (w, v) from nutils, refs = numpy's, a = the matrix.
    eigh: eigenvalues ascending (documented) are compared directly, eigenvectors up to a unit
    factor per column. eig: order and scaling are LAPACK details and the result kind is value
    dependent, so (w, v) is judged as a decomposition of a with the same spectrum.'''
    w, v = (numpy.asarray(g) for g in gots)
    rw, rv = (numpy.asarray(r) for r in refs)
    if w.shape != rw.shape or v.shape != rv.shape:
        return 'shape', 'shapes {} {} != numpy {} {}'.format(list(w.shape), list(v.shape), list(rw.shape), list(rv.shape))
    if fname == 'numpy.linalg.eigh':
        if space.kindchar(w.dtype) != 'f' or space.kindchar(v.dtype) != space.kindchar(rv.dtype):
            return 'dtype', 'eigh kinds {} {} != numpy {} {}'.format(w.dtype, v.dtype, rw.dtype, rv.dtype)
        if not numpy.allclose(w, rw, rtol=1e-8, atol=1e-10):
            return 'value', 'eigenvalues {} != numpy {}'.format(_describe(w), _describe(rw))
        overlap = abs(numpy.einsum('...ij,...ij->...j', numpy.conjugate(rv), v))
        if not numpy.allclose(overlap, 1, rtol=1e-8):
            return 'value', 'eigenvectors {} != numpy {} (up to a unit factor per column)'.format(_describe(v), _describe(rv))
        return None
    if space.kindchar(w.dtype) not in 'fc' or space.kindchar(v.dtype) not in 'fc':
        return 'dtype', 'eig kinds {} {}'.format(w.dtype, v.dtype)
    key = lambda z: (round(z.real, 7), round(z.imag, 7))
    W = w.reshape(-1, w.shape[-1]).astype(complex)
    RW = rw.reshape(-1, w.shape[-1]).astype(complex)
    for x, y in zip(W, RW):
        if not numpy.allclose(sorted(x, key=key), sorted(y, key=key), rtol=1e-8, atol=1e-9):
            return 'value', 'eigenvalues {} != numpy {}'.format(_describe(w), _describe(rw))
    a = numpy.asarray(a)
    if not numpy.allclose(a @ v, v * w[..., None, :], rtol=1e-8, atol=1e-9):
        return 'value', 'A v != v w for w={} v={}'.format(_describe(w), _describe(v))
    if not numpy.allclose(numpy.linalg.norm(v, axis=-2), 1, rtol=1e-8):
        return 'value', 'eigenvectors not normalised: {}'.format(_describe(v))
    return None


# ------------------------------------------------------------------ one case

class Outcome:
    __slots__ = ('status', 'key', 'what', 'outs', 'refs', 'args', 'label', 'batch', 'case')

    def __init__(self, status, key=None, what=None):
        self.status = status      # 'ok' | 'rejected' | 'skip-nonshape' | 'skip-undefined' | 'unsupported' | 'violation' | 'pending'
        self.key = key
        self.what = what
        self.outs = None
        self.refs = None
        self.args = None
        self.label = None
        self.batch = None
        self.case = None


_CAT = {'build-raise': 'raise', 'eval-raise': 'raise', 'shape': 'mismatch', 'dtype': 'mismatch', 'value': 'mismatch', 'arity': 'mismatch', 'type': 'mismatch',
        'accepted-invalid': 'accepted-invalid', 'operand-mutated': 'operand-mutated'}


def _key(cat, case):
    '''category:function:input-class. The category is coarse (mismatch = shape/kind/value differs, raise = an exception at
    build or evaluation time where numpy returns a value, accepted-invalid); an input class starting with @ is a
    cross-function class (same root cause behind several API entries) and replaces function:class.'''
    tag = case.get('dyntag') or case['tag']
    if tag.startswith('@'):
        return '{}:{}'.format(_CAT[cat], tag[1:])
    return '{}:{}:{}'.format(_CAT[cat], case['func'], tag)


PROTECTED_CLASSES = ('slice-clamp', 'bool-mask', 'multi-adv')  # index classes that are not re-labelled as zero-length results


def _dyntag(ctx, case, vals):
    '''some input classes depend on operand VALUES (still a pure function of the input): numpy.interp
    documents left/right for x strictly outside [xp[0], xp[-1]]; x exactly on the first or last knot is its own class'''
    node = case['expr']
    if case['func'] == 'numpy.interp' and node[0] == 'op' and node[2][0][0] == 'arr' and node[2][1][0] in ('lit', 'np'):
        x = vals[repr(node[2][0])]
        xp = node[2][1][1] if node[2][1][0] == 'lit' else node[2][1][2]
        if xp and ((x == xp[0]).any() or (x == xp[-1]).any()):
            return case['tag'] + ':x-on-end-knot'
    return None


def prepare(ctx, case):
    '''reference first, then the nutils build and the static (shape, dtype) comparison.
    Returns an Outcome; status 'pending' means: evaluate outs and call finish().'''
    function = ctx.function
    node = case['expr']
    lvs = leaves(node)
    try:
        vals = {repr(l): ctx.values(l) for l in lvs}
    except space.OperandError as e:
        return Outcome('violation', 'raise:operand', str(e))
    # --- reference, per point
    refs = []
    nperr = None
    with numpy.errstate(all='ignore'):
        for p in range(ctx.npoints):
            try:
                refs.append(ev(node, lambda l: _pointvalue(vals[repr(l)], p)))
            except Exception as e:
                nperr = e
                break
    if nperr is not None and isinstance(nperr, IndexError) and any(l[4] in ('idx', 'nidx') and l[1] != 'raw' for l in lvs):
        # a function-array index that leaves the axis: numpy's error is value dependent (per point), not a shape class
        return Outcome('skip-nonshape', what='{}: {}'.format(type(nperr).__name__, nperr))
    if nperr is not None and not numpy_shape_reason(nperr):
        return Outcome('skip-nonshape', what='{}: {}'.format(type(nperr).__name__, nperr))
    if nperr is None and not all(is_finite(r) for r in refs):
        return Outcome('skip-undefined')
    if nperr is None and not case.get('dyntag') and case['tag'] not in PROTECTED_CLASSES and not case['tag'].startswith('@') \
            and any(0 in numpy.shape(r) for r in _flat_outputs(refs[0]) if not isinstance(r, tuple)):
        case = dict(case, dyntag='@zero-length-result')
    # --- nutils build
    arguments = {}

    def leaf(l):
        obj, args = ctx.operand(l)
        arguments.update(args)
        return obj
    global _NP_TRACK
    _NP_TRACK = []
    try:
        built = ev(node, leaf)
    except Exception as e:
        _NP_TRACK = None
        if nperr is not None:
            return Outcome('rejected')
        label = deliberate_rejection(node, e, case['tag'])
        if label:
            o = Outcome('unsupported')
            o.label = label
            return o
        return Outcome('violation', _key('build-raise', case),
                       'numpy returns {} but building the nutils expression raised {}: {}'.format(_describe_ref(refs[0]), type(e).__name__, str(e)[:300]))
    tracked, _NP_TRACK = _NP_TRACK, None
    for a, pristine in tracked:
        if a.shape != pristine.shape or not numpy.array_equal(a, pristine):
            return Outcome('violation', _key('operand-mutated', case), 'building the nutils expression modified a plain ndarray operand in place: {} became {}'.format(pristine.tolist(), a.tolist()))
    if nperr is not None:
        what = 'numpy rejects the call ({}: {}) but nutils built {!r}'.format(type(nperr).__name__, str(nperr)[:200], _short(built))
        outs = _flat_outputs(built)
        if all(isinstance(o, function.Array) for o in outs):
            try:
                v = ctx.sample.eval(outs, arguments=arguments)
                what += '; evaluation returns {}'.format(_describe(v[0][0]))
            except Exception as e:
                what += '; evaluation then raises {}: {}'.format(type(e).__name__, str(e)[:120])
        return Outcome('violation', _key('accepted-invalid', case), what)
    # --- static comparison
    outs = _flat_outputs(built)
    ref0 = _flat_outputs(refs[0])
    if len(outs) != len(ref0):
        return Outcome('violation', _key('arity', case), 'nutils returns {} outputs, numpy {}'.format(len(outs), len(ref0)))
    if not any(isinstance(o, function.Array) for o in outs):
        # shape / ndim / size / len: plain python values
        for o, r in zip(outs, ref0):
            if isinstance(o, numpy.ndarray) or isinstance(o, bool) or not isinstance(o, (int, tuple)) or o != r:
                return Outcome('violation', _key('value', case), 'nutils returns {!r}, numpy {!r}'.format(o, r))
        return Outcome('ok')
    for i, (o, r) in enumerate(zip(outs, ref0)):
        if not isinstance(o, function.Array):
            return Outcome('violation', _key('type', case), 'output {} is {} instead of a function array'.format(i, type(o).__name__))
        r = numpy.asarray(r)
        if tuple(o.shape) != r.shape:
            return Outcome('violation', _key('shape', case), 'built array has shape {} but numpy gives {}'.format(list(o.shape), list(r.shape)))
        ok = space.kindchar(numpy.dtype(o.dtype)) == space.kindchar(r.dtype)
        if case['func'] == 'numpy.linalg.eig':
            ok = o.dtype in (float, complex)
        if not ok:
            return Outcome('violation', _key('dtype', case),
                           'built array has dtype {} but numpy gives {}'.format(getattr(o.dtype, '__name__', o.dtype), r.dtype))
    out = Outcome('pending')
    out.outs = outs
    out.refs = refs
    out.args = arguments
    out.case = case
    return out


def _pointvalue(v, p):
    x = v[p]
    return x


def _short(x):
    return x if not isinstance(x, tuple) else tuple(x)


def _describe_ref(r):
    return ' , '.join(_describe(x) for x in _flat_outputs(r))


def finish(ctx, case, out, values):
    'values: list (per output) of evaluated arrays with leading point axis -> final Outcome'
    node = case['expr']
    fname = case['func']
    for p in range(ctx.npoints):
        refp = _flat_outputs(out.refs[p])
        gots = []
        for i, (v, r) in enumerate(zip(values, refp)):
            v = numpy.asarray(v)
            if v.shape[:1] != (ctx.npoints,):
                return Outcome('violation', _key('shape', case), 'evaluated array has shape {} for {} points'.format(list(v.shape), ctx.npoints))
            gots.append(v[p])
        if fname in ('numpy.linalg.eig', 'numpy.linalg.eigh') and node[0] == 'op' and node[1] == fname:
            lv = leaves(node)
            a = ctx.values(lv[0])[p]
            bad = compare_eig(fname, gots, refp, a)
        else:
            bad = None
            for i, (g, r) in enumerate(zip(gots, refp)):
                bad = compare_values(g, r, fname, i, None)
                if bad:
                    break
        if bad:
            cat, text = bad
            key = _key(cat, case)
            return Outcome('violation', key, 'at point {} of sample {}: {}'.format(p, ctx.name, text))
    return Outcome('ok')


def refine(ctx, case):
    'attach the value dependent input class, if any'
    try:
        vals = {repr(l): ctx.values(l) for l in leaves(case['expr'])}
    except Exception:
        return case
    dyn = _dyntag(ctx, case, vals)
    return dict(case, dyntag=dyn) if dyn else case


def run_single(ctx, case):
    'the complete judgement of one case on one sample, evaluated on its own'
    case = refine(ctx, case)
    out = prepare(ctx, case)
    if out.status != 'pending':
        return out
    case = out.case
    try:
        values = ctx.sample.eval(out.outs, arguments=out.args)
    except Exception as e:
        return Outcome('violation', _key('eval-raise', case),
                       'numpy returns {} but evaluating the nutils expression raised {}: {}'.format(_describe_ref(out.refs[0]), type(e).__name__, str(e)[:300]))
    return finish(ctx, case, out, values)


def run_batch(ctx, cases, batch=12):
    '''judge many cases on one sample; expressions are evaluated `batch` at a time in one
    sample.eval call (the compile cost dominates); every batch-level anomaly is re-judged
    case by case with run_single so that reported outcomes never depend on the batching.
    Yields (case, Outcome).'''
    pending = []

    def flush():
        if not pending:
            return
        flat = [o for c, out in pending for o in out.outs]
        args = {}
        for c, out in pending:
            args.update(out.args)
        try:
            values = ctx.sample.eval(flat, arguments=args)
        except Exception:
            values = None
        i = 0
        for c, out in pending:
            n = len(out.outs)
            if values is None:
                yield c, run_single(ctx, c)
            else:
                res = finish(ctx, out.case, out, values[i:i + n])
                if res.status != 'ok':
                    single = run_single(ctx, c)
                    if single.status == 'ok':
                        single = Outcome('violation', 'batch-only:' + res.key, 'only when evaluated together with other arrays: ' + res.what)
                        single.batch = [cc for cc, oo in pending]
                    res = single
                yield c, res
            i += n
        pending.clear()

    for case in cases:
        case = refine(ctx, case)
        out = prepare(ctx, case)
        if out.status == 'pending':
            pending.append((case, out))
            if len(pending) >= batch:
                yield from flush()
        else:
            yield case, out
    yield from flush()
