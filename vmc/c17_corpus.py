'''C17 value corpus: a small JSON spec language for immutable values, a builder
with construction routes, and a hand-written structural canon.

spec        JSON list describing ONE value structurally (type exact)
canon(spec) canonical structure; same(v, w) := canon(v) == canon(w).  The canon
            never calls nutils: it is computed from the spec alone.
build(spec, k)  the real Python / numpy / nutils object, built by "variant k":
            every node of the spec uses its k-th (mod n) construction variant
            (numpy scalar widths, insertion orders, array layouts, source
            dtypes of arraydata, positional / keyword / defaulted arguments,
            operand orders of commutative nodes, ...).
'''

import io, json, math, pickle, struct, itertools
import numpy

# ------------------------------------------------------------------ spec helpers


def frepr(x):
    x = float(x)
    return 'nan' if x != x else repr(x)


NONE = ['none']
ELL = ['ellipsis']


def B(b): return ['bool', bool(b)]
def I(n): return ['int', int(n)]
def F(x): return ['float', frepr(float(x))]
def C(re, im): return ['complex', frepr(float(re)), frepr(float(im))]
def S(s): return ['str', s]
def Y(b): return ['bytes', bytes(b).hex()]
def TYPE(name): return ['type', name]
def T(*items): return ['tuple', list(items)]
def L(*items): return ['list', list(items)]
def SET(*items): return ['set', list(items)]
def FSET(*items): return ['frozenset', list(items)]
def D(*pairs): return ['dict', [list(p) for p in pairs]]
def ND(dtype, shape, flat): return ['ndarray', dtype, list(shape), list(flat)]
def AD(kind, shape, flat): return ['arraydata', kind, list(shape), list(flat)]
def FD(*pairs): return ['frozendict', [list(p) for p in pairs]]
def FMS(*items): return ['frozenmultiset', list(items)]
def HF(ident): return ['hfunc', ident]
def INST(cls, **fields): return ['inst', cls, [[k, v] for k, v in fields.items()]]


def atomspec(v):
    'spec of a plain Python atom (generation convenience)'
    if v is None: return NONE
    if v is Ellipsis: return ELL
    if isinstance(v, bool): return B(v)
    if isinstance(v, int): return I(v)
    if isinstance(v, float): return F(v)
    if isinstance(v, complex): return C(v.real, v.imag)
    if isinstance(v, str): return S(v)
    if isinstance(v, bytes): return Y(v)
    raise TypeError(v)


KINDCHAR = {'bool': 'b', 'int': 'i', 'float': 'f', 'complex': 'c'}


def _canon_flat(kind, flat):
    if kind == 'b':
        return [bool(x) for x in flat]
    if kind in 'iu':
        return [int(x) for x in flat]
    if kind == 'f':
        return [frepr(float(x)) for x in flat]
    if kind == 'c':
        return [[frepr(float(x[0])), frepr(float(x[1]))] for x in flat]
    raise ValueError(kind)


def _decode_flat(kind, flat):
    if kind == 'b':
        return [bool(x) for x in flat]
    if kind in 'iu':
        return [int(x) for x in flat]
    if kind == 'f':
        return [float(x) for x in flat]
    if kind == 'c':
        return [complex(float(x[0]), float(x[1])) for x in flat]
    raise ValueError(kind)


def _jkey(c):
    return json.dumps(c, sort_keys=True)


# ------------------------------------------------------------------ canon


def canon(s):
    t = s[0]
    if t in ('none', 'ellipsis'):
        return [t]
    if t == 'bool':
        return [t, bool(s[1])]
    if t == 'int':
        return [t, int(s[1])]
    if t == 'float':
        return [t, frepr(float(s[1]))]
    if t == 'complex':
        return [t, frepr(float(s[1])), frepr(float(s[2]))]
    if t in ('str', 'bytes', 'type', 'hfsrc', 'ufunc', 'mesh'):
        return [t, s[1]]
    if t in ('tuple', 'list'):
        return [t, [canon(i) for i in s[1]]]
    if t in ('set', 'frozenset', 'frozenmultiset'):
        return [t, sorted((canon(i) for i in s[1]), key=_jkey)]
    if t in ('dict', 'frozendict'):
        return [t, sorted(([canon(k), canon(v)] for k, v in s[1]), key=_jkey)]
    if t == 'ndarray':
        dt = numpy.dtype(s[1])
        return [t, dt.str, [int(n) for n in s[2]], _canon_flat(dt.kind, s[3])]
    if t == 'arraydata':
        return [t, s[1], [int(n) for n in s[2]], _canon_flat(KINDCHAR[s[1]], s[3])]
    if t == 'hfunc':
        return [t, canon(s[1])]
    if t == 'obj':
        return [t, s[1], [[p, canon(a)] for p, a in s[2]]]
    if t == 'inst':
        return [t, s[1], [[p, canon(a)] for p, a in s[2]]]
    if t == 'method':
        return [t, canon(s[1]), s[2]]
    if t == 'bytesio':
        return [t, s[1], int(s[2])]
    if t == 'si':
        return [t, s[1], frepr(float(s[2]))]
    raise ValueError('unknown spec {!r}'.format(s))


def ckey(s):
    return _jkey(canon(s))


def family(s):
    return s[0]


# ------------------------------------------------------------------ readable rendering


def expr(s):
    'short pseudo-Python rendering of a spec (for messages; contains no addresses)'
    t = s[0]
    if t == 'none': return 'None'
    if t == 'ellipsis': return '...'
    if t == 'bool': return repr(bool(s[1]))
    if t == 'int': return repr(int(s[1]))
    if t == 'float':
        return s[1] if s[1] not in ('nan', 'inf', '-inf') else "float('{}')".format(s[1])
    if t == 'complex': return 'complex({},{})'.format(s[1], s[2])
    if t == 'str': return repr(s[1])
    if t == 'bytes': return repr(bytes.fromhex(s[1]))
    if t == 'type': return '<class {}>'.format(s[1])
    if t == 'tuple': return '(' + ', '.join(map(expr, s[1])) + (',)' if len(s[1]) == 1 else ')')
    if t == 'list': return '[' + ', '.join(map(expr, s[1])) + ']'
    if t == 'set': return '{' + ', '.join(map(expr, s[1])) + '}' if s[1] else 'set()'
    if t == 'frozenset': return 'frozenset({' + ', '.join(map(expr, s[1])) + '})'
    if t == 'dict': return '{' + ', '.join('{}: {}'.format(expr(k), expr(v)) for k, v in s[1]) + '}'
    if t == 'ndarray': return 'ndarray(dtype={!r}, shape={}, data={})'.format(s[1], tuple(s[2]), s[3])
    if t == 'arraydata': return 'arraydata({} shape={} data={})'.format(s[1], tuple(s[2]), s[3])
    if t == 'frozendict': return 'frozendict({' + ', '.join('{}: {}'.format(expr(k), expr(v)) for k, v in s[1]) + '})'
    if t == 'frozenmultiset': return 'frozenmultiset([' + ', '.join(map(expr, s[1])) + '])'
    if t == 'hfunc': return 'hashable_function({})(f)'.format(expr(s[1]))
    if t == 'hfsrc': return 'hashable_function({})'.format(s[1])
    if t == 'ufunc': return 'util.function({!r})'.format(s[1])
    if t == 'obj': return '{}({})'.format(s[1], ', '.join('{}={}'.format(p, expr(a)) for p, a in s[2]))
    if t == 'inst': return '{}({})'.format(s[1], ', '.join('{}={}'.format(p, expr(a)) for p, a in s[2]))
    if t == 'method': return '{}.{}'.format(expr(s[1]), s[2])
    if t == 'bytesio': return 'BytesIO({!r}) at {}'.format(bytes.fromhex(s[1]), s[2])
    if t == 'si': return 'SI.{}({} base units)'.format(s[1], s[2])
    if t == 'mesh': return 'mesh-object[{}]'.format(s[1])
    return json.dumps(s)


# ------------------------------------------------------------------ atoms: variants

_INT_TYPES = ('int64', 'int32', 'int16', 'int8', 'longlong', 'intc')


def _int_variants(n):
    out = [lambda: int(n)]
    for name in _INT_TYPES:
        info = numpy.iinfo(name)
        if info.min <= n <= info.max:
            out.append(lambda name=name: getattr(numpy, name)(n))
    return out


def _exact(npt, x):
    with numpy.errstate(all='ignore'):
        y = float(npt(x))
    return x != x or (y == x and math.copysign(1., y) == math.copysign(1., x))


def _float_variants(x):
    out = [lambda: float(x), lambda: numpy.float64(x)]
    for npt in (numpy.float32, numpy.float16):
        if _exact(npt, x):
            out.append(lambda npt=npt: npt(x))
    out.append(lambda: numpy.longdouble(x))
    if x != x:
        out.append(lambda: -float('nan'))
        out.append(lambda: struct.unpack('<d', bytes.fromhex('010000000000f87f'))[0])  # NaN with a payload
        out.append(lambda: numpy.float64('nan') * 1)
    return out


def _complex_variants(z):
    out = [lambda: complex(z), lambda: numpy.complex128(z), lambda: numpy.clongdouble(z)]
    if _exact(numpy.float32, z.real) and _exact(numpy.float32, z.imag):
        out.append(lambda: numpy.complex64(z))
    return out


def _types():
    from . import c17_classes as K
    return {'bool': bool, 'int': int, 'float': float, 'complex': complex, 'str': str, 'bytes': bytes, 'tuple': tuple, 'list': list,
            'dict': dict, 'set': set, 'frozenset': frozenset, 'NoneType': type(None), 'type': type, 'object': object,
            'numpy.bool_': numpy.bool_, 'numpy.int64': numpy.int64, 'numpy.float64': numpy.float64, 'numpy.complex128': numpy.complex128,
            'numpy.ndarray': numpy.ndarray, 'K.Twin1': K.Twin1, 'K.Twin2': K.Twin2, 'K.FakeInt': K.FakeInt,
            'K.Pt1': K.Pt1, 'K.Pt2': K.Pt2, 'K.Pq': K.Pq}


def _inst_classes():
    from . import c17_classes as K
    from nutils import solver
    return {'K.Pt1': K.Pt1, 'K.Pt2': K.Pt2, 'K.Pq': K.Pq, 'K.NT1': K.NT1, 'K.NT2': K.NT2, 'K.NU': K.NU,
            'solver.NormBased': solver.NormBased, 'solver.MedianBased': solver.MedianBased}


# ------------------------------------------------------------------ ndarray / arraydata variants


def _nd_base(dtype, shape, flat):
    dt = numpy.dtype(dtype)
    native = dt.newbyteorder('=')
    a = numpy.array(_decode_flat(dt.kind, flat), dtype=native).reshape(shape)
    return numpy.ascontiguousarray(a.astype(dt)).reshape(shape)


def _nd_variant(a, k):
    'the same array (shape, dtype, elements) in a different memory layout'
    k %= 6
    shape, dt = a.shape, a.dtype
    if k == 0:
        return a
    if k == 1:
        return a.copy(order='F')
    if k == 2:  # strided view into a larger buffer
        if a.ndim == 0:
            big = numpy.zeros(3, dt)
            big[1] = a
            return big[1:2].reshape(())
        big = numpy.zeros(shape[:-1] + (2 * shape[-1] + 1,), dt)
        big[..., 1::2] = a
        return big[..., 1::2]
    if k == 3:  # negative strides
        if a.ndim == 0:
            return a.copy()
        return a[::-1].copy()[::-1]
    if k == 4:  # read-only
        b = a.copy()
        b.setflags(write=False)
        return b
    if k == 5:  # unaligned buffer
        buf = bytearray(1 + a.nbytes)
        b = numpy.frombuffer(buf, dtype=dt, count=a.size, offset=1).reshape(shape)
        b[...] = a
        return b


def _ad_sources(kind, shape, flat):
    'array-likes that all denote the same array data (native dtype `kind`, shape, elements)'
    native = {'bool': numpy.dtype(bool), 'int': numpy.dtype(int), 'float': numpy.dtype(float), 'complex': numpy.dtype(complex)}[kind]
    a = numpy.array(_decode_flat(KINDCHAR[kind], flat), dtype=native).reshape(shape)
    out = [('native', lambda: a)]
    if a.size:
        out.append(('list', lambda: a.tolist()))
    narrow = []
    if kind == 'int':
        for name in ('int32', 'int16', 'int8', 'uint8', 'uint16', 'uint64'):
            info = numpy.iinfo(name)
            if not a.size or (info.min <= a.min() and a.max() <= info.max):
                narrow.append(name)
    elif kind == 'float':
        with numpy.errstate(all='ignore'):
            for name in ('float32', 'float16'):
                b = a.astype(name).astype(float)
                if (b == a).all() and (numpy.signbit(b) == numpy.signbit(a)).all():  # arraydata rejects NaN in non-native float arrays (loudly): not a route
                    narrow.append(name)
        if not (a != a).any():
            narrow.append('longdouble')
    elif kind == 'complex':
        with numpy.errstate(all='ignore'):
            b = a.astype('complex64').astype(complex)
            if (b == a).all() and (numpy.signbit(b.real) == numpy.signbit(a.real)).all() and (numpy.signbit(b.imag) == numpy.signbit(a.imag)).all():
                narrow.append('complex64')
    for name in narrow:
        out.append((name, lambda name=name: a.astype(name)))
    if native.itemsize > 1 and not (a != a).any():
        out.append(('bigendian', lambda: a.astype(native.newbyteorder('>'))))
    out.append(('fortran-negstride', lambda: _nd_variant(a.copy(order='F'), 3)))
    out.append(('strided', lambda: _nd_variant(a, 2)))
    out.append(('readonly', lambda: _nd_variant(a, 4)))
    return out, a


def _build_arraydata(s, k):
    from nutils import types
    kind, shape, flat = s[1], tuple(s[2]), s[3]
    sources, a = _ad_sources(kind, shape, flat)
    n = len(sources)
    k %= n + 2
    if k < n:
        return types.arraydata(sources[k][1]())
    if k == n:
        return types.arraydata(types.arraydata(a))
    return types.arraydata(a.reshape(-1)).reshape(*shape)


def arraydata_nvariants(s):
    return len(_ad_sources(s[1], tuple(s[2]), s[3])[0]) + 2


# ------------------------------------------------------------------ builder

_NVAR_FIXED = {'none': 1, 'ellipsis': 1, 'bool': 2, 'str': 2, 'bytes': 1, 'type': 1, 'tuple': 1, 'list': 1, 'set': 2, 'frozenset': 2, 'dict': 2,
               'ndarray': 6, 'frozendict': 4, 'frozenmultiset': 5, 'hfunc': 4, 'hfsrc': 1, 'ufunc': 1, 'inst': 2, 'method': 1, 'bytesio': 2, 'si': 2}


def nvariants(s):
    'number of distinct uniform variants worth building for this spec'
    t = s[0]
    if t == 'int':
        return len(_int_variants(int(s[1])))
    if t == 'float':
        return len(_float_variants(float(s[1])))
    if t == 'complex':
        return len(_complex_variants(complex(float(s[1]), float(s[2]))))
    if t == 'arraydata':
        return arraydata_nvariants(s)
    if t == 'obj':
        from .c17_objects import obj_nvariants
        return max([obj_nvariants(s)] + [nvariants(a) for p, a in s[2]])
    if t == 'mesh':
        from .c17_objects import mesh_nvariants
        return mesh_nvariants(s)
    n = _NVAR_FIXED[t]
    if t in ('tuple', 'list', 'set', 'frozenset', 'frozenmultiset'):
        return max([n] + [nvariants(i) for i in s[1]])
    if t in ('dict', 'frozendict'):
        return max([n] + [max(nvariants(k), nvariants(v)) for k, v in s[1]])
    if t == 'hfunc':
        return max(n, nvariants(s[1]))
    if t == 'inst':
        return max([n] + [nvariants(a) for p, a in s[2]])
    if t == 'method':
        return nvariants(s[1])
    return n


def build(s, k=0, py=False):
    '''py=True: numeric atoms are built as plain Python objects (inside nutils constructors, which insist on
    Python ints/bools/floats); the other nodes still vary with k'''
    t = s[0]
    ka = 0 if py else k
    if t == 'none':
        return None
    if t == 'ellipsis':
        return Ellipsis
    if t == 'bool':
        return (bool(s[1]), numpy.bool_(s[1]))[ka % 2]
    if t == 'int':
        v = _int_variants(int(s[1]))
        return v[ka % len(v)]()
    if t == 'float':
        v = _float_variants(float(s[1]))
        return v[ka % len(v)]()
    if t == 'complex':
        v = _complex_variants(complex(float(s[1]), float(s[2])))
        return v[ka % len(v)]()
    if t == 'str':
        return s[1] if k % 2 == 0 else ''.join(list(s[1]))  # a fresh, non-interned str object
    if t == 'bytes':
        return bytes.fromhex(s[1])
    if t == 'type':
        return _types()[s[1]]
    if t == 'tuple':
        return tuple(build(i, k, py) for i in s[1])
    if t == 'list':
        return [build(i, k, py) for i in s[1]]
    if t in ('set', 'frozenset'):
        items = [build(i, k, py) for i in s[1]]
        if k % 2:
            items.reverse()
        out = set()
        for i in items:
            out.add(i)
        if len(out) != len(items):
            raise ValueError('spec lists Python-equal set members: {}'.format(expr(s)))
        return out if t == 'set' else frozenset(out)
    if t == 'dict':
        pairs = [(build(a, k, py), build(b, k, py)) for a, b in s[1]]
        if k % 2:
            pairs.reverse()
        out = {}
        for a, b in pairs:
            out[a] = b
        if len(out) != len(pairs):
            raise ValueError('spec lists Python-equal dict keys: {}'.format(expr(s)))
        return out
    if t == 'ndarray':
        return _nd_variant(_nd_base(s[1], tuple(s[2]), s[3]), k)
    if t == 'arraydata':
        return _build_arraydata(s, k)
    if t == 'frozendict':
        from nutils import types
        pairs = [(build(a, k, py), build(b, k, py)) for a, b in s[1]]
        if k % 2:
            pairs.reverse()
        if k % 4 < 2:
            return types.frozendict(dict(pairs))
        if k % 4 == 2:
            return types.frozendict(pairs)  # iterable of pairs
        return types.frozendict(types.frozendict(dict(pairs)))
    if t == 'frozenmultiset':
        from nutils import types
        items = [build(i, k, py) for i in s[1]]
        k5 = k % 5
        if k5 == 1:
            items.reverse()
        if k5 == 2:
            return types.frozenmultiset(tuple(items))
        if k5 == 3:
            return types.frozenmultiset(i for i in items)
        if k5 == 4:
            h = len(items) // 2
            return types.frozenmultiset(items[h:]) | types.frozenmultiset(items[:h])
        return types.frozenmultiset(items)
    if t == 'hfunc':
        from . import c17_classes as K
        if k % 4 >= 2 and canon(s[1]) == ['str', 'ident-a']:
            return K.Holder.meth if k % 4 == 2 else K.Holder().meth  # used as a "method": behaves like a staticmethod
        return K.hf(build(s[1], k, py), k)
    if t == 'hfsrc':
        from . import c17_classes as K
        return getattr(K, s[1]) if '.' not in s[1] else getattr(getattr(K, s[1].split('.')[0]), s[1].split('.')[1])
    if t == 'ufunc':
        from nutils import _util
        return _util.function(s[1])
    if t == 'obj':
        from .c17_objects import build_obj
        return build_obj(s, k, build, py)
    if t == 'inst':
        cls = _inst_classes()[s[1]]
        kc = k % 2 if s[1].startswith('solver.') else k  # the strategy dataclasses insist on float instances (float64 is one)
        vals = [(p, build(a, kc, py)) for p, a in s[2]]
        return cls(*[v for p, v in vals]) if k % 2 == 0 else cls(**dict(reversed(vals)))
    if t == 'method':
        return getattr(build(s[1], k, py), s[2])
    if t == 'bytesio':
        data, pos = bytes.fromhex(s[1]), int(s[2])
        if k % 2 == 0:
            f = io.BytesIO(data)
            f.seek(pos)
        else:
            f = io.BytesIO()
            f.write(data[pos:])
            f.seek(0)
            f.write(data)
            f.seek(pos)
        return f
    if t == 'si':
        from .c17_objects import build_si
        return build_si(s, k)
    if t == 'mesh':
        from .c17_objects import build_mesh
        return build_mesh(s, k)
    raise ValueError('unknown spec {!r}'.format(s))


# ------------------------------------------------------------------ canon of a runtime value (harness self check)


def vcanon(v):
    '''structure of a plain runtime value, type exact up to the documented numpy
    scalar normalisation; None for values this function does not cover'''
    if v is None:
        return ['none']
    if v is Ellipsis:
        return ['ellipsis']
    if isinstance(v, (bool, numpy.bool_)):
        return ['bool', bool(v)]
    if isinstance(v, numpy.integer) or type(v) is int:
        return ['int', int(v)]
    if isinstance(v, numpy.floating) or type(v) is float:
        return ['float', frepr(float(v))]
    if isinstance(v, numpy.complexfloating) or type(v) is complex:
        v = complex(v)
        return ['complex', frepr(v.real), frepr(v.imag)]
    if type(v) is str:
        return ['str', v]
    if type(v) is bytes:
        return ['bytes', v.hex()]
    if type(v) in (tuple, list):
        items = [vcanon(i) for i in v]
        return None if any(i is None for i in items) else [type(v).__name__, items]
    if type(v) in (set, frozenset):
        items = [vcanon(i) for i in v]
        return None if any(i is None for i in items) else [type(v).__name__, sorted(items, key=_jkey)]
    if type(v) is dict:
        items = [[vcanon(a), vcanon(b)] for a, b in v.items()]
        return None if any(a is None or b is None for a, b in items) else ['dict', sorted(items, key=_jkey)]
    if type(v) is numpy.ndarray:
        flat = v.reshape(-1).tolist() if v.ndim else [v[()].item()]
        if v.dtype.kind == 'c':
            flat = [[z.real, z.imag] for z in flat]
        return ['ndarray', v.dtype.str, list(v.shape), _canon_flat(v.dtype.kind, flat)]
    from nutils import types
    if type(v) is types.arraydata:
        a = numpy.frombuffer(v.bytes, dtype=v.dtype).reshape(v.shape)
        flat = a.reshape(-1).tolist()
        kind = v.dtype.__name__
        if kind == 'complex':
            flat = [[z.real, z.imag] for z in flat]
        return ['arraydata', kind, list(v.shape), _canon_flat(KINDCHAR[kind], flat)]
    if type(v) is types.frozendict:
        items = [[vcanon(a), vcanon(b)] for a, b in v.items()]
        return None if any(a is None or b is None for a, b in items) else ['frozendict', sorted(items, key=_jkey)]
    if type(v) is types.frozenmultiset:
        items = [vcanon(i) for i in v]
        return None if any(i is None for i in items) else ['frozenmultiset', sorted(items, key=_jkey)]
    return None


# ------------------------------------------------------------------ which routes exist for a spec

_UNPICKLABLE_TYPES = ('K.Twin1', 'K.Twin2', 'K.FakeInt', 'K.Pt1', 'K.Pt2')
_UNPICKLABLE_INST = ('K.Pt1', 'K.Pt2', 'K.NT1', 'K.NT2')


def _children(s):
    t = s[0]
    if t in ('tuple', 'list', 'set', 'frozenset', 'frozenmultiset'):
        return list(s[1])
    if t in ('dict', 'frozendict'):
        return [x for kv in s[1] for x in kv]
    if t in ('obj', 'inst'):
        return [a for p, a in s[2]]
    if t in ('hfunc', 'method'):
        return [s[1]]
    return []


def pickle_ok(s):
    '''False where the pickle round trip is not a structure preserving route for
    reasons outside nutils: classes that are not importable by name, numpy
    normalising the byte order of pickled arrays, functions, open files, and
    plain objects that define no pickling of their own'''
    t = s[0]
    if t == 'type' and s[1] in _UNPICKLABLE_TYPES:
        return False
    if t == 'inst' and s[1] in _UNPICKLABLE_INST:
        return False
    if t == 'ndarray' and numpy.dtype(s[1]).byteorder == '>':
        return False
    if t in ('hfunc', 'hfsrc', 'ufunc', 'mesh'):
        return t == 'mesh'
    return all(pickle_ok(c) for c in _children(s))


def routes(s):
    return ['v{}'.format(k) for k in range(nvariants(s))] + (['pickle'] if pickle_ok(s) else [])


def build_route(s, route):
    if route == 'pickle':
        return pickle.loads(pickle.dumps(build(s, 0)))
    return build(s, int(route[1:]))


_ND_LAYOUTS = ['c-contiguous', 'fortran', 'strided-view', 'negative-strides', 'read-only', 'unaligned']
_OBJ_CALLS = ['positional', 'keyword', 'positional-defaults-omitted', 'keyword-defaults-omitted']


def variant_label(s, route):
    'name of what the route changes at node s (root-cause part of a violation key)'
    if not route.startswith('v'):
        return route
    k = int(route[1:])
    t = s[0]
    if t in ('bool', 'int', 'float', 'complex'):
        return 'numpy-scalar'
    if t in ('set', 'frozenset', 'dict'):
        return 'insertion-order'
    if t == 'ndarray':
        return _ND_LAYOUTS[k % 6]
    if t == 'arraydata':
        src = _ad_sources(s[1], tuple(s[2]), s[3])[0]
        k %= len(src) + 2
        return 'from-' + (src[k][0] if k < len(src) else ('arraydata', 'reshape')[k - len(src)])
    if t == 'obj':
        from .c17_objects import obj_nvariants
        k %= obj_nvariants(s)
        return _OBJ_CALLS[k] if k < 4 else 'alternative-constructor-{}'.format(k - 4)
    if t == 'inst':
        return ('positional', 'keyword')[k % 2]
    if t == 'frozendict':
        return ('dict', 'dict-reversed', 'pairs', 'frozendict-reversed')[k % 4]
    if t == 'frozenmultiset':
        return ('list', 'reversed', 'tuple', 'generator', 'union')[k % 5]
    return 'variant{}'.format(k % max(1, _NVAR_FIXED.get(t, 1)))
