'''C03 - compiled functions are pure functions of their arguments across calls.

Explicit-state search on REAL compiled functions: for each program the compiled function (default settings:
simplified, optimised, cache_const_intermediates) is driven through every event sequence up to depth 4 over the menu
  call(A0)  call(A1)  call(A2: one argument changed)  scribble (overwrite every writable array returned so far)
States are the hidden state of the function object (first_run flag + digests of the cached c*/v* globals) together
with the set of calls made; a state reached before is not expanded again.  After every call the result is compared
with what a FRESH compile returns for the same arguments and with the numpy reference; arguments are passed as
read-only arrays and compared with their originals afterwards.  The same explorer drives the long-lived compiled
functions of solver.System (assemble_*) and function.Basis (get_dofs / get_coefficients / get_ndofs).
'''

import itertools, json, hashlib
import numpy
from .. import core, terms as T, irspace, irtools, loopspace as LS

LEVEL = 'model_checking'
RULE = ('programs = terms over argument AND constant leaves (depth<=1 all constructors; depth 2 over the rewrite core + add/multiply/insertaxis), the '
        'loop grammar and tuples; per program breadth-first search over event sequences {call(A0),call(A1),call(A2),scribble} to depth 4 (thorough 5; quick: 3 for depth-2 terms, which use 6 of the 10 leaves, and for the adjacent-loop family) with '
        'deduplication on the hidden state of the compiled function; every transition is executed on the real function. non-trivial = distinct '
        '(program, state) pairs reached after at least one call in which the function holds cached intermediates or has returned a writable array')
ASSUMPTIONS = ['a fresh evaluable.compile of the same expression is the specification of every call (differential) plus the numpy reference interpreter',
               'scribbling is restricted to arrays whose writeable flag is set (what a user can overwrite without forcing flags)']
BUDGET_S = {'quick': 420, 'thorough': 5000}
DEPTH = {'quick': 4, 'thorough': 5}

CM_LEAVES = [T.A('a', (2,)), T.A('A', (2, 2)), ('const', ((1., 2.), 'f')), ('const', (((1., 2.), (3., 4.)), 'f')), ('ones', ((2, 2), 'f')),
             ('tofloat', (), ('range', (2,))), T.A('s', ()), T.A('b', (3,)), ('const', ((1., 2., 3.), 'f')),
             ('add', (), ('range', (2,)), T.A('i', (), 'i'))]   # run-time offset: Take(const, Range(2)+i) becomes a slice VIEW of a cached constant
irspace.LEAFSETS['cm'] = CM_LEAVES
irspace.LEAFSETS['cm-small'] = [CM_LEAVES[i] for i in (0, 1, 2, 3, 6, 9)]
PROFILES = {
    'quick': [{'name': 'cm-d1', 'leaves': 'cm', 'consts': False, 'ops': 'all', 'depth': 1},
              # depth 2 over 6 of the 10 leaves (arguments a, A, s, two constants, the run-time offset index)
              {'name': 'cm-d2', 'leaves': 'cm-small', 'consts': False, 'ops': sorted(set(T.CORE) | {'add', 'multiply', 'insertaxis', 'guard', 'exp'}), 'depth': 2}],
    'thorough': [{'name': 'cm-d2', 'leaves': 'cm', 'consts': False, 'ops': 'all', 'depth': 2}],
}
NPARTS = {'quick': {1: 2, 2: 60}, 'thorough': {1: 4, 2: 400}}
LOOP_CHUNK = 60
EVENTS = ['c0', 'c1', 'c2', 's']


def shards(tier, seed):
    out = [{'kind': 'system', 'case': i} for i in range(len(system_cases()))] + [{'kind': 'basis'}]
    n = len(LS.programs(tier))
    for lo in range(0, n, LOOP_CHUNK):
        out.append({'kind': 'loops', 'lo': lo, 'hi': min(n, lo + LOOP_CHUNK)})
    for s in irspace.shards(PROFILES[tier], NPARTS[tier]):
        s['kind'] = 'terms'
        out.append(s)
    return out


def make_envs(args):
    'three argument dictionaries: A0, A1 (everything different), A2 (= A0 with one argument changed)'
    base = T.valuations(args, nsets=2, exhaustive_int=False)
    if not base:
        return [{}, {}, {}]
    e0 = base[0]
    e1 = base[-1] if len(base) > 1 else base[0]
    e2 = dict(e0)
    if args:
        n = sorted(args)[0]
        e2[n] = e1[n] if not numpy.array_equal(e1[n], e0[n]) else e0[n]
    return [e0, e1, e2]


def hidden_state(f):
    'digest of what the compiled function keeps between calls'
    g = f.__globals__
    h = hashlib.sha1()
    h.update(repr(g.get('first_run')).encode())
    n = 0
    for k in sorted(g):
        v = g[k]
        if isinstance(v, numpy.ndarray) and (k.startswith('v') or k.startswith('c')):
            h.update(k.encode() + v.dtype.str.encode() + repr(v.shape).encode() + numpy.ascontiguousarray(v).tobytes())
            n += k.startswith('v')
    return h.hexdigest()[:16], n


def flat(r):
    if isinstance(r, (tuple, list)):
        for x in r:
            yield from flat(x)
    else:
        yield r


def same(v, r):
    if isinstance(r, (tuple, list)):
        return isinstance(v, (tuple, list)) and len(v) == len(r) and all(same(a, b) for a, b in zip(v, r))
    v = numpy.asarray(v); r = numpy.asarray(r)
    if v.shape != r.shape or irtools.kind_of(v) != irtools.kind_of(r):
        return False
    return irtools.close(v, r, irtools.kind_of(r))


def frozen(env):
    out = {}
    for k, v in env.items():
        a = numpy.array(v)
        a.setflags(write=False)
        out[k] = a
    return out


def run_history(make_f, envs, expected, hist):
    '''replay a history on a fresh function; returns (f, returned, failure or None)'''
    f = make_f()
    returned = []
    for i, ev in enumerate(hist):
        if ev == 's':
            for arr in returned:
                if isinstance(arr, numpy.ndarray) and arr.flags.writeable and arr.size:
                    arr[...] = numpy.nan if arr.dtype.kind in 'fc' else 77 if arr.dtype.kind in 'iu' else True
            continue
        k = int(ev[1])
        env = frozen(envs[k])
        try:
            with numpy.errstate(all='ignore'):
                r = f(env)
        except Exception as e:
            return f, returned, ('call-raised', 'event {} of {}: call raised {!r} (a fresh function evaluates fine)'.format(i, hist, e)[:400])
        for name in env:
            if not numpy.array_equal(env[name], envs[k][name], equal_nan=True):
                return f, returned, ('argument-modified', 'event {} of {}: argument {} was modified'.format(i, hist, name))
        if not same(r, expected[k]):
            return f, returned, ('stale-result', 'event {} of {}: returned {} but a fresh function returns {}'.format(
                i, hist, [irtools.describe(x) for x in flat(r)], [irtools.describe(x) for x in flat(expected[k])])[:600])
        returned.extend(flat(r))
    return f, returned, None


def explore(make_f, envs, expected, depth, res, tag=''):
    'BFS over histories with deduplication on (hidden state, calls made so far, any writable array outstanding)'
    seen = set()
    frontier = [[]]
    for d in range(depth):
        nxt = []
        for hist in frontier:
            for ev in EVENTS:
                if ev == 's' and (not hist or hist[-1] == 's'):
                    continue
                h2 = hist + [ev]
                f, returned, fail = run_history(make_f, envs, expected, h2)
                res.count('transitions')
                res.count('evaluations')
                res.count('traces_validated_against_impl')
                if fail:
                    return h2, fail
                hs, ncached = hidden_state(f)
                outstanding = any(isinstance(a, numpy.ndarray) and a.flags.writeable for a in returned) and h2[-1] != 's'
                key = (hs, frozenset(e for e in h2 if e != 's'), outstanding, h2[-1])
                if key in seen:
                    continue
                seen.add(key)
                res.count('states')
                if ncached or outstanding:
                    res.distinct('distinct_nontrivial', repr(key) + tag)
                nxt.append(h2)
        frontier = nxt
    return None, None


def check_program(prog, depth, res=None, hist=None):
    'returns None or (kind, what, history)'
    from nutils import evaluable
    try:
        node = LS.build(prog)
    except Exception as e:
        return ('build', repr(e)[:200], None)
    if not irtools.simplifies(node):
        return None
    args = LS.arguments(prog)
    envs = make_envs(args)
    expected = []
    for env in envs:
        try:
            ref = LS.ref(prog, env)
        except T.OutOfDomain:
            return None
        try:
            with numpy.errstate(all='ignore'):
                fresh = evaluable.compile(node)(env)
        except Exception:
            return None
        if not same(fresh, ref) or not all(numpy.isfinite(numpy.asarray(x, dtype=complex)).all() for x in flat(ref)):
            return None  # C02's business / out of domain
        expected.append(fresh)
    make_f = lambda: evaluable.compile(node)
    if hist is not None:
        f, returned, fail = run_history(make_f, envs, expected, hist)
        return None if fail is None else fail + (hist,)
    if res is None:
        res = core.ShardResult()
    h, fail = explore(make_f, envs, expected, depth, res, LS.show(prog))
    if fail:
        return fail + (h,)
    return None


def _one(prog, depth, res):
    res.count('programs')
    try:
        fail = check_program(prog, depth, res)
    except T.IllTyped:
        return
    if fail is None:
        return
    if fail[0] == 'build':
        res.count('build_errors')
        return
    from .c02 import abstract_prog
    res.violation('{}:{}'.format(fail[0], abstract_prog(prog))[:300], '{} :: {}'.format(LS.show(prog), fail[1]), {'program': LS.to_json(prog), 'history': fail[2]})


# ------------------------------------------------------------------ long-lived compiled functions

def system_cases():
    return [{'sys': s, 'cons': c} for s in ('linear', 'nonlinear', 'symmetric') for c in (0, 1, 2)]


def _make_system(name):
    from nutils import mesh, function, solver
    dom, geom = mesh.rectilinear([2])
    basis = dom.basis('std', degree=1)
    u = function.dotarg('u', basis)
    v = function.dotarg('v', basis)
    J = function.J(geom)
    f = function.Argument('f', ())
    if name == 'linear':
        res = dom.integral((function.grad(u, geom)[0] * function.grad(v, geom)[0] + u * v - f * v) * J, degree=2)
        return solver.System(res, trial='u', test='v')
    if name == 'nonlinear':
        res = dom.integral((function.grad(u, geom)[0] * function.grad(v, geom)[0] + u ** 3 * v - f * v) * J, degree=4)
        return solver.System(res, trial='u', test='v')
    en = dom.integral((.5 * function.grad(u, geom)[0] ** 2 + .25 * u ** 4 - f * u) * J, degree=4)
    return solver.System(en, trial='u')


def check_system(case, depth=3):
    'all sequences of assemble calls (methods x argument sets) to the given depth on ONE System vs a fresh System per call'
    S = _make_system
    argsets = [{'u': numpy.array([.5, -1., 2.]), 'f': 1.5}, {'u': numpy.array([1., 0., -.25]), 'f': -2.}]
    nanpat = [numpy.array([0., 0., 0.]), numpy.array([numpy.nan, 0., 0.]), numpy.array([0., numpy.nan, numpy.nan])][case['cons']]
    methods = ['assemble_jacobian', 'assemble_residual', 'assemble_jacobian_residual'] + (['assemble_value', 'assemble_jacobian_residual_value'] if case['sys'] == 'symmetric' else [])

    def call(system, m, a):
        args = dict(argsets[a])
        free = numpy.isnan(nanpat)
        args['u'] = numpy.where(free, numpy.nan, args['u'])
        x = argsets[a]['u'][free]
        out = getattr(system, m)(args, x)
        out = out if isinstance(out, tuple) else (out,)
        # a Matrix is an object, not a returned array: its dense export (which may alias the matrix' own storage) is copied, so only
        # genuinely returned arrays (residual vectors, values) are scribbled over below
        return [o.export('dense').copy() if hasattr(o, 'export') else numpy.asarray(o) for o in out]
    n = 0
    events = [(m, a) for m in methods for a in (0, 1)]
    for d in range(1, depth + 1):
        for hist in itertools.product(events, repeat=d):
            system = S(case['sys'])
            for i, (m, a) in enumerate(hist):
                got = call(system, m, a)
                want = call(S(case['sys']), m, a)
                n += 1
                if len(got) != len(want) or not all(g.shape == w.shape and numpy.allclose(g, w, rtol=1e-12, atol=1e-12) for g, w in zip(got, want)):
                    return n, 'System {} constraints {}: after {} call {} returned {} but a fresh System returns {}'.format(case['sys'], case['cons'], list(hist[:i]), (m, a), [g.tolist() for g in got], [w.tolist() for w in want])
                for g in got:
                    if g.flags.writeable and g.size:
                        g[...] = numpy.nan  # scribble over what was returned
    return n, None


def basis_cases():
    return [{'btype': b, 'degree': d, 'topo': t} for b, d in (('std', 1), ('std', 2), ('spline', 2), ('discont', 1)) for t in ('line3', 'rect2x2')]


def check_basis(case, depth=3):
    from nutils import mesh
    mk = (lambda: mesh.line(3)) if case['topo'] == 'line3' else (lambda: mesh.rectilinear([2, 2]))
    make = lambda: mk()[0].basis(case['btype'], degree=case['degree'])
    fresh = make()
    nelems = len(mk()[0])
    want = {('dofs', i): numpy.array(fresh.get_dofs(i)) for i in range(nelems)}
    want.update({('coeffs', i): numpy.array(fresh.get_coefficients(i)) for i in range(nelems)})
    events = sorted(want)
    n = 0
    for d in range(1, depth + 1):
        for hist in itertools.product(events, repeat=d):
            if len(set(hist)) < len(hist) - 1:
                continue
            b = make()
            for i, (kind, ielem) in enumerate(hist):
                got = b.get_dofs(ielem) if kind == 'dofs' else b.get_coefficients(ielem)
                n += 1
                if numpy.shape(got) != want[kind, ielem].shape or not numpy.allclose(got, want[kind, ielem]):
                    return n, 'basis {}: after {} call {} returned {} instead of {}'.format(case, list(hist[:i]), (kind, ielem), numpy.asarray(got).tolist(), want[kind, ielem].tolist())
                got = numpy.asarray(got)
                if got.flags.writeable and got.size:
                    got[...] = 77
            if b.ndofs != fresh.ndofs:
                return n, 'basis {}: ndofs changed to {}'.format(case, b.ndofs)
    return n, None


def run_shard(spec, tier, seed):
    irtools.quiet()
    res = core.ShardResult()
    depth = DEPTH[tier]
    if spec['kind'] in ('system', 'basis'):
        cases, chk = (system_cases(), check_system) if spec['kind'] == 'system' else (basis_cases(), check_basis)
        if 'case' in spec:
            cases = cases[spec['case']:spec['case'] + 1]
        for c in cases:
            res.count('programs')
            try:
                n, fail = chk(c, 2 if tier == 'quick' else 3)
            except Exception as e:
                n, fail = 1, 'raised {!r}'.format(e)[:400]
            res.count('evaluations', n)
            res.count('transitions', n)
            res.count('states', n)
            res.count('traces_validated_against_impl', n)
            if fail:
                res.violation('{}:{}'.format(spec['kind'], json.dumps(c)), fail, {spec['kind']: c})
            else:
                res.distinct('distinct_nontrivial', json.dumps(c))
        res.sample({spec['kind']: cases[0]})
        return res
    last = None
    if spec['kind'] == 'loops':
        for fam, prog in LS.programs(tier)[spec['lo']:spec['hi']]:
            # quick: call/scribble histories of length 4 for single loops, nested loops and tuples, 3 for the 2.7 k adjacent-loop programs
            _one(prog, depth - 1 if tier == 'quick' and fam == 'p3' else depth, res)
            last = prog
    else:
        for term in irspace.shard_terms(spec['profile'], spec['level'], spec['part'], spec['nparts']):
            _one(term, depth - 1 if tier == 'quick' and spec['level'] == 2 else depth, res)
            last = term
    if last is not None and spec.get('part', 0) == 0:
        res.sample({'program': LS.show(last), 'events': EVENTS, 'depth': depth})
    return res


def replay(w):
    irtools.quiet()
    if 'system' in w:
        try:
            return check_system(w['system'])[1]
        except Exception as e:
            return 'raised {!r}'.format(e)[:400]
    if 'basis' in w:
        try:
            return check_basis(w['basis'])[1]
        except Exception as e:
            return 'raised {!r}'.format(e)[:400]
    fail = check_program(LS.from_json(w['program']), 0, hist=w['history'])
    if fail is None or fail[0] == 'build':
        return None
    return '{}: {}'.format(fail[0], fail[1])
