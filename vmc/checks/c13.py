'''C13 - argument manipulation commutes with evaluation.

Bounded exhaustive exploration of function-level programs: every body of a
small typed grammar over the arguments u,v,w:(2,) p:() (and the int argument
n:()), plain, inside an integral over a 2-element line, and inside a sample
loop; every replacement map of a fixed catalogue (constants, other arguments,
expressions, swaps, simultaneous shifts, chains and nested replacements);
EVERY documented spelling of the specification; linearize / derivative /
factor of every body; wrong-shape and wrong-dtype values at replace time and
at evaluation time.  The oracle is an environment-passing numpy interpreter
(c13_terms.ref) plus a static model of the documented contract
(c13_terms.model); see c13_judge.judge.
'''

import json
import numpy
from .. import core
from .. import c13_terms as T
from .. import c13_judge as J
from .. import c13_ndarg as ND

LEVEL = 'exploration'
RULE = ('bodies: all terms over leaves {u,v,w:(2,), p:(), const (2,)} with ops {neg,sq,sin,add,mul,sum,dot}: depth<=1 (56 bodies, under two naming '
        'schemes: single letters, and names that are substrings of each other), depth 2 (quick: binary nodes with one leaf operand, 922; thorough: '
        'all 5211), thorough depth 3 (one leaf operand per binary node, 15648, reduced catalogue); scalar integrands over {fld(u),fld(v),fld(w),p,x} '
        'with {neg,sq,sin,add,mul} of depth<=1 (43; thorough also depth 2 with one leaf operand, 560), each wrapped in an integral over a 2-element '
        'line and in sample.bind (loop concatenate); 14 bodies with the int argument n. For each body every map of the catalogue that touches its '
        'arguments (per key: const, fresh name, other argument, expression, self-referencing expression, expression containing an integral, value '
        'bound to the space; swaps, simultaneous shift in both orders, rotation, cross reference, two keys, ignored key, name conflicts; applied to the '
        'integrand as well as to the integral; 7 chain / nested forms: u->v then v->w, replacement inside a replaced expression, replaced subterm, '
        'replaced value, removed key, swap twice) in EVERY documented spelling (dict, "a:b,c:d", tuple/list of strings, list/tuple of pairs with '
        'str or Argument keys and str / Argument / Array / numpy / python values, alternating and mixed string-pair lists; 6-23 per map); linearize '
        'per key, for all keys, to names / arguments / expressions / constants in every spelling, second order, of a replaced body and replaced '
        'afterwards; derivative to every argument by name, object, method, and to an absent argument; factor of every body of polynomial degree<=3 '
        'on 3 valuations, derivative / linearize / replace of the factored form, factor of replaced bodies, rejection of non polynomials; all '
        'broadcast-compatible wrong shapes and int/float/bool dtype mismatches as replacement values (constants, Argument objects, expressions), '
        'as Argument-object keys, as directions, as derivative targets, and as values supplied at evaluation time (numpy and plain python) for plain, '
        'replaced, linearized, differentiated and factored bodies; family ndarg: argument SHAPES - every shape with 1..3 axes of lengths {1,2,3} plus '
        '5 shapes with 3-4 axes of different lengths (thorough: all 4-axis shapes over {1,2,3} and three longer ones) x 3 polynomial bodies x '
        '{derivative by name / object / to the scalar, second derivative, linearize, replace by an expression, swap} x {plain, factored} against '
        'closed forms. non-trivial = distinct (body, manipulation) whose reference value depends on at least '
        'one argument, or a distinct ill-typed request (it reaches a validation rule)')
ASSUMPTIONS = ['numpy evaluation with environment passing is the reference semantics of replace (simultaneous substitution, values taken in the outer environment)',
               'complex-step differentiation (Richardson differences for second order, tolerance 1e-6) is the reference directional derivative',
               'Gauss-Legendre quadrature with the same number of points written with numpy is the reference integral',
               'one generic valuation per case (three for factor); values are fixed irrational-looking numbers, no random sampling',
               'at evaluation time a value-preserving int->float conversion of a supplied value is tolerated; only lossy conversions must be refused',
               '.arguments of a result must contain every argument the value depends on and nothing outside the syntactic table of the model']
BUDGET_S = {'quick': 1800, 'thorough': 7200}

A = T.A
N = lambda x: ['name', x]
NEXT = {'u': 'v', 'v': 'w', 'w': 'u'}
CV2 = ['k', [-.25, 2.], 'float']
CS2 = ['k', -.75, 'float']


# ------------------------------------------------------------------ catalogue of maps

def replace_maps(F):
    'list of (label, entries) relevant to a body whose argument set is F (abstract names)'
    out = []
    vec = [k for k in 'uvw' if k in F]
    for k in vec:
        k1, k2 = NEXT[k], NEXT[NEXT[k]]
        out += [('const', [[k, CV2]]), ('fresh', [[k, N('z')]]), ('other', [[k, N(k1)]]),
                ('expr', [[k, ['mul', A(k1), A('p')]]]),
                ('expr-self', [[k, ['add', ['sq', A(k)], A(k1)]]]),
                ('expr-int', [[k, ['mul', ['int', ['sin', ['fld', 'd0', A(k2)]]], T.CV]]]),
                ('value-spatial', [[k, ['mul', ['x'], T.CV]]])]
    if 'p' in F:
        out += [('const', [['p', CS2]]), ('fresh', [['p', N('q')]]),
                ('expr', [['p', ['sum', A('u')]]]), ('expr-self', [['p', ['mul', A('p'), A('p')]]]),
                ('expr-int', [['p', ['int', ['mul', ['fld', 'lin0', A('u')], ['x']]]]]),
                ('value-spatial', [['p', ['x']]])]
    for a, b in (('u', 'v'), ('v', 'w'), ('u', 'w')):
        if a in F or b in F:
            out.append(('swap', [[a, N(b)], [b, N(a)]]))
    if 'u' in F or 'v' in F:
        out.append(('shift', [['u', N('v')], ['v', N('w')]]))
        out.append(('shift-rev', [['v', N('w')], ['u', N('v')]]))
    if vec:
        out.append(('rotate', [['u', N('v')], ['v', N('w')], ['w', N('u')]]))
        k = vec[0]
        out.append(('cross', [[k, ['mul', A(NEXT[k]), A('p')]], ['p', ['sum', A(k)]]]))
        out.append(('two', [[k, N('z')], ['p', N('q')]]))
        absent = [a for a in 'uvwp' if a not in F]
        if absent:
            a = absent[0]
            out.append(('ignored', [[a, N('q' if a == 'p' else 'z')], [k, N(NEXT[k])]]))
        else:
            out.append(('ignored', [['q', N('p')], [k, N('z')]]))
        if 'p' in F:
            out.append(('conflict', [[k, N('p')]]))
            out.append(('conflict', [[k, ['ax', 'p', [2], 'float']]]))
    return out


def chain_terms(f, F):
    'nested / chained replacement forms as (label, builder) where builder(spelling) gives the term; entries listed for spelling selection'
    out = []
    vec = [k for k in 'uvw' if k in F]
    for k in vec[:2]:
        k1, k2 = NEXT[k], NEXT[NEXT[k]]
        # u->v then v->w
        out.append(('chain', [[[k, N(k1)]], [[k1, N(k2)]]], lambda s1, s2, k=k, k1=k1, k2=k2: ['replace', ['replace', f, [[k, N(k1)]], s1], [[k1, N(k2)]], s2]))
        # replacement inside an already replaced expression
        e1 = [[k, ['mul', A(k1), A('p')]]]
        e2 = [[k1, ['sin', A(k2)]], ['p', CS2]]
        out.append(('inside-replaced', [e1, e2], lambda s1, s2, e1=e1, e2=e2: ['replace', ['replace', f, e1, s1], e2, s2]))
        # the replaced expression is a subterm, the removed argument reappears next to it
        e1 = [[k, N(k1)]]
        e2 = [[k, N(k2)], [k1, N(k)]]
        if T.model(f).shape in ((), (2,)):
            out.append(('subterm', [e1, e2], lambda s1, s2, e1=e1, e2=e2, k=k: ['replace', ['add', ['replace', f, e1, s1], A(k)], e2, s2]))
        # the value is itself a replaced expression
        e1 = [[k1, N(k2)]]
        out.append(('value-replaced', [e1, None], lambda s1, s2, e1=e1, k=k, k1=k1: ['replace', f, [[k, ['replace', ['add', A(k1), ['sq', A(k)]], e1, s1]]], s2]))
        # the outer key was already removed by the inner replacement
        e1 = [[k, N(k1)]]
        e2 = [[k, N(k2)]]
        out.append(('removed-key', [e1, e2], lambda s1, s2, e1=e1, e2=e2: ['replace', ['replace', f, e1, s1], e2, s2]))
    if len(vec) >= 1:
        k = vec[0]
        k1 = NEXT[k]
        e = [[k, N(k1)], [k1, N(k)]]
        out.append(('swap-twice', [e, e], lambda s1, s2, e=e: ['replace', ['replace', f, e, s1], e, s2]))
    if 'p' in F:
        e1 = [['p', ['sum', A('u')]]]
        e2 = [['u', ['mul', A('v'), A('p')]]]
        out.append(('inside-replaced', [e1, e2], lambda s1, s2, e1=e1, e2=e2: ['replace', ['replace', f, e1, s1], e2, s2]))
    return out


def lin_maps(F):
    out = []
    keys = [k for k in 'uvwp' if k in F]
    fresh = {'u': 'z', 'v': 'z', 'w': 'z', 'p': 'q'}
    for k in keys:
        out.append(('fresh', [[k, N(fresh[k])]]))
    k = keys[0]
    if k != 'p':
        out.append(('other', [[k, N(NEXT[k])]]))
        out.append(('expr', [[k, ['mul', A(NEXT[k]), A('p')]]]))
        out.append(('const', [[k, CV2]]))
    else:
        out.append(('expr', [[k, ['sum', A('u')]]]))
        out.append(('const', [[k, CS2]]))
    if len(keys) > 1:
        ent = []
        for k in keys:
            ent.append([k, N('q')] if k == 'p' else [k, ['mul', A('z'), ['k', float(len(ent) + 1), 'float']]] if len(ent) else [k, N('z')])
        out.append(('all', ent))
        ent2 = [[k, N('q' if k == 'p' else 'z')] for k in keys]
        if sum(1 for k in keys if k != 'p') <= 1:
            out.append(('all-names', ent2))
    absent = [a for a in 'uvwp' if a not in F]
    if absent:
        a = absent[0]
        out.append(('ignored', [[a, N('q' if a == 'p' else 'z')], [keys[0], N(fresh[keys[0]])]]))
    return out


def variants_replace(f, entries, op='replace'):
    return [[op, f, entries, sp] for sp in T.spellings_for(entries)]


CHAIN_SPELLINGS = [['dict', 's', 's'], ['dict', 's', 'A'], ['str', 's', 's'], ['list-str', 's', 's'], ['list-pairs', 's', 's'], ['list-pairs', 'A', 'A'],
                   ['list-pairs', 'alt', 'alt'], ['tuple-pairs', 'A', 's'], ['mixed0', 'A', 'A'], ['mixed1', 'A', 's']]


def variants_chain(builder):
    'the chain in every pair of spellings (same spelling at both levels, or one level in a fixed fallback spelling), deduplicated'
    out = []
    seen = set()
    for sp in CHAIN_SPELLINGS:
        for s1, s2 in ((sp, sp), (sp, ['list-pairs', 'A', 'A']), (['dict', 's', 'A'], sp)):
            t = builder(s1, s2)
            try:
                sig = T.term_signature(t)
                break
            except T.Infeasible:
                continue
        else:
            continue
        if sig in seen:
            continue
        seen.add(sig)
        out.append(t)
    return out


# ------------------------------------------------------------------ spaces of bodies

def bodies(space, tier):
    '''list of body terms for a named space'''
    if space == 'alg01':
        return T.alg_terms(0) + T.alg_terms(1)
    if space == 'alg2':
        return T.alg_terms(2, pruned=(tier == 'quick'))
    if space == 'alg2p':
        return T.alg_terms(2, pruned=True)
    if space == 'alg3':
        return T.alg_terms(3, pruned=True)
    if space == 'spat01':
        return [[c, s] for s in T.spat_terms(0) + T.spat_terms(1) for c in ('int', 'bind')]
    if space == 'spat2':
        return [[c, s] for s in T.spat_terms(2, pruned=True) for c in ('int', 'bind')]
    if space == 'spat2full':
        return [[c, s] for s in T.spat_terms(2, pruned=False) for c in ('int', 'bind')]
    if space == 'intarg':
        return T.int_terms()
    raise ValueError(space)


def _part(items, part, nparts):
    return [x for i, x in enumerate(items) if i % nparts == part]


def shards(tier, seed):
    out = []

    def add(family, space, scheme, nparts, **kw):
        for part in range(nparts):
            out.append(dict(family=family, space=space, scheme=scheme, part=part, nparts=nparts, **kw))
    quick = tier == 'quick'
    # simplest first
    add('replace', 'alg01', 'plain', 2)
    add('replace', 'alg01', 'nest', 2)
    add('typing', 'alg01', 'plain', 2)
    add('evalvalue', 'alg01', 'plain', 3)
    add('intarg', 'intarg', 'plain', 1)
    add('ndarg', 'ndarg', 'plain', 16)   # arguments with 1..4 axes (vmc/c13_ndarg.py): derivative / linearize / replace of plain and factored polynomial bodies
    add('diff', 'alg01', 'plain', 2)
    add('diff', 'alg01', 'nest', 2)
    add('factor', 'alg01', 'plain', 4)
    add('factor', 'alg01', 'nest', 4)
    add('chain', 'alg01', 'plain', 2)
    add('chain', 'alg01', 'nest', 2)
    add('replace', 'spat01', 'plain', 8)
    add('replace', 'spat01', 'nest', 8)
    add('chain', 'spat01', 'plain', 4)
    add('diff', 'spat01', 'plain', 4)
    add('factor', 'spat01', 'plain', 10)
    add('typing', 'spat01', 'plain', 2)
    add('evalvalue', 'spat01', 'plain', 10)
    if quick:
        add('replace', 'alg2', 'plain', 24)
        add('chain', 'alg2', 'plain', 12)
        add('diff', 'alg2', 'plain', 16)
        add('factor', 'alg2', 'plain', 12, reduced=True)
    else:
        add('replace', 'alg2', 'plain', 20)
        add('replace', 'alg2p', 'nest', 6)
        add('chain', 'alg2', 'plain', 12)
        add('diff', 'alg2', 'plain', 14)
        add('factor', 'alg2p', 'plain', 14)
        add('factor', 'alg2', 'plain', 6, reduced=True)
        add('replace', 'alg3', 'plain', 16, reduced=True)
        add('diff', 'alg3', 'plain', 14, reduced=True)
        add('replace', 'spat2', 'plain', 10, reduced=True)
        add('chain', 'spat2', 'plain', 6)
        add('diff', 'spat2', 'plain', 6)
        add('factor', 'spat2', 'plain', 2, reduced=True)
    return out


# ------------------------------------------------------------------ running

def _record(res, out, nontrivial_key):
    res.count('evaluations', max(out.evaluations, 1))
    res.count('cases')
    res.count('values_compared', out.compared)
    res.distinct('distinct_outcomes', out.status + ':' + ','.join(sorted(out.rejected_by)))
    if out.status.startswith('skipped'):
        res.count('skipped')
        res.distinct('skip_reasons', out.status)
    elif nontrivial_key is not None and (out.status == 'rejected' or out.semdeps):
        res.distinct('distinct_nontrivial', nontrivial_key)
    for key, what, w in out.findings:
        res.violation(key, what, w)


def _judge(res, variants, scheme, label, vals=(0,), nontrivial=True):
    if not variants:
        return None
    out = J.judge(variants, scheme, label, vals)
    res.count('variants', len(variants))
    _record(res, out, json.dumps([variants[0][:3] if variants[0][0] in ('replace', 'lin') else variants[0], scheme]) if nontrivial else None)
    return out


def run_shard(spec, tier, seed):
    J.quiet()
    res = core.ShardResult()
    fam = spec['family']
    scheme = spec['scheme']
    if fam == 'ndarg':
        for shape, body, manip, factored in _part(list(ND.cases(tier)), spec['part'], spec['nparts']):
            status, finding = ND.run_case(shape, body, manip, factored)
            res.count('evaluations')
            res.count('cases')
            res.count('ndarg_cases')
            res.distinct('distinct_outcomes', 'ndarg:' + status)
            res.distinct('distinct_nontrivial', json.dumps(['ndarg', list(shape), body, manip, factored]))
            if finding:
                res.violation(finding[0], finding[1], {'kind': 'ndarg', 'shape': list(shape), 'body': body, 'manip': manip, 'factored': factored})
        res.sample({'ndarg-shapes': len(ND.shapes(tier)), 'bodies': list(ND.BODIES), 'manipulations': list(ND.MANIPS)})
        return res
    fs = _part(bodies(spec['space'], tier), spec['part'], spec['nparts'])
    reduced = spec.get('reduced', False)
    for f in fs:
        F = set(T.model(f).args)
        if fam == 'replace':
            _run_replace(res, f, F, scheme, reduced)
        elif fam == 'chain':
            _run_chain(res, f, F, scheme)
        elif fam == 'diff':
            _run_diff(res, f, F, scheme, reduced)
        elif fam == 'factor':
            _run_factor(res, f, F, scheme, reduced)
        elif fam == 'typing':
            _run_typing(res, f, F, scheme)
        elif fam == 'evalvalue':
            _run_evalvalue(res, f, F, scheme)
        elif fam == 'intarg':
            _run_intarg(res, f, F, scheme)
        else:
            raise core.HarnessError('unknown family {}'.format(fam))
    return res


REDUCED_LABELS = ('expr', 'expr-self', 'swap', 'shift', 'cross', 'other', 'rotate')


def _run_replace(res, f, F, scheme, reduced=False):
    first = True
    for label, entries in replace_maps(F):
        if reduced and label not in REDUCED_LABELS:
            continue
        vs = variants_replace(f, entries)
        if reduced:
            vs = [v for v in vs if v[3] in (['dict', 's', 's'], ['str', 's', 's'], ['list-pairs', 'A', 'A'], ['tuple-str', 's', 's'], ['mixed0', 'A', 'A'], ['list-pairs', 's', 'A'])] or vs[:2]
        out = _judge(res, vs, scheme, label)
        if first and out is not None and out.status == 'value':
            res.sample({'body': f, 'replace': entries, 'spellings': len(vs), 'scheme': scheme})
            first = False
    if f[0] in ('int', 'bind'):
        # the replacement applied to the integrand instead of the integral
        for label, entries in replace_maps(F):
            if label in ('const', 'other', 'expr', 'swap', 'shift', 'cross'):
                vs = [[f[0], ['replace', f[1], entries, sp]] for sp in T.spellings_for(entries)]
                _judge(res, vs, scheme, 'integrand-' + label)


def _run_chain(res, f, F, scheme):
    vs = None
    for label, entry_lists, builder in chain_terms(f, F):
        vs = variants_chain(builder)
        out = _judge(res, vs, scheme, label)
    if vs:
        res.sample({'chain': vs[0], 'scheme': scheme})


def _run_diff(res, f, F, scheme, reduced=False):
    keys = [k for k in 'uvwp' if k in F]
    # derivative to every argument of the body, and to one that is absent (by object)
    for k in keys:
        vs = [['der', f, k, how] for how in ('name', 'obj', 'method', 'methodobj')]
        _judge(res, vs, scheme, 'by-argument')
    if not reduced:
        absent = [a for a in 'uvwp' if a not in F]
        if absent:
            _judge(res, [['der', f, absent[0], how] for how in ('obj', 'methodobj')], scheme, 'absent')
    for label, entries in lin_maps(F):
        if reduced and label not in ('fresh', 'all', 'expr'):
            continue
        vs = variants_replace(f, entries, 'lin')
        if reduced:
            vs = vs[::3]
        out = _judge(res, vs, scheme, label)
    if not reduced and T.count_nodes(f) <= 4:
        k = keys[0]
        k2 = keys[-1]
        d1 = N('q' if k == 'p' else 'z')
        d2 = ['mul', A('q' if k2 == 'p' else 'z'), ['k', 2., 'float']] if (k2 == 'p') == (k == 'p') else N('q' if k2 == 'p' else 'z')
        for sp in (['str', 's', 's'], ['list-pairs', 'A', 'A'], ['dict', 's', 'A']):
            if d2[0] != 'name' and sp[0] == 'str':
                continue
            _judge(res, [['lin', ['lin', f, [[k, d1]], sp], [[k2, d2]], sp if d2[0] == 'name' else ['dict', 's', 'A']]], scheme, 'second-order')
        _judge(res, [['der', ['der', f, k, 'name'], k2, how] for how in ('name', 'obj')], scheme, 'second-order')
        _judge(res, [['lin', ['replace', f, [[k, ['mul', A(k), A(k)]]], ['dict', 's', 'A']], [[k, d1]], sp] for sp in T.spellings_for([[k, d1]])[:6]], scheme, 'of-replaced')
        _judge(res, [['replace', ['lin', f, [[k, d1]], sp], [[k, ['mul', A(k), A(k)]]], ['dict', 's', 'A']] for sp in T.spellings_for([[k, d1]])[:6]], scheme, 'replace-of-lin')
        # chain rule through a replacement: derivative of a replaced body to the arguments of the replacement value
        rt = ['replace', f, [[k, ['mul', A(NEXT[k]), A('p')] if k != 'p' else ['sum', A('u')]]], ['list-pairs', 'A', 'A']]
        for key in sorted(T.model(rt).args):
            if key in 'uvwp':
                _judge(res, [['der', rt, key, how] for how in ('name', 'obj')], scheme, 'of-replaced')


def _run_factor(res, f, F, scheme, reduced=False):
    if f[0] == 'bind':
        return
    try:
        d = T.degree(T.subst(f))
    except Exception:
        return
    if d is not None and d > 3:
        res.count('factor_skipped_degree')
        return
    out = _judge(res, [['fac', f]], scheme, 'poly' if d is not None else 'nonpoly', vals=(0, 1, 2))
    if d is None:
        return
    if out is not None and out.status == 'value':
        res.count('factored_polynomials')
    keys = [k for k in 'uvwp' if k in F]
    ff = ['fac', f]
    for k in keys[:1] if reduced else keys:
        _judge(res, [['der', ff, k, how] for how in ('name', 'obj')], scheme, 'of-factored')
    if reduced:
        return
    k = keys[0]
    d1 = N('q' if k == 'p' else 'z')
    _judge(res, variants_replace(ff, [[k, d1]], 'lin')[::2], scheme, 'of-factored')
    for label, entries in replace_maps(F):
        if label in ('const', 'other', 'expr', 'expr-self', 'swap', 'shift', 'cross'):
            _judge(res, variants_replace(ff, entries)[::3], scheme, 'of-factored-' + label)
    # factor of a replaced body: a non polynomial replaced into polynomial position and vice versa
    for label, entries in replace_maps(F):
        if label in ('const', 'expr', 'expr-self', 'swap'):
            rt = ['replace', f, entries, ['dict', 's', 'A']]
            try:
                d2 = T.degree(T.subst(rt))
            except Exception:
                continue
            if d2 is None or d2 <= 3:
                _judge(res, [['fac', rt]], scheme, 'of-replaced-' + label, vals=(0, 1, 2))


# ---- ill-typed requests: every variant must be refused

def wrong_values(shape, dtype):
    'constants and arguments whose shape is broadcast-compatible with but different from `shape`, or whose dtype differs'
    out = []
    if tuple(shape) == (2,):
        shapes = {'()': 1.5, '(1,)': [1.5], '(1,2)': [[1.5, -.5]], '(2,1)': [[1.5], [-.5]], '(1,1)': [[1.5]], '(2,2)': [[1., 2.], [3., 4.]], '(3,)': [1., 2., 3.]}
        ok = [1, 2]
    else:
        shapes = {'(1,)': [1.5], '(1,1)': [[1.5]], '(2,)': [1.5, -.5], '(1,2)': [[1.5, -.5]]}
        ok = 2
    for name, v in shapes.items():
        out.append(('shape' + name, ['k', v, dtype if dtype != 'int' else 'float']))
        if dtype == 'int':
            out[-1] = ('shape' + name, ['k', numpy.array(v).astype(int).tolist(), 'int'])
        out.append(('shape' + name + '-argument', ['ax', 'z' if dtype == 'float' else 'm', list(numpy.shape(v)), dtype]))
    if dtype == 'float':
        out.append(('int-for-float', ['k', ok, 'int']))
        out.append(('int-for-float-argument', ['ax', 'm', list(shape), 'int']))
        out.append(('int-for-float-expr', ['mul', ['k', ok, 'int'], A('n')]))
        out.append(('bool-for-float', ['k', numpy.array(ok).astype(bool).tolist(), 'bool']))
    else:
        out.append(('float-for-int', ['k', 1.5, 'float']))
        out.append(('float-for-int-integral', ['k', 2., 'float']))
        out.append(('float-for-int-argument', ['ax', 'q', [], 'float']))
        out.append(('float-for-int-expr', ['mul', A('n'), A('p')]))
        out.append(('bool-for-int', ['k', True, 'bool']))
    return out


def _wrong_exprs(k, shape):
    if tuple(shape) == (2,):
        return [('shape()-expr', ['sum', A(NEXT[k])]), ('shape()-argument-p', A('p')), ('shape(2,2)-expr', ['mul', A(NEXT[k]), ['k', [[1.], [2.]], 'float']])]
    return [('shape(2,)-expr', A('u')), ('shape(2,)-expr2', ['mul', A('p'), A('v')])]


TYPING_SPELLINGS = [['dict', 's', 's'], ['dict', 's', 'A'], ['dict', 's', 'np'], ['list-pairs', 's', 'A'], ['list-pairs', 'A', 'A'], ['list-pairs', 'A', 's'], ['tuple-pairs', 'A', 'np']]


def _typing_variants(f, op, entries):
    out = []
    seen = set()
    for sp in TYPING_SPELLINGS:
        try:
            sig = T._signature(entries, sp)
        except T.Infeasible:
            continue
        if sig in seen:
            continue
        seen.add(sig)
        out.append([op, f, entries, sp])
    return out


def _run_typing(res, f, F, scheme):
    keys = [k for k in 'uvwpn' if k in F]
    for k in keys:
        shape, dtype = T.ARGS[k]
        for label, bad in wrong_values(shape, dtype) + (_wrong_exprs(k, shape) if dtype == 'float' else []):
            for op in ('replace', 'lin'):
                if op == 'lin' and dtype != 'float':
                    continue
                entries = [[k, bad]]
                _judge(res, _typing_variants(f, op, entries), scheme, 'wrong-value:' + label)
            # the bad entry next to a good one, in both orders
            other = [a for a in keys if a != k and T.ARGS[a][1] == 'float']
            if other:
                good = [other[0], N('q' if other[0] == 'p' else 'z')] if label.find('argument') < 0 else [other[0], ['k', [.5, .5] if T.ARGS[other[0]][0] else .5, 'float']]
                _judge(res, _typing_variants(f, 'replace', [good, [k, bad]]), scheme, 'wrong-value-second:' + label)
        # Argument objects of the wrong shape / dtype as KEY (pairs spelling) and as derivative target
        badkeys = [['ax', k, [3] if shape else [1], dtype], ['ax', k, list(shape) + [1], dtype], ['ax', k, [1] + list(shape), dtype], ['ax', k, list(shape), 'int' if dtype == 'float' else 'float']]
        if shape:
            badkeys.append(['ax', k, [], dtype])
            badkeys.append(['ax', k, [1], dtype])
        for bk in badkeys:
            val = N('m' if dtype == 'int' else 'q' if not shape else 'z')
            vs = [['replace', f, [[bk, val]], sp] for sp in (['list-pairs', 'A', 's'], ['list-pairs', 'A', 'A'], ['tuple-pairs', 'A', 's'], ['mixed1', 'A', 's'])]
            _judge(res, vs, scheme, 'wrong-key')
            if dtype == 'float':
                _judge(res, [['lin', f, [[bk, val]], sp] for sp in (['list-pairs', 'A', 's'], ['list-pairs', 'A', 'A'])], scheme, 'wrong-key')
                _judge(res, [['der', f, bk, how] for how in ('obj', 'methodobj')], scheme, 'wrong-key')


EVAL_SHAPES = {
    (2,): [1.5, [1.5], [[1.5, -.5]], [[1.5], [-.5]], [[1.5]], [[1., 2.], [3., 4.]], [1., 2., 3.], [[[1.5, -.5]]]],
    (): [[1.5], [[1.5]], [1.5, -.5], [[1.5, -.5]]],
}


def eval_values(shape, dtype):
    out = []
    for v in EVAL_SHAPES[tuple(shape)]:
        if dtype == 'int':
            v = numpy.array(v).astype(int).tolist()
        out.append((v, dtype))
        out.append((v, 'py' + dtype))
    if dtype == 'float':
        ok = [1, -2] if shape else 3
        out += [(ok, 'int'), (ok, 'pyint')]
    else:
        out += [(1.5, 'float'), (1.5, 'pyfloat'), (-2.75, 'float'), (2., 'float'), (2., 'pyfloat')]
    return out


def _run_evalvalue(res, f, F, scheme, manipulated=True):
    fs = [f]
    keys = [k for k in 'uvwpn' if k in F]
    if manipulated and keys:
        k = keys[0]
        if T.ARGS[k][1] == 'float':
            if k == 'p':
                fs.append(['replace', f, [[k, ['sum', A('z')]]], ['dict', 's', 'A']])
            else:
                fs.append(['replace', f, [[k, ['mul', A('z'), A('q')]]], ['list-pairs', 'A', 'A']])
            fs.append(['lin', f, [[k, N('q' if k == 'p' else 'z')]], ['str', 's', 's']])
            fs.append(['der', f, k, 'name'])
            try:
                if f[0] != 'bind' and (T.degree(T.subst(f)) or 9) <= 3:
                    fs.append(['fac', f])
            except Exception:
                pass
    for g in fs:
        try:
            facts = T.model(g)
        except T.Rejected:
            continue
        env = J.environment(g, 0)
        R0 = numpy.asarray(T.ref(g, env))
        for name, (shape, dtype) in sorted(facts.args.items()):
            # only arguments on which the value depends must be validated
            e2 = dict(env)
            e2[name] = (env[name] + (numpy.arange(env[name].size).reshape(env[name].shape) + 1) * (.173 if dtype == 'float' else 1)).astype(env[name].dtype)
            if J.close(numpy.asarray(T.ref(g, e2)), R0, 1e-7):
                continue
            for value, vdtype in eval_values(shape, dtype):
                if g is not f and f[0] in ('int', 'bind') and vdtype.startswith('py'):
                    continue
                res.count('evaluations')
                res.count('cases')
                finding, status = J.judge_evalvalue(g, name, value, vdtype, scheme)
                res.distinct('distinct_outcomes', 'evalvalue:' + status)
                res.distinct('distinct_nontrivial', json.dumps(['evalvalue', g, name, value, vdtype, scheme]))
                if finding:
                    res.violation(*finding)
    res.sample({'evalvalue-body': f, 'wrong-values-per-argument': {str(k): len(eval_values(k, 'float')) for k in EVAL_SHAPES}})


def _run_intarg(res, f, F, scheme):
    maps = [('const', [['n', ['k', 5, 'int']]]), ('fresh', [['n', N('m')]]), ('expr', [['n', ['mul', A('n'), A('m')]]]), ('expr-self', [['n', ['add', A('n'), T.CI]]]),
            ('swap', [['n', N('m')], ['m', N('n')]])]
    if 'u' in F:
        maps.append(('two', [['n', N('m')], ['u', N('z')]]))
        maps.append(('cross', [['u', ['mul', A('n'), A('u')]], ['n', ['k', -3, 'int']]]))
    if 'p' in F and 'n' in F:
        # the new name exists already with another dtype (same shape): a conflict, to be refused
        maps.append(('conflict-dtype', [['p', N('n')]]))
        maps.append(('conflict-dtype', [['p', ['mul', ['ax', 'n', [], 'float'], A('q')]]]))
        for sp in T.spellings_for([['p', N('n')]]):
            _judge(res, [['lin', f, [['p', N('n')]], sp]], scheme, 'int-conflict-dtype')
    for label, entries in maps:
        _judge(res, variants_replace(f, entries), scheme, 'int-' + label)
        _judge(res, variants_replace(f, entries), 'nest', 'int-' + label)
    _run_typing(res, f, F, scheme)
    _run_evalvalue(res, f, F, scheme, manipulated=False)
    keys = [k for k in 'up' if k in F]
    for k in keys:
        _judge(res, [['der', f, k, how] for how in ('name', 'obj')], scheme, 'int-body')
        _judge(res, variants_replace(f, [[k, N('q' if k == 'p' else 'z')]], 'lin'), scheme, 'int-body')
    if 'sin' not in json.dumps(f) and T.model(f).dtype == 'float':
        _judge(res, [['fac', f]], scheme, 'int-body', vals=(0, 1, 2))


# ------------------------------------------------------------------ replay

def replay(w):
    J.quiet()
    if w['kind'] == 'ndarg':
        status, finding = ND.run_case(w['shape'], w['body'], w['manip'], w['factored'])
        return None if finding is None else '{} [{}]'.format(finding[1], finding[0])
    if w['kind'] == 'evalvalue':
        finding, status = J.judge_evalvalue(w['term'], w['name'], w['value'], w['vdtype'], w['scheme'], w.get('val', 0))
        return None if finding is None else '{} [{}]'.format(finding[1], finding[0])
    vals = (0, 1, 2) if w['term'][0] == 'fac' else (w.get('val', 0),)
    out = J.judge([w['term']], w['scheme'], w.get('label', ''), vals)
    if not out.findings:
        return None
    key, what, _ = out.findings[0]
    return '{} [{}] term={}'.format(what, key, json.dumps(w['term']))


def finalize(cov, tier):
    cov['explanation'] = ('every case builds the real nutils function in every listed spelling, evaluates it with function.eval and compares with the '
                          'numpy reference; rejected = the static model of the documented contract says the request must be refused and it was')
