'''C18 part (c): concurrent callers of the disk cache, explored exhaustively under the process scheduler (vmc.sched).

Two real processes share one cache directory and call the same memoised function / iterate the same Recursion.  Scheduling
points: every line of the cache wrapper (cache.function.<locals>.wrapper) and of Recursion.__iter__, the flock acquisition
(real kernel lock, non-blocking shim) and entry/exit of the user function.  Oracle per execution: both results equal the
uncached value; between a worker's `enter` and `exit` of the user function no other worker enters it for the same key; no
deadlock; afterwards the directory holds a complete entry (a third, unscheduled call is a pure hit).
'''

import os, sys, json, tempfile, shutil, pickle
import numpy
from .. import core, sched

SCENARIOS = {
    # quick: two preemptions from the empty cache (1502 executions, split over 6 shards by first deviations), one elsewhere
    'quick': [{'what': 'function', 'pre': 'empty', 'bound': 2, 'nsplit': 6}, {'what': 'function', 'pre': 'truncated', 'bound': 1}, {'what': 'function', 'pre': 'complete', 'bound': 1},
              {'what': 'function2keys', 'pre': 'empty', 'bound': 1}, {'what': 'recursion', 'pre': 'empty', 'bound': 1}, {'what': 'recursion', 'pre': 'partial', 'bound': 1}],
    'thorough': [{'what': 'function', 'pre': 'empty', 'bound': 3, 'nsplit': 16}, {'what': 'function', 'pre': 'truncated', 'bound': 3, 'nsplit': 16}, {'what': 'function', 'pre': 'complete', 'bound': 2, 'nsplit': 4},
                 {'what': 'function2keys', 'pre': 'empty', 'bound': 2, 'nsplit': 6}, {'what': 'recursion', 'pre': 'empty', 'bound': 2, 'nsplit': 6}, {'what': 'recursion', 'pre': 'partial', 'bound': 2, 'nsplit': 6},
                 {'what': 'function3', 'pre': 'empty', 'bound': 2, 'nsplit': 8}],
}


def shards(tier):
    out = []
    for s in SCENARIOS[tier]:
        n = s.get('nsplit', 1)
        for k in range(n):
            out.append(dict({x: v for x, v in s.items() if x != 'nsplit'}, part='c', split=[k, n]))
    return out


def _match(code):
    return code.co_filename.endswith(os.path.join('nutils', 'cache.py')) and code.co_name in ('wrapper', '__iter__')


def _user_function():
    from nutils import cache
    import treelog

    def h(x):
        sched.point(('enter', x))
        treelog.info('computing h', x)
        v = (x * 3 + 1, 'payload' * 5)
        sched.point(('exit', x))
        return v
    h.__qualname__ = 'vmc_c18_sched_h'
    h.__module__ = 'vmc.checks.c18_sched'
    return cache.function(h)


def _recursion():
    from nutils import cache

    class R(cache.Recursion, length=1):
        def __init__(self, start):
            self.start = start

        def resume(self, history):
            v = history[-1] + 2 if history else self.start
            while v < self.start + 6:
                sched.point(('enter', 'gen'))    # the wrapped generator is being advanced
                item = v
                sched.point(('exit', 'gen'))
                yield item
                v += 2
    R.__module__ = 'vmc.checks.c18_sched'
    return R(1)


def _setup(scn):
    def setup():
        d = tempfile.mkdtemp(prefix='vmc18c-')
        from nutils import cache
        import treelog
        if scn['pre'] in ('truncated', 'complete', 'partial'):
            with treelog.set(treelog.NullLog()), cache.enable(d):
                if scn['what'].startswith('function'):
                    _user_function()(5)
                else:
                    it = iter(_recursion())
                    next(it); next(it)
                    it.close()
            if scn['pre'] == 'truncated':
                for name in os.listdir(d):
                    p = os.path.join(d, name)
                    if os.path.isfile(p):
                        b = open(p, 'rb').read()
                        open(p, 'wb').write(b[:len(b) // 2])
            if scn['pre'] == 'partial':
                sub = [os.path.join(d, n) for n in os.listdir(d)][0]
                p = os.path.join(sub, '0001')
                b = open(p, 'rb').read()
                open(p, 'wb').write(b[:len(b) // 2])
        return d
    return setup


def _body(scn, arg):
    def body(d):
        from nutils import cache
        import treelog
        cache._lock_file = sched.flock_shim
        with treelog.set(treelog.NullLog()), cache.enable(d):
            if scn['what'].startswith('function'):
                return _user_function()(arg)
            return list(_recursion())
    return body


def _teardown(scn):
    def teardown(d):
        'after the scheduled run: an unscheduled call must be a pure hit / give the same sequence'
        from nutils import cache
        import treelog
        try:
            with treelog.set(treelog.NullLog()), cache.enable(d):
                if scn['what'].startswith('function'):
                    out = _user_function()(5)
                else:
                    out = list(_recursion())
        except BaseException as e:
            out = ('error', repr(e))
        shutil.rmtree(d, ignore_errors=True)
        return out
    return teardown


def expected(scn, arg):
    if scn['what'].startswith('function'):
        return (arg * 3 + 1, 'payload' * 5)
    return [1, 3, 5]


def judge(scn, ex, args):
    'returns None or failure string for one execution'
    if ex.deadlock:
        return 'deadlock: workers stuck at {}'.format(ex.deadlock)
    for i, a in enumerate(args):
        r = ex.results.get(i)
        if r != expected(scn, a):
            return 'worker {} returned {!r} instead of {!r}'.format(i, r, expected(scn, a))
    if ex.after != expected(scn, 5):
        return 'a later call returned {!r} instead of {!r}'.format(ex.after, expected(scn, 5))
    inside = {}
    for w, tag in ex.trace:
        if tag[0] == 'enter':
            key = tag[1]
            if key in inside.values() and inside.get(w) != key:
                other = [o for o, k in inside.items() if k == key]
                return 'worker {} entered the wrapped function for key {} while worker {} was inside it'.format(w, key, other)
            inside[w] = key
        elif tag[0] == 'exit':
            inside.pop(w, None)
    return None


def run_scenario(scn, res, only_prefix=None, split=None):
    nworkers = 3 if scn['what'] == 'function3' else 2
    args = [5, 7] if scn['what'] == 'function2keys' else [5] * nworkers
    bodies = [_body(scn, a) for a in args]
    run_one = lambda prefix: sched.run(bodies, prefix, trace_match=_match, setup=_setup(scn), teardown=_teardown(scn))
    if only_prefix is not None:
        ex = run_one(only_prefix)
        return judge(scn, ex, args)
    # determinism: the first schedule twice
    e1 = run_one([])
    e2 = run_one([])
    if e1.trace != e2.trace or e1.results != e2.results:
        raise core.HarnessError('nondeterministic replay of the default schedule in scenario {}'.format(scn))
    state = {'fail': None}

    def on_execution(ex):
        res.count('evaluations')
        res.count('transitions', len(ex.points))
        res.count('traces_validated_against_impl')
        res.distinct('states', repr([(w, t) for w, t in ex.trace]))
        nexec = sum(1 for w, t in ex.trace if t[0] == 'enter')
        res.distinct('distinct_outcomes', repr((scn['what'], scn['pre'], nexec, tuple(w for w, t in ex.trace if t[0] == 'enter'))))
        res.maximum('max_points', len(ex.points))
        if ex.preemptions:
            res.distinct('distinct_nontrivial', json.dumps([scn, ex.choices]))
        f = judge(scn, ex, args)
        if f:
            res.violation('concurrent:{}:{}:{}'.format(scn['what'], scn['pre'], f.split(' ')[0]), '{} (scenario {}, {} preemptions)'.format(f, scn, ex.preemptions),
                          {'part': 'c', 'scenario': scn, 'choices': ex.choices})
            state['fail'] = f
            return False
    n = sched.explore(run_one, scn['bound'], on_execution, part=tuple(split) if split and split[1] > 1 else None, split_depth=min(2, scn['bound']),
                      symmetric=len(set(args)) == 1)   # identical callers: which one moves first is a renaming
    return n


def run_shard(spec, tier, res):
    scn = {k: v for k, v in spec.items() if k not in ('part', 'split')}
    n = run_scenario(scn, res, split=spec.get('split'))
    res.sample({'part': 'c', 'scenario': scn, 'executions': n})


def replay(w):
    return run_scenario(w['scenario'], core.ShardResult(), only_prefix=w['choices'])
