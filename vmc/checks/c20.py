'''C20 - physical dimensions are tracked soundly (nutils.SI, nutils.unit).

Bounded exhaustive exploration on the real code against an exponent-vector
model (dict of Fractions) with a physics rule table:

* every entry of Quantity's dispatch table (enumerated reflectively; an entry
  the catalogue does not know is a harness error) x every operand-dimension
  combination from {1, L, T, L/T, L2, L^1/2, M} x scalar / array / function-array
  operands, incl. reflected and in-place operator forms and q / 'unit';
* compositions of depth 2;
* the Dimension algebra over all exponent vectors with entries in {-2..2, +-1/2};
* unit strings generated from the documented grammar (every defined unit x
  prefix, powers, fractional powers, up to three factors), format round trip;
* Units.__setattr__ collisions;  * the older nutils.unit module.
'''

import itertools, json
from .. import core
from .. import c20_model as M

LEVEL = 'exploration'
RULE = ('every entry of Quantity.__DISPATCH_TABLE (reflective) x every call template of the catalogue x every operand-dimension tuple over '
        '{1,L,T,L/T,L2,L^1/2,M} x operand kinds (float, numpy scalar, int, (2,) and (2,2) arrays, nutils function arrays); operators also reflected '
        '(plain left operand) and in-place, q/"unit"; all depth-2 compositions over 23 operations; Dimension algebra over all 343 exponent vectors '
        '(entries -2..2,+-1/2 over L,T,M) pairwise; SI unit strings generated from the grammar: number x every key of SI.units x 9 powers, 2 and 3 '
        'factors over an atom alphabet containing every prefix/name competitor; Units.__setattr__ for every 1-2 letter name and every existing key; '
        'nutils.unit with two tables (one with deliberate prefix/name competition), strings of <=3 factors, dumps/loads. '
        'non-trivial = a judged case with at least one dimensional operand (value compared or rejection demanded), distinct by its witness')
ASSUMPTIONS = ['numpy / nutils applied to plain numbers in reference (SI base) units is the reference semantics for values',
               'the dimension of a result is read from the Dimension type (its stored powers) and cross-checked by dividing out a generated unit string',
               'q == r and q != r on quantities of different dimension may answer False / True through Python\'s NotImplemented protocol instead of raising (needed for hashing); every other mismatch must raise',
               'calls whose result dimension is not determined by the operands (function.jacobian without ndims) are not judged; keyword-only numpy extras (out=, where=, ord=0) are outside the bounds',
               'nutils.unit: only the documented grammar (unsigned decimal numbers, integer powers) is generated']
BUDGET_S = {'quick': 600, 'thorough': 3000}

NUMERIC_FIRST = ('_operator', 'numpy')


def _dispatch():
    from .. import c20_dispatch
    return c20_dispatch


def shards(tier, seed):
    D = _dispatch()
    names = sorted(D.entries(), key=lambda n: (not n.startswith(NUMERIC_FIRST), n))
    out = [{'part': 'dimalg'}]
    out += [{'part': 'entry', 'name': n} for n in names]
    return out


def dims_for(t, nslots, tier):
    return list(itertools.product(M.DIMS7, repeat=nslots))


def run_entry(name, res, tier):
    D = _dispatch()
    from ..c20_catalogue import build
    from ..c20_special import SPECIAL
    fn = D.entries().get(name)
    if fn is None:
        raise core.HarnessError('entry vanished: ' + name)
    judged = 0
    if name in SPECIAL:
        judged += SPECIAL[name](name, fn, res, tier)
    cat = build()
    if name not in cat and name not in SPECIAL:
        res.errors.append('dispatch entry {} is not in the C20 catalogue: add a rule for it (it was NOT checked)'.format(name))
        return
    for t in cat.get(name, []):
        for kinds in t.kinds:
            for dims in dims_for(t, len(kinds), tier):
                w = {'part': 'entry', 'entry': name, 'tmpl': t.name, 'kinds': list(kinds), 'dims': [M.enc(d) for d in dims]}
                judged += account(res, w, D.run_case(name, fn, t, kinds, dims), name, t.name)
    if not judged:
        res.errors.append('no case of dispatch entry {} was judged (reference undefined everywhere?)'.format(name))


def account(res, w, outcome, name, tname):
    status, detail = outcome
    res.count('evaluations')
    res.count('cases_' + status.lower().replace('-', '_'))
    if status == 'VIOLATION':
        kind, msg = detail
        res.violation('{}:{}:{}'.format(kind, name, tname), '{} {} kinds={} dims={}: {}'.format(
            name, tname, w.get('kinds'), [M.dkey(M.dec(d)) for d in w.get('dims', [])], msg), w)
        return 1
    if status in ('ok', 'reject-ok'):
        res.distinct('distinct_nontrivial', json.dumps(w, sort_keys=True))
        res.distinct('distinct_outcomes', '{}:{}'.format(status, detail))
        if status == 'ok' and len(res.samples) < 3:
            res.sample({'case': w, 'outcome': '{} [{}]'.format(status, detail)})
        return 1
    return 0


def run_shard(spec, tier, seed):
    res = core.ShardResult()
    part = spec['part']
    if part == 'entry':
        run_entry(spec['name'], res, tier)
    elif part == 'dimalg':
        from ..c20_special import run_dimalg
        run_dimalg(res, tier)
    else:
        raise core.HarnessError('unknown shard ' + repr(spec))
    return res


def replay(w):
    D = _dispatch()
    part = w['part']
    if part == 'entry':
        from ..c20_catalogue import build
        fn = D.entries().get(w['entry'])
        if fn is None:
            return None
        t, = [t for t in build()[w['entry']] if t.name == w['tmpl']]
        status, detail = D.run_case(w['entry'], fn, t, tuple(w['kinds']), [M.dec(d) for d in w['dims']])
        return '{}: {}'.format(*detail) if status == 'VIOLATION' else None
    from ..c20_special import REPLAY
    if part in REPLAY:
        return REPLAY[part](w)
    raise core.HarnessError('unknown witness ' + repr(w)[:200])


def finalize(cov, tier):
    cov['explanation'] = 'every case is executed on the real nutils objects; the model is an exponent vector plus the same call on plain numbers'
