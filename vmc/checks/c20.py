'''C20 - physical dimensions are tracked soundly (nutils.SI, nutils.unit).

Bounded exhaustive exploration on the real code against an exponent-vector
model (dict of Fractions) with a physics rule table:

* every entry of Quantity's dispatch table (enumerated reflectively; an entry
  the catalogue does not know is a harness error) x every operand-dimension
  combination from {1, L, T, L/T, L2, L^1/2, M} x scalar / array / function-array
  operands, incl. reflected and in-place operator forms and q / 'unit';
* compositions of depth 2;
* the Dimension algebra over all exponent vectors with entries in {-2..2, +-1/2};
* unit strings generated from the documented grammar (every defined unit x
  prefix, powers, fractional powers, up to three factors), format round trip;
* Units.__setattr__ collisions;  * the older nutils.unit module.
'''

import itertools, json
from .. import core
from .. import c20_model as M

LEVEL = 'exploration'
RULE = ('every entry of Quantity.__DISPATCH_TABLE (reflective) x every call template of the catalogue x every operand-dimension tuple over '
        '{1,L,T,L/T,L2,L^1/2,M} x operand kinds (float, numpy scalar, int, (2,) and (2,2) arrays, nutils function arrays); operators also reflected '
        '(plain left operand) and in-place, q/"unit"; all depth-2 compositions over 23 operations; Dimension algebra over all 343 exponent vectors '
        '(entries -2..2,+-1/2 over L,T,M) pairwise; SI unit strings generated from the grammar: number x every key of SI.units x 9 powers, 2 and 3 '
        'factors over an atom alphabet containing every prefix/name competitor; Units.__setattr__ for every 1-2 letter name and every existing key; '
        'nutils.unit with two tables (one with deliberate prefix/name competition), strings of <=3 factors, dumps/loads. '
        'non-trivial = a judged case with at least one dimensional operand (value compared or rejection demanded), distinct by its witness')
ASSUMPTIONS = ['numpy / nutils applied to plain numbers in reference (SI base) units is the reference semantics for values',
               'the dimension of a result is read from the Dimension type (its stored powers) and cross-checked by dividing out a generated unit string',
               'q == r and q != r on quantities of different dimension may answer False / True through Python\'s NotImplemented protocol instead of raising (needed for hashing); every other mismatch must raise',
               'calls whose result dimension is not determined by the operands (function.jacobian without ndims) are not judged; keyword-only numpy extras (out=, where=, ord=0) are outside the bounds',
               'nutils.unit: only the documented grammar (unsigned decimal numbers, integer powers) is generated']
BUDGET_S = {'quick': 1500, 'thorough': 6000}

NUMERIC_FIRST = ('_operator', 'numpy')


def _dispatch():
    from .. import c20_dispatch
    return c20_dispatch


def shards(tier, seed):
    D = _dispatch()
    names = sorted(D.entries(), key=lambda n: (not n.startswith(NUMERIC_FIRST), n))
    from ..c20_compose import OPS, INNER, OUTER
    out = [{'part': 'dimalg'}, {'part': 'sitable'}]
    out += [{'part': 'entry', 'name': n} for n in names]
    out += [{'part': 'setattr', 'chunk': i, 'of': 4} for i in range(4)]
    out += [{'part': 'si', 'nf': 1, 'chunk': i, 'of': 8} for i in range(8)]
    out += [{'part': 'old', 'table': t, 'nf': nf, 'chunk': i, 'of': k} for t in sorted(M.OLD_TABLES) for nf, k in ((1, 2), (2, 2), (3, 4 if tier == 'quick' else 16)) for i in range(k)]
    out += [{'part': 'depth2', 'outer': o} for o in OPS]
    out += [{'part': 'si', 'nf': 2, 'chunk': i, 'of': 16} for i in range(16)]
    n3 = 16 if tier == 'quick' else 64
    out += [{'part': 'si', 'nf': 3, 'chunk': i, 'of': n3} for i in range(n3)]
    out += [{'part': 'depth2f', 'outer': o, 'inner': i} for o in OUTER for i in INNER]
    return out


def dims_for(t, nslots, tier):
    return list(itertools.product(M.DIMS10 if tier == 'thorough' and nslots <= 2 else M.DIMS7, repeat=nslots))


def run_entry(name, res, tier):
    D = _dispatch()
    from ..c20_catalogue import build
    from ..c20_special import SPECIAL
    fn = D.entries().get(name)
    if fn is None:
        raise core.HarnessError('entry vanished: ' + name)
    judged = 0
    if name in SPECIAL:
        judged += SPECIAL[name](name, fn, res, tier)
    cat = build()
    if name not in cat and name not in SPECIAL:
        res.errors.append('dispatch entry {} is not in the C20 catalogue: add a rule for it (it was NOT checked)'.format(name))
        return
    for t in cat.get(name, []):
        for kinds in t.kinds:
            for dims in dims_for(t, len(kinds), tier):
                w = {'part': 'entry', 'entry': name, 'tmpl': t.name, 'kinds': list(kinds), 'dims': [M.enc(d) for d in dims]}
                judged += account(res, w, D.run_case(name, fn, t, kinds, dims), name, t.name)
    if not judged:
        res.errors.append('no case of dispatch entry {} was judged (reference undefined everywhere?)'.format(name))


def account(res, w, outcome, name, tname):
    status, detail = outcome
    res.count('evaluations')
    res.count('cases_' + status.lower().replace('-', '_'))
    if status == 'VIOLATION':
        kind, msg = detail[:2]
        if len(detail) > 2:   # the composition blames one of its two operations
            tname = detail[2]
        res.violation('{}:{}:{}'.format(kind, name, tname), '{} {} {} dims={}: {}'.format(
            name, tname, w.get('kinds') or w.get('kind') or '', [M.dkey(M.dec(d)) for d in w.get('dims', [])], msg), w)
        return 1
    if status in ('ok', 'reject-ok'):
        res.distinct('distinct_nontrivial', json.dumps(w, sort_keys=True))
        res.distinct('distinct_outcomes', '{}:{}'.format(status, detail))
        if status == 'ok' and len(res.samples) < 3:
            res.sample({'case': w, 'outcome': '{} [{}]'.format(status, detail)})
        return 1
    return 0


def run_shard(spec, tier, seed):
    res = core.ShardResult()
    part = spec['part']
    if part == 'entry':
        run_entry(spec['name'], res, tier)
    elif part == 'dimalg':
        from ..c20_special import run_dimalg
        run_dimalg(res, tier)
    elif part == 'depth2':
        from ..c20_compose import numeric_cases, case_numeric
        for w in numeric_cases(spec['outer']):
            account(res, w, case_numeric(w), 'depth2', w['outer'])
    elif part == 'depth2f':
        from ..c20_compose import function_cases, case_function
        for w in function_cases(spec['outer'], spec['inner'], tier):
            account(res, w, case_function(w), 'depth2f', w['outer'])
    elif part == 'sitable':
        run_sitable(res)
    elif part == 'si':
        run_si(spec, res, tier)
    elif part == 'setattr':
        run_setattr(spec, res)
    elif part == 'old':
        run_old(spec, res, tier)
    else:
        raise core.HarnessError('unknown shard ' + repr(spec))
    return res


def _simple(res, w, v, label):
    res.count('evaluations')
    if v:
        res.count('cases_violation')
        res.violation('{}:{}'.format(v[0], label), v[1], w)
    else:
        res.count('cases_ok')
        res.distinct('distinct_nontrivial', json.dumps(w, sort_keys=True, ensure_ascii=False))
        if not res.samples:
            res.sample({'case': w, 'outcome': 'ok'})


def run_sitable(res):
    from .. import c20_strings as S
    keys = S.si_keys()
    bad = {k: (kind, msg) for kind, msg, k in S.check_table()}
    for k in keys:
        _simple(res, {'part': 'sikey', 'key': k}, bad.get(k), 'SI.units')
    res.count('competing_readings', len(S.competing(keys)))
    for s in S.INVALID:
        _simple(res, {'part': 'siinvalid', 's': s}, S.check_invalid(s), 'SI.parse')
    res.sample({'competing prefix+name readings': S.competing(keys), 'units': len(keys)})


def si_terms(nf, tier):
    from .. import c20_strings as S
    if nf == 1:
        return S.si1_terms()
    if nf == 2:
        return S.si2_terms(S.ATOMS_LARGE)
    return S.si3_terms(S.ATOMS_SMALL) if tier == 'quick' else S.si3_terms(S.ATOMS_MEDIUM)


def run_si(spec, res, tier):
    from .. import c20_strings as S
    for i, term in enumerate(si_terms(spec['nf'], tier)):
        if i % spec['of'] != spec['chunk']:
            continue
        w = {'part': 'siterm', 'term': term}
        v = S.check_si_term(term)
        _simple(res, w, v, 'SI-string:{}-factor'.format(spec['nf']))
        if not v and i % 50021 == 0:
            res.sample({'unit string': M.si_term_string(*term)})


def run_setattr(spec, res):
    from .. import c20_strings as S
    for i, name in enumerate(S.setattr_candidates()):
        if i % spec['of'] != spec['chunk']:
            continue
        for form in ('q', 's', 'x'):
            w = {'part': 'setattr', 'name': name, 'form': form}
            _simple(res, w, S.check_setattr(name, form), 'Units.__setattr__')


def run_old(spec, res, tier):
    from .. import c20_strings as S
    if spec['nf'] == 1:
        for kind, msg, s in S.check_old_invalid(spec['table']):
            res.violation(kind + ':nutils.unit', msg, {'part': 'oldinvalid', 'table': spec['table']})
    for i, term in enumerate(S.old_terms(spec['table'], spec['nf'], tier)):
        if i % spec['of'] != spec['chunk']:
            continue
        w = {'part': 'oldterm', 'table': spec['table'], 'term': term}
        _simple(res, w, S.check_old_term(spec['table'], term), 'nutils.unit:{}'.format(spec['table']))


def replay(w):
    D = _dispatch()
    part = w['part']
    if part == 'entry':
        from ..c20_catalogue import build
        fn = D.entries().get(w['entry'])
        if fn is None:
            return None
        t, = [t for t in build()[w['entry']] if t.name == w['tmpl']]
        status, detail = D.run_case(w['entry'], fn, t, tuple(w['kinds']), [M.dec(d) for d in w['dims']])
        return '{}: {}'.format(*detail) if status == 'VIOLATION' else None
    fmt = lambda v: None if v is None else '{}: {}'.format(*v)
    if part == 'depth2':
        from ..c20_compose import case_numeric
        status, detail = case_numeric(w)
        return fmt(detail[:2]) if status == 'VIOLATION' else None
    if part == 'depth2f':
        from ..c20_compose import case_function
        status, detail = case_function(w)
        return fmt(detail) if status == 'VIOLATION' else None
    from .. import c20_strings as S
    if part == 'siterm':
        return fmt(S.check_si_term(w['term']))
    if part == 'sikey':
        return fmt(next(((k, m) for k, m, key in S.check_table() if key == w['key']), None))
    if part == 'siinvalid':
        return fmt(S.check_invalid(w['s']))
    if part == 'setattr':
        return fmt(S.check_setattr(w['name'], w['form']))
    if part == 'oldterm':
        return fmt(S.check_old_term(w['table'], w['term']))
    if part == 'oldinvalid':
        return fmt(next(((k, m) for k, m, s in S.check_old_invalid(w['table'])), None))
    from ..c20_special import REPLAY
    if part in REPLAY:
        return REPLAY[part](w)
    raise core.HarnessError('unknown witness ' + repr(w)[:200])


def finalize(cov, tier):
    cov['explanation'] = 'every case is executed on the real nutils objects; the model is an exponent vector plus the same call on plain numbers'
