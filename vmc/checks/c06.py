'''C06 - static array metadata is sound.

For every term of the IR term space, of the loop grammar and of a dedicated integer alphabet built around the
range-inference rules, EVERY node of the real nutils DAG (root, children, shape expressions, the nodes of the simplified
form) is visited; nodes inside loop bodies are evaluated at every iteration by substituting the loop index.  Announced
ndim / shape / dtype / arguments / integer bounds are compared with what evaluation delivers; integer arguments are
enumerated exhaustively over {-2..2}, so the consumers of the bounds (InRange / NormDim / Mod / Minimum / Maximum
rewrites) are decided for all inputs of the alphabet.
'''

import json, itertools
import numpy
from .. import core, terms as T, irspace, irtools, loopspace as LS, extraspace as XS

LEVEL = 'exploration'
RULE = ('for every term (float space depth<=2; integer alphabet: quick = all 29 int operations at depth 1 and the 14 range-inference operations over 7 leaves at depth 2, thorough = all at depth 2; exhaustive int valuations in {-2..2}; loop programs; structured families) every distinct '
        'node of the built DAG and of its simplified form is evaluated (loop-body nodes at every iteration) and compared with its announced ndim, '
        'shape, dtype, argument set and integer bounds; simplified int terms are compared with the original on all valuations. '
        'non-trivial = distinct (node hash) with finite integer bounds on at least one side, or whose shape is a computed (non-constant) expression, '
        'or that sits inside a loop body')
ASSUMPTIONS = ['numpy reference interpreter for attribution only: the oracle is announced-vs-evaluated on the real nodes',
               'integer arguments range over {-2..2}, booleans over {0,1}, exhaustively; floats on fixed sets']
BUDGET_S = {'quick': 400, 'thorough': 5000}

INT_OPS = ['add', 'multiply', 'subtract', 'negative', 'abs', 'sign', 'mod', 'floordiv', 'minimum', 'maximum', 'sum', 'inrange', 'normdim',
           'ravelindex', 'sizestooffsets', 'argsort', 'searchsorted', 'takearg', 'getl', 'choose', 'greater', 'less', 'equal', 'toint', 'take',
           'inflatearg', 'powc', 'insertaxis', 'product']
RANGE_OPS = ['add', 'multiply', 'subtract', 'negative', 'abs', 'sign', 'mod', 'floordiv', 'minimum', 'maximum', 'sum', 'inrange', 'normdim', 'takearg']
PROFILES = {
    # quick: the whole integer alphabet at depth 1 (1.5 k terms), the range-inference operations over a 7-leaf subset at depth 2 (40 k terms;
    # the full alphabet has 3.2e5 depth-2 terms with up to 1500 valuations each: thorough)
    'quick': [{'name': 'int-d1', 'leaves': 'int', 'consts': False, 'ops': INT_OPS, 'depth': 1},
              {'name': 'int-d2-range', 'leaves': 'int-small', 'consts': False, 'ops': RANGE_OPS, 'depth': 2},
              {'name': 'float-d1', 'leaves': 'mixed', 'consts': True, 'ops': 'all', 'depth': 1},
              {'name': 'float-d2-core', 'leaves': 'sq', 'consts': False, 'ops': 'core', 'depth': 2}],
    'thorough': [{'name': 'int-d2', 'leaves': 'int', 'consts': False, 'ops': INT_OPS, 'depth': 2},
                 {'name': 'float-d2', 'leaves': 'f7', 'consts': True, 'ops': 'all', 'depth': 2}],
}
NPARTS = {'quick': {1: 2, 2: 120}, 'thorough': {1: 4, 2: 600}}
LOOP_CHUNK = 150
INT_VALUES = (-2, -1, 0, 1, 2)


def shards(tier, seed):
    out = []
    n = len(LS.programs(tier))
    for lo in range(0, n, LOOP_CHUNK):
        out.append({'kind': 'loops', 'lo': lo, 'hi': min(n, lo + LOOP_CHUNK)})
    out += [{'kind': 'extra', 'lo': lo, 'hi': lo + 160} for lo in range(0, len(XS.terms(tier)), 160)]
    for s in irspace.shards(PROFILES[tier], NPARTS[tier]):
        s['kind'] = 'terms'
        out.append(s)
    return out


def dag_nodes(root):
    'all distinct Array nodes reachable from root through dependencies (shape expressions included)'
    from nutils import evaluable
    seen = {}
    stack = [root]
    while stack:
        n = stack.pop()
        if id(n) in seen:
            continue
        seen[id(n)] = n
        for d in getattr(n, 'dependencies', ()):
            stack.append(d)
        if isinstance(n, evaluable.Array):
            for s in n.shape:
                stack.append(s)
    return [n for n in seen.values() if isinstance(n, evaluable.Array)]


def free_loops(node):
    from nutils import evaluable
    return sorted({(a.loop_id, int(a.length)) for a in node.arguments if isinstance(a, evaluable._LoopIndex) and a.length.isconstant}, key=lambda x: repr(x[0]))


def has_unbounded_loop(node):
    from nutils import evaluable
    return any(isinstance(a, evaluable._LoopIndex) and not a.length.isconstant for a in node.arguments)


def bind_loops(node, binding):
    from nutils import evaluable, _util as util

    def repl(obj):
        if isinstance(obj, evaluable._LoopIndex) and obj.loop_id in binding:
            return evaluable.constant(binding[obj.loop_id])
    return util.shallow_replace(repl, node)


def check_node(node, envs, res=None):
    'announced metadata vs evaluation for one node; returns None or (kind, what)'
    from nutils import evaluable
    if has_unbounded_loop(node):
        return None
    loops = free_loops(node)
    announced_args = {a.name for a in node.arguments if isinstance(a, evaluable.Argument)}
    try:
        lo, hi = node._intbounds if node.dtype == int else (None, None)
    except Exception:
        # the range analysis evaluates constant scalars eagerly; an ill-defined constant program (index out of range) is outside the property
        if res is not None:
            res.count('static_analysis_raised')
        return None
    const_shape = all(n.isconstant for n in node.shape)
    for binding in itertools.product(*[range(n) for lid, n in loops]):
        bound = bind_loops(node, {lid: i for (lid, n), i in zip(loops, binding)}) if loops else node
        if any(isinstance(a, evaluable._LoopIndex) for a in bound.arguments):
            return None
        try:
            f = irtools.compile_((bound, bound.shape), simplify=False, optimize=False)
        except Exception as e:
            if res is not None:
                res.count('node_compile_raised')
            return None
        for env in envs:
            sub = {k: v for k, v in env.items() if k in announced_args}
            try:
                with numpy.errstate(all='ignore'):
                    v, sh = f(sub)
            except KeyError as e:
                return ('arguments', '{} needs argument {} which it does not announce ({})'.format(type(node).__name__, e, sorted(announced_args)))
            except Exception:
                if res is not None:
                    res.count('node_eval_raised')
                continue
            if res is not None:
                res.count('evaluations')
            v = numpy.asarray(v)
            if v.ndim != node.ndim:
                return ('ndim', '{} announces ndim {} but evaluates to shape {}'.format(type(node).__name__, node.ndim, v.shape))
            if tuple(int(n) for n in sh) != v.shape:
                return ('shape', '{} announces shape {} but evaluates to shape {}'.format(type(node).__name__, tuple(int(n) for n in sh), v.shape))
            if irtools.kind_of(v) != T.KIND_OF.get(node.dtype):
                return ('dtype', '{} announces dtype {} but evaluates to {}'.format(type(node).__name__, node.dtype.__name__, v.dtype))
            if node.dtype == int and v.size:
                if v.min() < lo or v.max() > hi:
                    return ('intbounds', '{} announces integer range [{},{}] but evaluates to {} (loop binding {}, arguments {})'.format(
                        type(node).__name__, lo, hi, v.tolist(), binding, {k: numpy.asarray(x).tolist() for k, x in sub.items()}))
    if res is not None and (loops or not const_shape or (node.dtype == int and (lo != float('-inf') or hi != float('inf')))):
        res.distinct('distinct_nontrivial', node.__nutils_hash__.hex() if hasattr(node, '__nutils_hash__') else repr(node))
    return None


def check_term(term, res=None):
    'returns None or (where, kind, what)'
    shape, kind = T.typeof(term)
    try:
        node = T.build(term)
    except Exception as e:
        return ('-', 'build', repr(e)[:200])
    args = T.arguments(term)
    envs = T.valuations(args, nsets=1, int_values=INT_VALUES)
    nodes = dag_nodes(node)
    try:
        if not irtools.simplifies(node):
            raise RuntimeError('simplifier fails: C01')
        simple = node.simplified
        if simple is not node:
            known = {id(n) for n in nodes}
            nodes += [n for n in dag_nodes(simple) if id(n) not in known]
    except Exception:
        simple = None   # C01's business
    for n in nodes:
        if res is not None:
            res.count('nodes')
        try:
            fail = check_node(n, envs, res)
        except (AssertionError, TypeError, ValueError) as e:
            if res is not None:
                res.count('node_check_raised')
            continue
        if fail:
            return (type(n).__name__,) + fail
    # consumers of the ranges: the simplified int term must agree with the original on ALL integer valuations
    if kind in 'ib' and simple is not None and simple is not node and not T.freevars(term):
        try:
            f0 = irtools.compile_(node, simplify=False, optimize=False)
            f1 = irtools.compile_(simple, simplify=False, optimize=False)
        except Exception:
            return None
        for env in envs:
            try:
                r = T.ref(term, env)
            except T.OutOfDomain:
                continue
            try:
                with numpy.errstate(all='ignore'):
                    v0 = f0(env)
            except Exception:
                continue
            if not irtools.close(v0, r, kind):
                if res is not None:
                    res.count('raw_vs_reference_disagreements')
                continue
            try:
                with numpy.errstate(all='ignore'):
                    v1 = f1(env)
            except Exception as e:
                return ('root', 'range-consumer', 'simplified form raises {!r} where the original gives {} at {}'.format(e, v0.tolist(), {k: numpy.asarray(x).tolist() for k, x in env.items()}))
            if res is not None:
                res.count('evaluations')
            if not irtools.close(v1, v0, kind):
                return ('root', 'range-consumer', 'simplified form gives {} but the original {} at {}'.format(numpy.asarray(v1).tolist(), v0.tolist(), {k: numpy.asarray(x).tolist() for k, x in env.items()}))
    return None


def _one(term, res):
    res.count('programs')
    try:
        fail = check_term(term, res)
    except T.IllTyped:
        return
    if fail is None:
        return
    if fail[1] == 'build':
        res.count('build_errors')
        return
    from .c01 import abstract
    res.violation('{}:{}:{}'.format(fail[1], fail[0], abstract(term))[:300], '{} :: node {} {}: {}'.format(T.show(term), fail[0], fail[1], fail[2]), {'term': T.to_json(term)})


def run_shard(spec, tier, seed):
    irtools.quiet()
    res = core.ShardResult()
    last = None
    if spec['kind'] == 'extra':
        for fam, term in XS.terms(tier)[spec['lo']:spec['hi']]:
            _one(term, res)
            last = term
    elif spec['kind'] == 'loops':
        for fam, prog in LS.programs(tier)[spec['lo']:spec['hi']]:
            for term in LS.flatten(prog):
                _one(term, res)
                last = term
    else:
        for term in irspace.shard_terms(spec['profile'], spec['level'], spec['part'], spec['nparts']):
            for closed in T.closures(term):
                _one(closed, res)
                last = closed
    if last is not None and spec.get('part', 0) == 0:
        res.sample({'term': T.show(last), 'kind': spec['kind']})
    return res


def replay(w):
    irtools.quiet()
    fail = check_term(T.from_json(w['term']))
    if fail is None or fail[1] == 'build':
        return None
    return 'node {} {}: {}'.format(*fail)


def finalize(cov, tier):
    cov['profiles'] = PROFILES[tier]
    cov['int_values'] = list(INT_VALUES)
