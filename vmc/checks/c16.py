'''C16 - parallel evaluation equals serial evaluation.

(a) parallel.range: 2-3 real processes draining one pre-fork range under the process scheduler (vmc.sched), all
    interleavings with <= 2 preemptions at line granularity of range.__next__ and at the (shimmed, real) Lock.
(b) every loop program compiled under maxprocs(2): the GENERATED SCRIPT is explored by the virtual fork interpreter
    (vmc.vfork) with 2 (thorough 3) workers and <= 2 preemptions; oracles: return value == serial value, every iteration
    executed exactly once, Eraser lockset discipline on shared arrays, no deadlock, no exception; one worker == real run.
(b') conformance: for a few programs the REAL compiled function (real parallel.fork, real mmap, real Lock, real range) is
    explored under the process scheduler; every real execution must return the serial value and its iteration-ownership
    pattern must be one the interpreter produced.
(c) worker faults with the real parallel.fork: worker x j-th claimed iteration x {raise, _exit(3), SIGKILL}; the call must
    raise in the parent and leave no running child.
(d) free running: loop programs and Topology.locate under maxprocs 2/3 equal maxprocs 1.
'''

import os, sys, json, time, signal, itertools
import numpy
from .. import core, terms as T, irtools, loopspace as LS, vfork, sched

LEVEL = 'model_checking'
RULE = ('(a) parallel.range with stop in 0..4 x 2 (thorough also 3) workers x all schedules with <=2 preemptions (quick: <=1 for stop 2,3,4); '
        '(b) every loop program (families p1,p3,p4,tuples; thorough +p2) x all schedules of 2 (thorough 3) virtual workers at statement '
        'granularity with <=2 preemptions (quick: <=2 for single loops, tuples, every 4th nested loop and every 4th loop sum into a loop-shaped '
        'array, <=1 for the other adjacent-loop and nested programs); (b\') real forked processes for three programs with <=1 (thorough 2) '
        'preemptions; (c) all (worker, iteration, fault kind) triples; (d) free-running pass over every 32nd (thorough: every) program. '
        'states = distinct (program, schedule) executions, transitions = scheduled steps; non-trivial = schedules with >=1 preemption in which '
        'both workers claim at least one iteration')
ASSUMPTIONS = ['the virtual fork shares exactly the arrays allocated by parallel.shempty and the multiprocessing.Lock objects (validated by (b\') against real forks)',
               'scheduling granularity: Python statements of the generated script / lines of parallel.range.__next__; races inside one numpy call are out of reach',
               'statement semantics are Python\'s own (each simple statement is executed by exec)']
BUDGET_S = {'quick': 480, 'thorough': 6000}
PROG_CHUNK = 25


def shards(tier, seed):
    out = []
    for nw in ((2,) if tier == 'quick' else (2, 3)):
        for stop in range(5):
            # every execution forks its workers and forks are a machine-wide bottleneck here (core.fork_token): quick explores two
            # preemptions up to one iteration and one preemption above; thorough two everywhere, split over shards by first deviations
            bound = 2 if tier == 'thorough' or stop <= 1 else 1
            nsplit = 6 if tier == 'thorough' and stop else 1
            for k in range(nsplit):
                out.append({'part': 'a', 'workers': nw, 'stop': stop, 'bound': bound, 'split': [k, nsplit]})
    n = len(LS.programs(tier))
    nb = -(-n // PROG_CHUNK)
    for k in range(nb):   # strided: shard k takes programs k, k+nb, ... (the expensive families are spread over all shards)
        out.append({'part': 'b', 'k': k, 'n': nb})
    for i in range(len(conformance_programs())):
        for k in range(1 if tier == 'quick' else 6):
            out.append({'part': 'bprime', 'index': i, 'bound': 1 if tier == 'quick' else 2, 'split': [k, 1 if tier == 'quick' else 6]})
    for k in range(2):
        out.append({'part': 'c', 'k': k, 'n': 2})
    for k in range(2):
        out.append({'part': 'd', 'k': k, 'n': 2})
    if tier == 'quick':
        return out   # 12 real-process shards, the longest of them is the critical path: start them first
    # thorough: 72 real-process shards that wait for the fork token (2 slots machine-wide): handing them all out first would park every
    # worker on the token; one of them is started after every 4th interpreter shard instead
    real = [s for s in out if s['part'] != 'b']
    out = []
    for i, s in enumerate(s for s in _b_shards(tier)):
        if i % 4 == 0 and real:
            out.append(real.pop(0))
        out.append(s)
    return out + real


def _b_shards(tier):
    n = len(LS.programs(tier))
    nb = -(-n // PROG_CHUNK)
    return [{'part': 'b', 'k': k, 'n': nb} for k in range(nb)]


# --------------------------------------------------------------------------------------------- (a) parallel.range

def _match_range(code):
    return code.co_filename.endswith(os.path.join('nutils', 'parallel.py')) and code.co_name == '__next__'


def range_execution(nw, stop, prefix):
    from nutils import parallel

    def setup():
        rng = parallel.range(stop)
        rng._lock = sched.LockShim(rng._lock, 'range')
        return rng
    body = lambda rng: list(int(i) for i in rng)
    return sched.run([body] * nw, prefix, trace_match=_match_range, setup=setup)


def judge_range(ex, nw, stop):
    if ex.deadlock:
        return 'deadlock in parallel.range: {}'.format(ex.deadlock)
    claimed = []
    for i in range(nw):
        r = ex.results.get(i)
        if not isinstance(r, list):
            return 'worker {} ended with {!r}'.format(i, r)
        claimed += r
    if sorted(claimed) != list(range(stop)):
        return 'workers claimed {} instead of a partition of range({})'.format([ex.results[i] for i in range(nw)], stop)
    return None


def run_range(spec, res, only_prefix=None):
    nw, stop = spec['workers'], spec['stop']
    if only_prefix is not None:
        return judge_range(range_execution(nw, stop, only_prefix), nw, stop)
    e1, e2 = range_execution(nw, stop, []), range_execution(nw, stop, [])
    if e1.trace != e2.trace or e1.results != e2.results:
        raise core.HarnessError('nondeterministic replay of parallel.range schedule')

    def on(ex):
        res.count('evaluations'); res.count('states'); res.count('transitions', len(ex.points)); res.count('traces_validated_against_impl')
        res.distinct('distinct_outcomes', repr(('range', stop, tuple(tuple(ex.results.get(i) or ()) for i in range(nw)))))
        if ex.preemptions and all(ex.results.get(i) for i in range(nw)):
            res.distinct('distinct_nontrivial', json.dumps(['a', nw, stop, ex.choices]))
        f = judge_range(ex, nw, stop)
        if f:
            res.violation('range:{}'.format(f.split(' ')[0]), '{} (workers={}, stop={})'.format(f, nw, stop), {'part': 'a', 'workers': nw, 'stop': stop, 'choices': ex.choices})
            return False
    n = sched.explore(lambda p: range_execution(nw, stop, p), spec['bound'], on, part=tuple(spec['split']) if spec.get('split') else None, split_depth=min(2, spec['bound']),
                      symmetric=True)   # identical workers iterating one range: which one moves first is a renaming
    res.sample({'part': 'a', 'workers': nw, 'stop': stop, 'executions': n})


# --------------------------------------------------------------------------------------------- (b) virtual fork

def _values_equal(v, r):
    if isinstance(r, tuple):
        return isinstance(v, tuple) and len(v) == len(r) and all(_values_equal(a, b) for a, b in zip(v, r))
    v = numpy.asarray(v); r = numpy.asarray(r)
    if v.shape != r.shape:
        return False
    if r.dtype.kind in 'biu':
        return bool((v == r).all())
    return bool(numpy.allclose(v, r, rtol=1e-12, atol=1e-12))


def check_program_vm(prog, nworkers, bound, res=None, only=None):
    'returns None or (kind, what, choices)'
    from nutils import evaluable
    try:
        node = LS.build(prog)
    except Exception:
        return None
    if not irtools.simplifies(node):
        return None
    envs = T.valuations(LS.arguments(prog), nsets=1, exhaustive_int=False)
    env = envs[0] if envs else {}
    try:
        LS.ref(prog, env)
        with numpy.errstate(all='ignore'):
            serial = evaluable.compile(node, cache_const_intermediates=False)(env)
    except Exception:
        return None
    for cache in (False, True):
        try:
            f, P = vfork.capture_compile(node, maxprocs=2, cache_const_intermediates=cache)
        except Exception as e:
            return ('compile', 'compile under maxprocs(2) raised {!r}'.format(e), [])
        if 'ctxrange' not in P.script:
            if res is not None:
                res.count('programs_without_parallel_loop')
            return None
        # one worker == the real function (binds the interpreter to the implementation)
        m1, v1 = vfork.run_once(P, env, 1, [])
        if m1.violations or not _values_equal(v1, serial):
            return ('vm-serial', 'interpreter with one worker gives {} / {} but the serial function gives {}'.format(v1, m1.violations, serial), [])
        if only is not None:
            if only[0] != cache:
                continue
            m, val = vfork.run_once(P, env, nworkers, only[1])
            return _judge_vm(m, val, serial, only[1])
        state = {}

        def on(m, val):
            if res is not None:
                res.count('evaluations'); res.count('states'); res.count('transitions', len(m.points))
                res.distinct('distinct_outcomes', repr(tuple(m.owner_pattern)))
                if any(p['preempt'] for p in m.points) and all(len(set(pat)) > 1 for pat in m.owner_pattern if pat):
                    res.distinct('distinct_nontrivial', LS.show(prog) + repr(m.choices))
            f_ = _judge_vm(m, val, serial, m.choices)
            if f_:
                state['fail'] = f_
                return False
        n = vfork.explore(P, env, nworkers, bound, on, max_executions=60000)
        if res is not None:
            res.maximum('max_schedules_per_program', abs(n))
            if n < 0:
                res.count('capped')
        if 'fail' in state:
            return state['fail'][:2] + ([cache, state['fail'][2]],)
    return None


def _judge_vm(m, val, serial, choices):
    if m.violations:
        v = m.violations[0]
        return (v.split(':')[0].split(' ')[0], v, list(choices))
    if not _values_equal(val, serial):
        return ('value', 'parallel result {} differs from the serial result {}'.format(val, serial), list(choices))
    return None


# --------------------------------------------------------------------------------------------- (b') real forks under the scheduler

def conformance_programs():
    L = T.loop_leaves()
    infl = ('loopsum', ('l', 3), ('inflatearg', (0, 4), L[4], L[3]))
    cat = ('loopcat', ('l', 3), L[1])
    sca = ('loopsum', ('l', 3), L[0])
    return [sca, (infl, cat, sca), ('raggedsum', ('r', 3, 1), T.A('b', (3,)))]


def _match_compiled(code):
    return (code.co_filename.startswith('function_') and code.co_name == 'compiled') or _match_range(code)


def real_execution(prog, prefix):
    'one scheduled execution of the REAL compiled function with maxprocs(2): driver = worker 0, the child forked by nutils = worker 1'
    from nutils import evaluable, parallel
    node = LS.build(prog)
    env = (T.valuations(LS.arguments(prog), nsets=1, exhaustive_int=False) or [{}])[0]

    def body(ctx):
        import multiprocessing, treelog
        real_lock = multiprocessing.Lock
        multiprocessing.Lock = lambda: sched.LockShim(real_lock(), 'L')
        real_fork = os.fork
        real_waitpid = os.waitpid
        nxt = {'k': 1}

        def fork():
            k = nxt['k']
            nxt['k'] += 1
            pid = real_fork()
            if pid == 0:
                sched.adopt_late(k)
            else:
                sched.release_late(k)
            return pid

        def waitpid(pid, options):
            def blocked():
                try:
                    r = os.waitid(os.P_PID, pid, os.WEXITED | os.WNOHANG | os.WNOWAIT)
                except ChildProcessError:
                    return False
                return r is None
            sched.point(('waitpid',), blocked)
            return real_waitpid(pid, options)
        os.fork = fork
        os.waitpid = waitpid
        orig_next = parallel.range.__next__

        def traced_next(self):
            i = orig_next(self)
            sched.point(('claimed', int(i)))
            return i
        parallel.range.__next__ = traced_next
        with treelog.set(treelog.NullLog()), parallel.maxprocs(2):
            f = evaluable.compile(node, cache_const_intermediates=False)
            val = f(env)
        return [numpy.asarray(x).tolist() for x in (val if isinstance(val, tuple) else (val,))]
    return sched.run([body], prefix, trace_match=lambda c: c.co_filename.startswith('function_') and c.co_name == 'compiled', late_workers=1), env, node


def run_conformance(spec, res, only_prefix=None):
    from nutils import evaluable
    prog = conformance_programs()[spec['index']]
    node = LS.build(prog)
    env = (T.valuations(LS.arguments(prog), nsets=1, exhaustive_int=False) or [{}])[0]
    serial = evaluable.compile(node, cache_const_intermediates=False)(env)
    serial = [numpy.asarray(x).tolist() for x in (serial if isinstance(serial, tuple) else (serial,))]
    # the interpreter's outcome set at a generous bound
    f, P = vfork.capture_compile(node, maxprocs=2, cache_const_intermediates=False)
    vm_patterns = set()
    vfork.explore(P, env, 2, 3, lambda m, val: vm_patterns.add(tuple(m.owner_pattern)) or True, max_executions=200000)

    def judge(ex):
        if ex.deadlock:
            return 'deadlock in the real parallel run: {}'.format(ex.deadlock)
        r = ex.results.get(0)
        if not (isinstance(r, list) and len(r) == len(serial) and all(numpy.allclose(a, b, rtol=1e-12, atol=1e-12) for a, b in zip(r, serial))):
            return 'real parallel run returned {!r} instead of {!r}'.format(r, serial)
        owners = {}
        for w, tag in ex.trace:
            pass
        return None

    def pattern(ex):
        claims = [(w, tag[1]) for w, tag in ex.trace if tag[0] == 'claimed']
        # the point is reported BEFORE the claimed index is used; the trace records who was released past it
        n = len({i for w, i in claims})
        return (tuple(w for w, i in sorted(claims, key=lambda c: c[1])),)
    if only_prefix is not None:
        ex, _, _ = real_execution(prog, only_prefix)
        return judge(ex)
    e1, _, _ = real_execution(prog, [])
    e2, _, _ = real_execution(prog, [])
    if e1.trace != e2.trace or e1.results != e2.results:
        raise core.HarnessError('nondeterministic replay of the real parallel run')
    seen_patterns = set()

    def on(ex):
        res.count('evaluations'); res.count('states'); res.count('transitions', len(ex.points))
        f_ = judge(ex)
        pat = pattern(ex)
        seen_patterns.add(pat)
        if f_ is None and pat not in vm_patterns:
            f_ = 'iteration ownership {} of a real run is not producible by the fork interpreter (model does not cover the implementation)'.format(pat)
        if f_:
            res.violation('real:{}'.format(f_.split(' ')[0]), '{} (program {})'.format(f_, LS.show(prog)), {'part': 'bprime', 'index': spec['index'], 'choices': ex.choices})
            return False
        res.count('traces_validated_against_impl')
        if ex.preemptions and len(set(pat[0])) > 1:
            res.distinct('distinct_nontrivial', json.dumps(['bprime', spec['index'], ex.choices]))
    n = sched.explore(lambda p: real_execution(prog, p)[0], spec['bound'], on, part=tuple(spec['split']) if spec.get('split') else None, split_depth=min(2, spec['bound']))
    res.sample({'part': 'bprime', 'program': LS.show(prog), 'real_executions': n, 'real_ownership_patterns': len(seen_patterns), 'interpreter_ownership_patterns': len(vm_patterns)})


# --------------------------------------------------------------------------------------------- (c) worker faults

def fault_cases():
    'the parent (victim 0) can only raise: a killed parent is the caller itself dying'
    return [{'nprocs': n, 'victim': v, 'at': j, 'kind': k} for n in (2, 3) for v in range(n) for j in (1, 2) for k in ('raise', 'exit', 'kill') if v or k == 'raise']


def check_fault_isolated(case):
    'run one fault case in its own process (the faults are real)'
    r, w = os.pipe()
    pid = os.fork()
    if pid == 0:
        os.close(r)
        try:
            out = check_fault(case)
        except BaseException as e:
            out = 'harness: {!r}'.format(e)
        try:
            os.write(w, json.dumps(out).encode())
        finally:
            os._exit(0)
    os.close(w)
    import select
    buf = b''
    t0 = time.time()
    while time.time() - t0 < 60:
        rd, _, _ = select.select([r], [], [], 1.)
        if rd:
            c = os.read(r, 65536)
            if not c:
                break
            buf += c
    os.close(r)
    try:
        os.kill(pid, signal.SIGKILL)
    except OSError:
        pass
    os.waitpid(pid, 0)
    if not buf:
        return 'the calling process died or hung (no verdict within 60 s)'
    return json.loads(buf.decode())


def check_fault(case):
    'real parallel.fork through sample.integrate with a custom op that misbehaves in process `victim` at its j-th evaluation'
    import multiprocessing, treelog
    from nutils import mesh, function, parallel, types
    nelems = 8
    dom, geom = mesh.rectilinear([nelems])
    arrived = multiprocessing.RawValue('i', 0)
    fired = multiprocessing.RawValue('i', 0)
    ranks = multiprocessing.RawArray('i', 8)
    lock = multiprocessing.Lock()
    state = {'rank': None, 'calls': 0}
    parent = os.getpid()

    def _evalf(x):
        if state['rank'] is None or state.get('pid') != os.getpid():
            with lock:
                state['rank'] = 0 if os.getpid() == parent else 1 + sum(1 for r in ranks[:] if r)
                if os.getpid() != parent:
                    ranks[state['rank'] - 1] = os.getpid()
                arrived.value += 1
            state['pid'] = os.getpid()
            state['calls'] = 0
            t0 = time.time()
            while arrived.value < case['nprocs'] and time.time() - t0 < 5:   # barrier: every process claims at least one iteration
                time.sleep(.001)
        state['calls'] += 1
        if state['rank'] != case['victim'] and not fired.value:
            time.sleep(.03)   # let the victim claim enough iterations for the fault to fire
        if state['rank'] == case['victim'] and state['calls'] == case['at']:
            fired.value = 1
            if case['kind'] == 'raise':
                raise RuntimeError('injected fault')
            if case['kind'] == 'exit':
                os._exit(3)
            os.kill(os.getpid(), signal.SIGKILL)
        return x * 2.

    class Faulty(function.Custom):
        def __init__(self, x):
            super().__init__(args=(x,), shape=x.shape, dtype=float)
        evalf = types.hashable_function('vmc-c16-faulty-{}'.format(json.dumps(case)))(_evalf)
        partial_derivative = types.hashable_function('vmc-c16-faulty-pd')(lambda iarg, x: None)
    smp = dom.sample('gauss', 1)
    raised = None
    with treelog.set(treelog.NullLog()), parallel.maxprocs(case['nprocs']):
        try:
            val = smp.integrate(Faulty(geom[0]))
        except BaseException as e:
            raised = e
    # reap and look for survivors
    time.sleep(.05)
    survivors = []
    for pid in [p for p in ranks[:] if p]:
        try:
            r = os.waitpid(pid, os.WNOHANG)
            if r == (0, 0):
                survivors.append(pid)
                os.kill(pid, signal.SIGKILL)
                os.waitpid(pid, 0)
        except ChildProcessError:
            pass
    if not fired.value:
        return 'vacuous: the fault never fired ({} of {} processes claimed an iteration)'.format(arrived.value, case['nprocs'])
    if raised is None:
        return 'integrate returned {!r} although worker {} failed ({}) at its iteration {}'.format(val, case['victim'], case['kind'], case['at'])
    if survivors:
        return 'child processes {} were still running after the failed call'.format(survivors)
    return None


# --------------------------------------------------------------------------------------------- (d) free running

def check_free(case):
    import treelog
    from nutils import evaluable, parallel, mesh
    with treelog.set(treelog.NullLog()):
        if case['what'] == 'locate':
            dom, geom = mesh.rectilinear([3, 2])
            dom = dom.refined_by([0]) if case.get('refined') else dom
            targets = numpy.array([[.5, .5], [2.75, 1.5], [1., 1.], [0., 0.], [2.9, .1], [1.5, 1.99], [.25, .25]])
            ref = dom.locate(geom, targets, tol=1e-10).eval(geom)
            with core.fork_token(), parallel.maxprocs(case['nprocs']):
                got = dom.locate(geom, targets, tol=1e-10).eval(geom)
                try:
                    dom.locate(geom, numpy.array([[.5, .5], [9., 9.], [1., 1.]]), tol=1e-10)
                    return 'locate of an outside point did not raise under maxprocs({})'.format(case['nprocs'])
                except Exception as e:
                    if type(e).__name__ != 'LocateError':
                        return 'locate of an outside point raised {!r} instead of LocateError'.format(e)
            if not numpy.allclose(got, ref, atol=1e-9) or not numpy.allclose(ref, targets, atol=1e-9):
                return 'locate under maxprocs({}) gives {} instead of {}'.format(case['nprocs'], got.tolist(), ref.tolist())
            return None
        prog = LS.programs('quick')[case['index']][1]
        try:
            node = LS.build(prog)
        except Exception:
            return None   # the constructor itself rejects the program (counted as build error by the other parts): nothing to run
        env = (T.valuations(LS.arguments(prog), nsets=1, exhaustive_int=False) or [{}])[0]
        try:
            LS.ref(prog, env)
            serial = evaluable.compile(node)(env)
        except Exception:
            return None
        with core.fork_token(), parallel.maxprocs(case['nprocs']):
            got = evaluable.compile(node)(env)
        if not _values_equal(got, serial):
            return 'maxprocs({}) gives {} instead of {}'.format(case['nprocs'], got, serial)
        return None


def free_cases(tier):
    n = len(LS.programs('quick'))
    step = 32 if tier == 'quick' else 1
    out = [{'what': 'program', 'index': i, 'nprocs': 3} for i in range(0, n, step)]
    out += [{'what': 'locate', 'nprocs': p, 'refined': r} for p in (2, 3) for r in (False, True)]
    return out


# --------------------------------------------------------------------------------------------- driver

def run_shard(spec, tier, seed):
    irtools.quiet()
    res = core.ShardResult()
    if spec['part'] == 'a':
        run_range(spec, res)
    elif spec['part'] == 'b':
        nworkers = 2 if tier == 'quick' else 3
        last = None
        progs = LS.programs(tier)
        for g in range(spec['k'], len(progs), spec['n']):
            fam, prog = progs[g]
            res.count('programs')
            # quick: two preemptions for single loops (incl. loop-dependent chunk sizes), tuples, every fourth nested loop and every fourth
            # loop sum into a loop-shaped array; one preemption for the other adjacent-loop programs (two fork/join regions in sequence: preemptions
            # in different regions are independent) and the other nested loops.  thorough: two everywhere, three workers.
            sh = LS.show(prog)
            if tier == 'thorough' or fam in ('p1', 'tuples') or g % 4 == 0 and (fam == 'p4' or 'ragged' in sh and 'loopsum' in sh):
                bound = 2
            else:
                bound = 1
            fail = check_program_vm(prog, nworkers, bound, res)
            last = prog
            if fail:
                from .c02 import abstract_prog
                res.violation('vm:{}:{}'.format(fail[0], abstract_prog(prog))[:300], '{} :: {}'.format(LS.show(prog), fail[1])[:800], {'part': 'b', 'program': LS.to_json(prog), 'workers': nworkers, 'only': fail[2]})
        if last is not None:
            res.sample({'part': 'b', 'program': LS.show(last), 'virtual_workers': nworkers})
    elif spec['part'] == 'bprime':
        run_conformance(spec, res)
    elif spec['part'] == 'c':
        for case in fault_cases()[spec.get('k', 0)::spec.get('n', 1)]:
            res.count('evaluations'); res.count('states'); res.count('transitions'); res.count('traces_validated_against_impl')
            try:
                with core.fork_token():
                    fail = check_fault_isolated(case)
            except Exception as e:
                fail = 'harness: {!r}'.format(e)
            if fail and fail.startswith('vacuous'):
                res.count('vacuous_fault_cases')
            elif fail:
                res.violation('fault:{}:{}'.format(case['kind'], 'parent' if case['victim'] == 0 else 'child'), '{} :: {}'.format(case, fail), {'part': 'c', 'case': case})
            else:
                res.distinct('distinct_nontrivial', json.dumps(case))
        res.sample({'part': 'c', 'case': fault_cases()[0]})
    else:
        for case in free_cases(tier)[spec.get('k', 0)::spec.get('n', 1)]:
            res.count('evaluations'); res.count('states'); res.count('transitions'); res.count('traces_validated_against_impl')
            try:
                fail = check_free(case)
            except Exception as e:
                fail = 'raised {!r}'.format(e)[:300]
            if fail:
                res.violation('free:{}'.format(case['what']), '{} :: {}'.format(case, fail), {'part': 'd', 'case': case})
        res.sample({'part': 'd', 'cases': len(free_cases(tier))})
    return res


def replay(w):
    irtools.quiet()
    if w['part'] == 'a':
        return run_range(w, None, only_prefix=w['choices'])
    if w['part'] == 'b':
        f = check_program_vm(LS.from_json(w['program']), w['workers'], 0, only=w['only'] if w['only'] else (False, []))
        return None if f is None else '{}: {}'.format(f[0], f[1])
    if w['part'] == 'bprime':
        return run_conformance(w, core.ShardResult(), only_prefix=w['choices'])
    if w['part'] == 'c':
        out = check_fault_isolated(w['case'])
        return None if out and out.startswith('vacuous') else out
    try:
        return check_free(w['case'])
    except Exception as e:
        return 'raised {!r}'.format(e)[:300]


def finalize(cov, tier):
    cov['explanation'] = 'parts a, b-prime, c, d run the implementation itself; part b runs the real generated statements under a modelled fork; traces_validated_against_impl counts executions on real processes'
