'''C07 - function arrays follow NumPy semantics at every point.

Bounded exhaustive exploration: every entry of function.HANDLED_FUNCTIONS
(enumerated reflectively), ufuncs through __array_ufunc__, __getitem__, the
python operators and the thin Array methods are called on nutils function
arrays; the same call on the per-point operand values (plain numpy) is the
reference.  Compared: value at every sample point, shape, element kind; and
NumPy's shape rejections must be build-time rejections.
'''

import json, math
import numpy
from .. import core
from .. import c07_space as space
from .. import c07_eval as evalmod
from .. import c07_cases as cases

LEVEL = 'exploration'
RULE = ('every entry of function.HANDLED_FUNCTIONS (reflective; an entry without argument generator is listed under uncovered_functions) plus __getitem__, python operators, '
        'Array methods/attributes and depth-2 compositions f(g(x)) over a core subset of 26 operations; operand kinds {constant, Argument, geometry-derived, basis-derived, '
        'element-index-derived, raw ndarray / python scalar / numpy scalar next to a function array} x shapes {(),(1,),(3,),(2,1),(1,3),(2,3),(2,2)} (+(2,2,3) and family specific shapes) '
        'x dtypes {bool,int,float,complex}; binary ufuncs: all 49 broadcasting shape pairs (thorough: x all 16 dtype pairs; quick: 4 rotating dtype pairs per shape pair plus all 16 on 7 '
        'representative shape pairs); reductions: every axis incl. negative and out of range, every axis tuple, empty and repeated tuples; index items {ints -4..3, all 125 slices over '
        '{None,0,1,-1,2}^3 plus 5 out-of-range slices, Ellipsis, newaxis, 10 int and 8 bool index arrays (ndarray and list), True, 5 function-array indices} at every axis position of '
        '(2,3) and (2,2,3), bare / in a tuple / behind an Ellipsis, plus all pairs over 17 items and all triples over 10 (thorough 17) items; every reshape target of size 6 (and 12) with '
        'and without -1 from 10 source shapes; all transpose permutations (also negative, invalid); swapaxes all axis pairs; stack/concatenate on every axis (also out of range) with 1-3 '
        'arrays, mixed dtypes and mismatching shapes; 60 einsum signatures; matmul/dot over 12x12 shapes; linalg det/inv/eig/eigh/norm; take/compress/repeat/broadcast_to/diagonal/trace; '
        'choose/interp/searchsorted. Every case is evaluated on 3 samples (line: 1 point axis; product of two spaces: 2 point axes; boundary of a 2-D mesh). '
        'distinct_nontrivial = distinct (sample, call tree) whose NumPy reference is defined and which was compared at every point (value+shape+kind) or whose shape rejection was matched at build time')
ASSUMPTIONS = ['the NumPy call on the per-point operand values is the reference semantics; operand values themselves come from sample.eval',
               'element KIND (bool/int/float/complex) is compared, not the width; a float16/float32 reference (numpy computes bool/int8 input in low precision) is compared at its own precision',
               'numpy.linalg.eig is judged as a decomposition (spectrum, A v = v w, unit columns) because its result kind and order are value dependent; eigh eigenvectors are compared up to a unit factor per column',
               'calls that NumPy itself rejects for non-shape reasons (element types, values) or whose reference is not finite are outside the statement and skipped (counted)',
               'a loud build-time refusal of a documented element-type restriction (complex ordering, logic on non-bool, sign/arctan2 of complex) or of an argument form that is not implemented '
               '(concatenate axis=None, prod/repeat without axis, broadcast_to with an int shape, repeat of a non-singleton axis, norm ord, diagonal/trace of unequal axes, vdot of different shapes, '
               'searchsorted in an empty list, interp with function-array knots, short compress condition) is counted as unsupported (unsupported_documented_classes), not as a violation',
               'integer exponents and function-array indices are drawn from operands whose integer bounds nutils can prove (constants, element index): evaluable.Power / NormDim assert provable '
               'bounds, NumPy decides the same question per value (IndexError / "Integers to negative integer powers")',
               'numpy.cross is exercised with 3-vectors only (2-vectors were deprecated and are rejected by numpy >= 2.5); 0-d arrays get no integer axis argument (numpy special-cases axis 0/-1 there); '
               'numpy.linalg.norm gets axis None / int / 2-tuple only',
               'values are drawn from fixed tables of exactly representable numbers kept inside the domain of each function (no division by zero, no NaN, no branch cuts)',
               'float comparison rtol=1e-9, atol=1e-11; bool/int exact']
BUDGET_S = {'quick': 2400, 'thorough': 6000}

PER_SHARD = {'quick': 1500, 'thorough': 2500}


def _handled():
    'dotted name -> numpy object for every entry of function.HANDLED_FUNCTIONS; entries whose name does not resolve back are kept under their repr'
    from nutils import function
    out = {}
    for f in function.HANDLED_FUNCTIONS:
        name = evalmod.np_name(f)
        name = cases.ALIASES.get(name, name)
        try:
            if evalmod.resolve(name) is not f:
                name = 'unresolvable:' + name
        except AttributeError:
            name = 'unresolvable:' + name
        out[name] = f
    return out


def _units(tier):
    'ordered list of (unit name, number of cases); simplest first'
    handled = _handled()
    order = list(cases.GENERATORS)
    names = [n for n in order if n in handled] + sorted(n for n in handled if n not in cases.GENERATORS and n in cases.GENERATORS)
    units = [(n, len(cases.cases_for(n, tier))) for n in names]
    units.insert(3, ('methods', len(cases.cases_for('methods', tier))))
    units.append(('operators', len(cases.cases_for('operators', tier))))
    units.append(('getitem', len(cases.cases_for('getitem', tier))))
    units.append(('compose', len(cases.cases_for('compose', tier))))
    return units


def uncovered():
    handled = _handled()
    return sorted(n for n in handled if n not in cases.GENERATORS)


def shards(tier, seed):
    target = PER_SHARD[tier]
    out = []
    cur = []
    load = 0
    for name, ncases in _units(tier):
        cost = ncases * len(space.SAMPLES)
        nparts = max(1, math.ceil(cost / target))
        for part in range(nparts):
            c = cost / nparts
            if cur and load + c > target:
                out.append({'units': cur})
                cur, load = [], 0
            cur.append([name, part, nparts])
            load += c
    if cur:
        out.append({'units': cur})
    return out


def _witness(sample, case):
    return {'sample': sample, 'func': case['func'], 'tag': case['tag'], 'expr': case['expr']}


def run_shard(spec, tier, seed):
    res = core.ShardResult()
    for name, part, nparts in spec['units']:
        allcases = cases.cases_for(name, tier)[part::nparts]
        for sname in space.SAMPLES:
            ctx = space.Ctx.get(sname)
            for case, out in evalmod.run_batch(ctx, allcases):
                _record(res, sname, case, out)
    return res


def _record(res, sname, case, out):
    res.count('evaluations')
    res.count('fn:' + case['func'])
    st = out.status
    if st == 'ok':
        res.count('compared')
        res.count('ok:' + case['func'])
        res.distinct('distinct_nontrivial', sname + ' ' + evalmod.render(case['expr']))
        res.distinct('distinct_outcomes', case['func'] + ':' + case['tag'] + ':value')
        if res.counters.get('compared', 0) % 97 == 1:
            res.sample({'sample': sname, 'call': evalmod.render(case['expr']), 'outcome': 'equal to numpy at every point'})
    elif st == 'rejected':
        res.count('rejections_matched')
        res.count('ok:' + case['func'])
        res.distinct('distinct_nontrivial', sname + ' ' + evalmod.render(case['expr']))
        res.distinct('distinct_outcomes', case['func'] + ':' + case['tag'] + ':rejected')
        if res.counters.get('rejections_matched', 0) % 97 == 1:
            res.sample({'sample': sname, 'call': evalmod.render(case['expr']), 'outcome': 'rejected by numpy (shape) and by nutils at build time'})
    elif st == 'skip-nonshape':
        res.count('skipped_numpy_rejects_nonshape')
    elif st == 'skip-undefined':
        res.count('skipped_reference_not_finite')
    elif st == 'unsupported':
        res.count('unsupported_documented')
        res.count('unsupported:' + out.label)
    elif st == 'violation':
        w = _witness(sname, case)
        if out.batch:
            w = {'sample': sname, 'batch': out.batch, 'func': case['func'], 'tag': case['tag'], 'expr': case['expr']}
        res.violation(out.key, '{} on sample {}: {}'.format(evalmod.render(case['expr']), sname, out.what), w)
    else:
        raise core.HarnessError('unknown status {}'.format(st))


def replay(w):
    ctx = space.Ctx.get(w['sample'])
    case = {'func': w['func'], 'tag': w['tag'], 'expr': w['expr']}
    if w.get('batch'):
        for c, out in evalmod.run_batch(ctx, w['batch'], batch=len(w['batch'])):
            if c['expr'] == case['expr'] and c['func'] == case['func']:
                return None if out.status != 'violation' else '{} on sample {}: {}'.format(evalmod.render(c['expr']), w['sample'], out.what)
        return None
    out = evalmod.run_single(ctx, case)
    if out.status != 'violation':
        return None
    return '{} on sample {}: {} [{}]'.format(evalmod.render(case['expr']), w['sample'], out.what, out.key)


def finalize(cov, tier):
    per = {}
    okper = {}
    unsup = {}
    for k in list(cov):
        if k.startswith('fn:'):
            per[k[3:]] = cov.pop(k)
        elif k.startswith('ok:'):
            okper[k[3:]] = cov.pop(k)
        elif k.startswith('unsupported:'):
            unsup[k[12:]] = cov.pop(k)
    cov['unsupported_documented_classes'] = unsup
    handled = _handled()
    unc = uncovered()
    never = sorted(n for n in handled if n in cases.GENERATORS and not okper.get(n))
    cov['handled_functions_total'] = len(handled)
    cov['handled_functions_with_generator'] = len(handled) - len(unc)
    cov['uncovered_functions'] = unc
    cov['functions_without_a_single_agreeing_case'] = never
    cov['per_function'] = {n: {'cases': per.get(n, 0), 'agree': okper.get(n, 0)} for n in sorted(per)}
    if unc:
        cov['exhaustive'] = False
        cov['cap'] = (cov.get('cap', '') + ' HANDLED_FUNCTIONS entries without argument generator: {}'.format(', '.join(unc))).strip()
    cov['explanation'] = 'every case is built and evaluated on the real nutils function arrays on three samples; the reference is numpy on per-point operand values'
