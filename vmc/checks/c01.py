'''C01 - simplification terminates and preserves the value.

Bounded-exhaustive exploration of the term space (vmc.terms / vmc.irspace): every well-typed expression
DAG up to the stated depth is a state; for each state the real fixed-point simplifier is run under a
rewrite-step budget (every application of a per-node rewrite is a transition of the rewrite system) and the
simplified form is evaluated against the unsimplified one (and against the numpy reference interpreter for
attribution) on every valuation of the fixed valuation sets.
'''

import json, signal
import numpy
from .. import core, terms as T, irspace, irtools, loopspace as LS, extraspace as XS

LEVEL = 'exploration'
RULE = ('every well-typed term of the stated profiles (alphabet of constructors x leaves x parameters, breadth-first by depth) '
        'is built as a real evaluable node, simplified under a 5000-step rewrite budget, and raw / simplified / reference values are '
        'compared on 3 fixed float valuation sets x all {0,1} valuations of int/bool arguments; non-trivial = distinct term whose '
        'simplified form is a different node than the term itself and that has at least one in-domain valuation')
ASSUMPTIONS = ['numpy is the reference semantics of each constructor (vmc.terms.ref, validated against the unsimplified evaluation at depth 1)',
               'float inputs are fixed dyadic valuations away from kinks and singular matrices; the program axis is what is exhausted',
               'termination: a run that exceeds 5000 rewrite steps is reported as divergence (largest terminating run is in the evidence)']
BUDGET_S = {'quick': 420, 'thorough': 5400}
STEP_BUDGET = 5000    # largest terminating run observed: 172 steps (evidence: max_rewrite_steps)
NONTERM = 'simplification does not terminate within the budget ({} rewrite steps / {} s inside one rule)'.format(STEP_BUDGET, 8)
HANG_S = 8   # backstop for non-termination inside one rewrite rule (between two counted steps)

D3_QUICK_OPS = ['abs', 'add', 'diagonalize', 'inflate', 'multiply', 'powc', 'sum', 'take', 'takediag', 'transpose']   # the structural heart of the rewrite core; the full core is complete to depth 2 (quick) / depth 3 (thorough)
PROFILES = {
    'quick': [
        {'name': 'd2-all', 'leaves': 'f5', 'consts': False, 'ops': 'all', 'depth': 2},
        {'name': 'd2-mixed', 'leaves': 'mixed', 'consts': True, 'ops': 'all', 'depth': 1},
        {'name': 'd1-int', 'leaves': 'int', 'consts': False, 'ops': 'all', 'depth': 1},
        {'name': 'd3-core', 'leaves': 'aA', 'consts': False, 'ops': D3_QUICK_OPS, 'depth': 3, 'binary': True},
    ],
    'thorough': [
        {'name': 'd2-all', 'leaves': 'all', 'consts': True, 'ops': 'all', 'depth': 2},
        # depth 3 over the rewrite core + add/exp/insertaxis/einsum/negative; 300 parts at level 3: sibling pairs of depth-2 terms are formed
        # inside chunks of ~40 parents (the first complete run, core only with 1500 parts, took 6 min on 16 cores and found nothing)
        {'name': 'd3-core', 'leaves': 'sq', 'consts': False, 'ops': sorted(set(T.CORE) | {'add', 'exp', 'insertaxis', 'einsum', 'negative'}), 'depth': 3},
        # depth 3 over EVERY constructor of the vocabulary with leaves a (2,), A (2,2): 2.7e6 terms
        {'name': 'd3-all-aA', 'leaves': 'aA', 'consts': False, 'ops': 'all', 'depth': 3},
    ],
}
NPARTS = {'quick': {1: 1, 2: 32, 3: 96}, 'thorough': {1: 2, 2: 200, 3: 300}}


LOOP_CHUNK = 150


def shards(tier, seed):
    out = []
    n = len(LS.programs(tier))
    for lo in range(0, n, LOOP_CHUNK):
        out.append({'kind': 'loops', 'lo': lo, 'hi': min(n, lo + LOOP_CHUNK)})
    out += [{'kind': 'extra', 'lo': lo, 'hi': lo + 40} for lo in range(0, len(XS.terms(tier)), 40)]
    return out + irspace.shards(PROFILES[tier], NPARTS[tier])


class _Alarm(Exception):
    pass


def _on_alarm(signum, frame):
    raise _Alarm()


def check_term(term, nsets=3, res=None):
    '''returns None or (kind, what). kind in cycle | nonterminating | simplify-assert | simplify-exception |
    shape | dtype | value | eval-exception'''
    from nutils import evaluable
    try:
        node = T.build(term)
    except Exception as e:
        return ('build', 'constructor raised {!r}'.format(e))
    shape, kind = T.typeof(term)
    envs = T.valuations(T.arguments(term), nsets=nsets)
    defined = False
    for env in envs:
        try:
            if numpy.isfinite(T.ref(term, env)).all():
                defined = True
                break
        except T.OutOfDomain:
            pass
    old = signal.signal(signal.SIGALRM, _on_alarm)
    signal.alarm(HANG_S)
    try:
        with irtools.rewrite_budget(STEP_BUDGET, trace=True) as c:
            try:
                simple = node.simplified
            except irtools.Diverged as e:
                return ('nonterminating', NONTERM)
            except _Alarm:
                return ('nonterminating', NONTERM)
            except AssertionError as e:
                if not defined:
                    return None   # the original is undefined on every valuation (e.g. a constant index out of range): outside the statement
                return ('simplify-assert', 'assertion in simplifier: {}'.format(str(e)[:300]))
            except RecursionError as e:
                return ('nonterminating', NONTERM)
            except Exception as e:
                if 'caught in a loop' in str(e):
                    return ('cycle', '{} (rewrite cycle {})'.format(e, _cycle(c['trace'])))
                if not defined:
                    return None   # constant folding of an undefined program may raise
                return ('simplify-exception', 'simplifier raised {!r}'.format(e))
            steps = c['n']
    finally:
        signal.alarm(0)
        signal.signal(signal.SIGALRM, old)
    if res is not None:
        res.maximum('max_rewrite_steps', steps)
        res.count('transitions', steps)
    if simple is node:
        if res is not None:
            res.count('already_simple')
        return None
    if not defined:
        if res is not None:
            res.count('undefined_programs')
        return None
    if simple.ndim != len(shape) or KIND(simple.dtype) != kind:
        return ('dtype' if simple.ndim == len(shape) else 'shape', 'simplified form has ndim {} dtype {} but the term has {} {}'.format(simple.ndim, simple.dtype.__name__, len(shape), kind))
    try:
        f_raw = irtools.compile_(node, simplify=False, optimize=False)
        f_simple = irtools.compile_(simple, simplify=False, optimize=False)
    except Exception as e:
        return ('eval-exception', 'compile raised {!r}'.format(e))
    nontrivial = False
    for env in envs:
        try:
            r = T.ref(term, env)
        except T.OutOfDomain:
            if res is not None:
                res.count('out_of_domain')
            continue
        if not numpy.isfinite(r).all():
            continue
        try:
            with numpy.errstate(all='ignore'):
                v_raw = f_raw(env)
        except Exception as e:
            if res is not None:
                res.count('raw_eval_raised')
            continue
        if not numpy.isfinite(v_raw).all():
            continue
        if res is not None:
            res.count('evaluations')
        nontrivial = True
        try:
            with numpy.errstate(all='ignore'):
                v_simple = f_simple(env)
        except Exception as e:
            return ('eval-exception', 'simplified form raised {!r} where the original evaluates'.format(e))
        if not irtools.close(v_raw, r, kind) or irtools.kind_of(v_raw) != kind:
            if res is not None:
                res.count('raw_vs_reference_disagreements')
                res.sample({'raw_vs_reference_disagreement': T.show(term)})
            continue  # a code-generation (C02) or reference problem, not a simplification problem
        if v_simple.shape != v_raw.shape:
            return ('shape', 'simplified evaluates to shape {} instead of {}'.format(v_simple.shape, v_raw.shape))
        if irtools.kind_of(v_simple) != kind:
            return ('dtype', 'simplified evaluates to dtype {} instead of kind {}'.format(v_simple.dtype, kind))
        if not irtools.close(v_simple, v_raw, kind):
            return ('value', 'simplified = {} but original = {} (reference {}) at {}'.format(irtools.describe(v_simple), irtools.describe(v_raw), irtools.describe(r), _envstr(env)))
    if nontrivial and res is not None:
        res.distinct('distinct_nontrivial', repr(term))
    return None


def KIND(dtype):
    return T.KIND_OF.get(dtype, '?')


def _envstr(env):
    return {k: numpy.asarray(v).tolist() for k, v in env.items()}


def _cycle(trace):
    'rotation-normalised tail of the rewrite trace: the call sites inside the rewriter'
    if not trace:
        return '?'
    tail = trace[-60:]
    steps = ['{}>{}'.format(a, b) for a, b in tail]
    # find the shortest period of the tail
    for per in range(1, 21):
        if len(steps) >= 2 * per and steps[-per:] == steps[-2 * per:-per]:
            cyc = steps[-per:]
            k = min(range(per), key=lambda i: cyc[i:] + cyc[:i])
            return '|'.join(cyc[k:] + cyc[:k])
    return '|'.join(sorted(set(steps)))


def abstract(term):
    'leaves abstracted to kind/ndim/which-axes-are-equal; constructors, constants, axes and permutations kept'
    if term[0] == 'arg':
        shape, kind = term[1][1], term[1][2]
        eq = ''.join(str(shape.index(n)) for n in shape)
        return '{}{}'.format(kind, eq)
    p = ','.join(str(x).replace(' ', '') for x in term[1])
    return '{}[{}]({})'.format(term[0], p, ','.join(abstract(c) for c in term[2:]))


def minimal_failing(term, kind):
    'smallest subterm that fails with the same kind while all of its own subterms pass'
    for sub in T.subterms(term):
        if sub is term:
            break
        try:
            r = check_term(sub, nsets=3)
        except Exception:
            continue
        if r is not None and r[0] == kind:
            return sub
    return term


def opset(term, acc=None):
    if acc is None:
        acc = set()
    if term[0] not in ('arg', 'const'):
        acc.add(term[0])
    for c in term[2:]:
        opset(c, acc)
    return acc


def signature(term, fail):
    '''root-cause key.  Rewrite cycles / divergence: the node class the driver reports (or the periodic part of the rewrite trace)
    plus the SET of constructors of the minimal failing subterm - one rewrite-rule interplay shows up for every parameter choice
    of the same constructors, a different interplay involves different constructors.  Everything else: the failure kind plus the
    minimal failing subterm with its leaves abstracted.'''
    kind, what = fail
    m = minimal_failing(term, kind)
    if kind == 'cycle':
        cls = what.split('.simplified')[0].split(' ')[-1] if '.simplified' in what else '?'
        return 'cycle:{}:{}'.format(cls, '+'.join(sorted(opset(m)))), m
    if kind == 'nonterminating':
        return 'nonterminating:{}'.format('+'.join(sorted(opset(m)))), m
    return '{}:{}'.format(kind, abstract(m)), m


def run_shard(spec, tier, seed):
    irtools.quiet()
    res = core.ShardResult()
    if spec.get('kind') == 'loops':
        terms = [t for fam, prog in LS.programs(tier)[spec['lo']:spec['hi']] for t in LS.flatten(prog)]
    elif spec.get('kind') == 'extra':
        terms = [t for fam, t in XS.terms(tier)[spec['lo']:spec['hi']]]
    else:
        terms = (c for t in irspace.shard_terms(spec['profile'], spec['level'], spec['part'], spec['nparts']) for c in T.closures(t))
    term = None
    for term in terms:
        res.count('states')
        try:
            fail = check_term(term, res=res)
        except T.IllTyped:
            res.count('illtyped')
            continue
        if fail is None:
            continue
        if fail[0] == 'build':
            res.count('build_errors')
            res.distinct('build_error_kinds', term[0] + fail[1][:80])
            if len([s for s in res.samples if 'build_error' in s]) < 2:
                res.sample({'build_error': T.show(term), 'what': fail[1][:200]})
            continue
        key, m = signature(term, fail)
        res.violation(key, '{} :: {} (minimal failing subterm {})'.format(T.show(term), fail[1], T.show(m)), {'term': T.to_json(m), 'context': T.to_json(term)})
    if spec.get('part', 0) == 0 and term is not None:
        res.sample({'profile': spec['profile']['name'] if 'profile' in spec else spec.get('kind'), 'level': spec.get('level'), 'example_term': T.show(term)})
    return res


def replay(w):
    irtools.quiet()
    term = T.from_json(w['term'])
    fail = check_term(term)
    if fail is None and 'context' in w:
        fail = check_term(T.from_json(w['context']))
    if fail is None or fail[0] == 'build':
        return None
    return '{}: {}'.format(fail[0], fail[1])


def finalize(cov, tier):
    cov['profiles'] = PROFILES[tier]
    cov['alphabet'] = {'ops': sorted(T.OPS), 'core': T.CORE, 'leafsets': {k: [T.show(t) for t in v] for k, v in irspace.LEAFSETS.items()}}
    cov['step_budget'] = STEP_BUDGET
