'''C15 - matrix objects are faithful to the data they were assembled from.

Explicit-state search: states are live nutils Matrix objects reached by
operation sequences from an assembled matrix; in lock step a dense numpy
array (the reference model) is advanced by the same event.  After every
transition the complete observation set (export x3, products, rowsupp,
diagonal, every submatrix selection, pickling) is compared with the model.
The initial states are ALL CSR inputs inside the bounds, valid and invalid;
the invalid ones (by the documented contract) must be rejected.
'''

import itertools, pickle, json
import numpy
from .. import core

LEVEL = 'model_checking'
RULE = ('all CSR inputs with nrows<=2 (thorough 3), ncols<=3, nnz<=3, colidx in {-1..ncols}, every rowptr in {0..nnz}^(nrows+1) '
        '(valid and invalid), plus length mismatches, COO and block-CSR inputs derived from the valid ones; for every valid input all '
        'transformation sequences of depth<=2 (thorough 3) over {T,neg,*c,/c,+M2,-M2,submatrix(r,c),pickle}; after every transition '
        'the full observation set is compared with a dense numpy model. non-trivial = distinct (input, op sequence) with a valid input '
        'holding >=1 stored entry, or a distinct invalid input that reaches a validation rule')
ASSUMPTIONS = ['numpy dense arithmetic is the reference semantics', 'values come from a fixed alphabet {1.5,-2,0,.25,1+2j}; indices are exhaustive inside the bounds',
               'backends: numpy always, scipy when importable from /verif/.deps (MKL not installed)']
BUDGET_S = {'quick': 300, 'thorough': 3000}

FVALS = [1.5, -2., 0., .25]
CVALS = [1.5, 1 + 2j, 0., -2j]


def backends():
    out = ['numpy']
    try:
        import scipy.sparse  # noqa
        out.append('scipy')
    except ImportError:
        pass
    return out


def shards(tier, seed):
    maxrows = 2 if tier == 'quick' else 3
    out = []
    for backend in backends():
        for nrows in range(maxrows + 1):
            for ncols in range(4):
                for vd in ('float', 'complex'):
                    out.append({'kind': 'csr', 'backend': backend, 'nrows': nrows, 'ncols': ncols, 'vdtype': vd})
        out.append({'kind': 'block', 'backend': backend})
        out.append({'kind': 'coo', 'backend': backend})
    return out


def classify(rowptr, colidx, nvals, ncols):
    'the documented contract, written independently; returns None if valid else the first broken rule'
    if len(rowptr) < 1:
        return 'rowptr-empty'
    if rowptr[0] != 0:
        return 'rowptr-start'
    if any(b < a for a, b in zip(rowptr, rowptr[1:])):
        return 'rowptr-nonmonotone'
    if rowptr[-1] != nvals:
        return 'rowptr-end'
    if len(colidx) != nvals:
        return 'colidx-length'
    if any(c < 0 for c in colidx):
        return 'colidx-negative'
    if any(c >= ncols for c in colidx):
        return 'colidx-toolarge'
    for a, b in zip(rowptr, rowptr[1:]):
        row = colidx[a:b]
        if any(y == x for x, y in zip(row, row[1:])):
            return 'colidx-repeated'
        if any(y < x for x, y in zip(row, row[1:])):
            return 'colidx-unsorted'
    return None


def dense_of(values, rowptr, colidx, ncols, dtype):
    D = numpy.zeros((len(rowptr) - 1, ncols), dtype=dtype)
    for i, (a, b) in enumerate(zip(rowptr, rowptr[1:])):
        for k in range(a, b):
            D[i, colidx[k]] = values[k]
    return D


def _vals(vdtype, n):
    return (FVALS if vdtype == 'float' else CVALS)[:n]


def _enc(v):
    return [[complex(x).real, complex(x).imag] for x in v]


def _dec(v, vdtype):
    a = numpy.array([complex(r, i) for r, i in v], dtype=complex)
    return a.real.astype(float) if vdtype == 'float' else a


def assemble(w):
    from nutils import matrix
    values = _dec(w['values'], w['vdtype'])
    rowptr = numpy.array(w['rowptr'], dtype=w.get('idtype', 'int64'))
    colidx = numpy.array(w['colidx'], dtype=w.get('cdtype', w.get('idtype', 'int64')))
    with matrix.backend(w['backend']):
        return matrix.assemble_csr(values, rowptr, colidx, w['ncols'])


# ---------------------------------------------------------------- operations

def masks(n):
    return [list(m) for m in itertools.product([False, True], repeat=n)]


def transforms(shape, tier):
    nr, nc = shape
    ops = [['T'], ['neg'], ['mul', 2.], ['div', 4.], ['addself'], ['subother'], ['addother'], ['pickle']]
    for r in masks(nr):
        for c in masks(nc):
            ops.append(['sub', r, c])
    return ops


def other_dense(shape, dtype):
    nr, nc = shape
    O = numpy.zeros(shape, dtype=dtype)
    for i in range(nr):
        for j in range(nc):
            if (i + 2 * j) % 3 != 1:
                O[i, j] = (i + 1) * .5 - j
    return O


def matrix_from_dense(D, backend):
    from nutils import matrix
    rows, cols = numpy.nonzero(D)
    rowptr = numpy.searchsorted(rows, numpy.arange(D.shape[0] + 1))
    with matrix.backend(backend):
        return matrix.assemble_csr(D[rows, cols], rowptr, cols, D.shape[1])


def apply_op(M, D, op, backend):
    from nutils import matrix
    name = op[0]
    if name == 'T':
        return M.T, D.T.copy()
    if name == 'neg':
        return -M, -D
    if name == 'mul':
        return M * op[1], D * op[1]
    if name == 'div':
        return M / op[1], D / op[1]
    if name == 'addself':
        return M + M, D + D
    if name == 'subother':
        O = other_dense(D.shape, D.dtype)
        return M - matrix_from_dense(O, backend), D - O
    if name == 'addother':
        O = other_dense(D.shape, D.dtype)
        return M + matrix_from_dense(O, backend), D + O
    if name == 'pickle':
        with matrix.backend(backend):
            return pickle.loads(pickle.dumps(M)), D.copy()
    if name == 'sub':
        r = numpy.array(op[1], dtype=bool)
        c = numpy.array(op[2], dtype=bool)
        return M.submatrix(r, c), D[numpy.ix_(r, c)].copy()
    raise core.HarnessError('unknown op {}'.format(op))


def eq(a, b):
    a = numpy.asarray(a)
    b = numpy.asarray(b)
    return a.shape == b.shape and bool(numpy.allclose(a, b, rtol=1e-13, atol=1e-13))


def observe(M, D, pairs=False):
    'returns None or a description of the first disagreement between the matrix and the dense model'
    nr, nc = D.shape
    if tuple(M.shape) != D.shape:
        return 'shape {} != {}'.format(tuple(M.shape), D.shape)
    if numpy.dtype(M.dtype).kind != D.dtype.kind:
        return 'dtype {} != {}'.format(M.dtype, D.dtype)
    dense = M.export('dense')
    if not eq(dense, D):
        return 'export(dense) = {} != {}'.format(dense.tolist(), D.tolist())
    data, colidx, rowptr = M.export('csr')
    data = numpy.asarray(data); colidx = numpy.asarray(colidx); rowptr = numpy.asarray(rowptr)
    if len(rowptr) != nr + 1 or (nr >= 0 and rowptr[0] != 0) or rowptr[-1] != len(data) or len(colidx) != len(data) or (numpy.diff(rowptr) < 0).any():
        return 'export(csr) malformed rowptr {} for {} values'.format(rowptr.tolist(), len(data))
    E = numpy.zeros(D.shape, dtype=D.dtype)
    for i in range(nr):
        cols = colidx[rowptr[i]:rowptr[i + 1]]
        if (numpy.diff(cols) <= 0).any() or (cols < 0).any() or (cols >= nc).any():
            return 'export(csr) row {} has columns {}'.format(i, cols.tolist())
        E[i, cols] = data[rowptr[i]:rowptr[i + 1]]
    if not eq(E, D):
        return 'export(csr) denotes {} != {}'.format(E.tolist(), D.tolist())
    data, (row, col) = M.export('coo')
    E = numpy.zeros(D.shape, dtype=D.dtype)
    if len(data) != len(row) or len(data) != len(col):
        return 'export(coo) lengths differ'
    if len(set(zip(numpy.asarray(row).tolist(), numpy.asarray(col).tolist()))) != len(data):
        return 'export(coo) repeats an index'
    if len(data):
        if min(row) < 0 or max(row) >= nr or min(col) < 0 or max(col) >= nc:
            return 'export(coo) index out of range'
        E[row, col] = data
    if not eq(E, D):
        return 'export(coo) denotes {} != {}'.format(E.tolist(), D.tolist())
    v = numpy.arange(1., nc + 1) * .5
    if not eq(M @ v, D @ v):
        return 'M @ v = {} != {}'.format((M @ v).tolist(), (D @ v).tolist())
    V = numpy.arange(1., 2 * nc + 1).reshape(nc, 2) - 2.
    if not eq(M @ V, D @ V):
        return 'M @ V = {} != {}'.format(numpy.asarray(M @ V).tolist(), (D @ V).tolist())
    for extra in ((nc, 2), (2, 3), (1, 2, 2)):   # operands with more than two axes: the contraction is over the FIRST axis of the operand
        X = (numpy.arange(1., nc * int(numpy.prod(extra)) + 1).reshape((nc,) + extra) % 5) - 1.5
        want = numpy.einsum('ij,j...->i...', D, X)
        got = M @ X
        if not eq(got, want):
            return 'M @ X for X of shape {} = {} != {}'.format(X.shape, numpy.asarray(got).tolist(), want.tolist())
    for tol in (0, .3, 1.6):
        s = M.rowsupp(tol)
        if s.dtype != bool or s.tolist() != (abs(D) > tol).any(axis=1).tolist():
            return 'rowsupp({}) = {} != {}'.format(tol, s.tolist(), (abs(D) > tol).any(axis=1).tolist())
    if nr == nc:
        d = M.diagonal()
        if not eq(d, numpy.diagonal(D)):
            return 'diagonal = {} != {}'.format(numpy.asarray(d).tolist(), numpy.diagonal(D).tolist())
    T = M.T
    if tuple(T.shape) != (nc, nr) or not eq(T.export('dense'), D.T):
        return 'T.export(dense) = {} != {}'.format(T.export('dense').tolist(), D.T.tolist())
    # every selection; the one-slot submatrix cache makes the order of queries on ONE object matter
    ms = [(numpy.array(r, dtype=bool), numpy.array(c, dtype=bool)) for r in masks(nr) for c in masks(nc)]
    for r, c in ms:
        S = M.submatrix(r, c)
        if not eq(S.export('dense'), D[numpy.ix_(r, c)]):
            return 'submatrix({},{}) = {} != {}'.format(r.tolist(), c.tolist(), S.export('dense').tolist(), D[numpy.ix_(r, c)].tolist())
    if pairs:
        for r1, c1 in ms:
            for r2, c2 in ms:
                M.submatrix(r1, c1)
                S = M.submatrix(r2, c2)
                if not eq(S.export('dense'), D[numpy.ix_(r2, c2)]):
                    return 'submatrix({},{}) after submatrix({},{}) = {} != {}'.format(r2.tolist(), c2.tolist(), r1.tolist(), c1.tolist(), S.export('dense').tolist(), D[numpy.ix_(r2, c2)].tolist())
        # integer index spelling of the same selection must agree with the boolean one
        for r, c in ms:
            S = M.submatrix(numpy.nonzero(r)[0], numpy.nonzero(c)[0])
            if not eq(S.export('dense'), D[numpy.ix_(r, c)]):
                return 'submatrix(int {},{}) != model'.format(numpy.nonzero(r)[0].tolist(), numpy.nonzero(c)[0].tolist())
    return None


def run_history(w, res=None, depth=0):
    '''assemble w, apply w["ops"]; returns observation string or None. If res is
    given, continue the search below this state to the given extra depth.'''
    M = assemble(w)
    values = _dec(w['values'], w['vdtype'])
    D = dense_of(values, w['rowptr'], w['colidx'], w['ncols'], values.dtype)
    obs = observe(M, D, pairs=True)
    if obs:
        return obs
    for i, op in enumerate(w.get('ops', [])):
        M, D = apply_op(M, D, op, w['backend'])
        obs = observe(M, D, pairs=False)
        if obs:
            return 'after {}: {}'.format(w['ops'][:i + 1], obs)
    return None


def _opname(op):
    return op[0] if op[0] != 'sub' else 'sub'


def explore(w, M, D, ops_so_far, depth, res, seen, tier):
    'depth-first over transformation sequences; states deduplicated on (dense model bytes, shape, matrix type, path kind)'
    for op in transforms(D.shape, tier):
        try:
            M2, D2 = apply_op(M, D, op, w['backend'])
        except Exception as e:
            ww = dict(w, ops=ops_so_far + [op])
            res.violation('raise:{}:{}:{}'.format(w['backend'], '/'.join(_opname(o) for o in ww['ops']), type(e).__name__), 'operation raised {!r}'.format(e), ww)
            continue
        res.count('transitions')
        res.count('evaluations')
        ops = ops_so_far + [op]
        try:
            obs = observe(M2, D2)
        except Exception as e:
            obs = 'observation raised {!r}'.format(e)
        if obs:
            ww = dict(w, ops=ops)
            res.violation('mismatch:{}:{}:{}'.format(w['backend'], '/'.join(_opname(o) for o in ops), obs.split(' ')[0].split('(')[0]), obs, ww)
            continue
        key = (D2.shape, D2.dtype.str, D2.tobytes(), type(M2).__name__, bool(op[0] == 'T' or (ops_so_far and ops_so_far[-1][0] == 'T')))
        res.distinct('distinct_nontrivial', json.dumps([w['values'], w['rowptr'], w['colidx'], w['ncols'], w['backend'], ops]))
        if key in seen:
            continue
        seen.add(key)
        res.count('states')
        if depth > 1:
            explore(w, M2, D2, ops, depth - 1, res, seen, tier)


IDTYPES = ['int64', 'int32', 'uint8', 'intp']


def run_shard(spec, tier, seed):
    res = core.ShardResult()
    if spec['kind'] == 'csr':
        _run_csr(spec, tier, res)
    elif spec['kind'] == 'block':
        _run_block(spec, tier, res)
    else:
        _run_coo(spec, tier, res)
    res.counters.setdefault('traces_validated_against_impl', res.counters.get('transitions', 0))
    return res


def _probe_invalid(w):
    'returns None if rejected (with the exception type name) else a description; never lets a crash escape when called through _isolated'
    try:
        M = assemble(w)
    except Exception as e:
        return ('rejected', type(e).__name__)
    return ('accepted', repr(numpy.asarray(M.export('dense')).tolist()))


def _isolated(items, probe=None):
    probe = probe or _probe_invalid
    '''run _probe_invalid on every item in forked children: a backend that corrupts
    memory on an accepted invalid input (scipy does, for negative columns) kills
    the child, not the explorer; the item it died on is reported as 'crashed'.'''
    import os, pickle as pk, struct
    out = []
    i = 0
    while i < len(items):
        r, wfd = os.pipe()
        pid = os.fork()
        if pid == 0:
            os.close(r)
            try:
                for w in items[i:]:
                    b = pk.dumps(probe(w))
                    os.write(wfd, struct.pack('<I', len(b)) + b)
            finally:
                os._exit(0)
        os.close(wfd)
        buf = b''
        while True:
            chunk = os.read(r, 1 << 16)
            if not chunk:
                break
            buf += chunk
        os.close(r)
        os.waitpid(pid, 0)
        pos = 0
        while pos + 4 <= len(buf):
            n, = struct.unpack('<I', buf[pos:pos + 4])
            if pos + 4 + n > len(buf):
                break
            out.append(pk.loads(buf[pos + 4:pos + 4 + n]))
            pos += 4 + n
        i = len(out)
        if i < len(items):
            out.append(('crashed', 'interpreter died'))
            i += 1
    return out


def _judge_invalid(w, rule, outcome, res):
    res.count('evaluations')
    res.count('invalid_inputs')
    if outcome[0] == 'rejected':
        res.distinct('rejection_kinds', rule + ':' + outcome[1])
        res.distinct('distinct_nontrivial', json.dumps([w['values'], w['rowptr'], w['colidx'], w['ncols'], w['backend'], w.get('idtype'), w.get('cdtype')]))
        return
    res.violation('accepted-invalid:{}:{}'.format(rule, w['backend']), 'invalid CSR input ({}) {}: rowptr={} colidx={} ncols={} -> {}'.format(
        rule, outcome[0], w['rowptr'], w['colidx'], w['ncols'], outcome[1]), w)


def _run_csr(spec, tier, res):
    backend, nrows, ncols, vd = spec['backend'], spec['nrows'], spec['ncols'], spec['vdtype']
    depth = 2 if tier == 'quick' else 3
    invalid = []
    for nnz in range(4):
        values = _vals(vd, nnz)
        for colidx in itertools.product(range(-1, ncols + 1), repeat=nnz):
            for rowptr in itertools.product(range(nnz + 1), repeat=nrows + 1):
                w = {'backend': backend, 'values': _enc(values), 'vdtype': vd, 'rowptr': list(rowptr), 'colidx': list(colidx), 'ncols': ncols, 'idtype': 'int64'}
                rule = classify(list(rowptr), list(colidx), nnz, ncols)
                if rule is not None:
                    invalid.append((w, rule))
                    continue
                res.count('valid_inputs')
                for idt in IDTYPES:
                    ww = dict(w, idtype=idt)
                    res.count('evaluations')
                    try:
                        obs = run_history(ww)
                    except Exception as e:
                        obs = 'valid input raised {!r}'.format(e)
                    if obs:
                        res.violation('initial:{}:{}'.format(backend, obs.split(' ')[0].split('(')[0]), obs, ww)
                        break
                else:
                    res.count('states')
                    if nnz:
                        res.distinct('distinct_nontrivial', json.dumps([w['values'], w['rowptr'], w['colidx'], w['ncols'], backend, []]))
                    res.sample({'input': {k: w[k] for k in ('rowptr', 'colidx', 'ncols', 'vdtype', 'backend')}})
                    M = assemble(w)
                    v = _dec(w['values'], vd)
                    D = dense_of(v, w['rowptr'], w['colidx'], ncols, v.dtype)
                    explore(w, M, D, [], depth, res, set(), tier)
        # length mismatches: len(values) != len(colidx), both directions
        for ncol_entries in range(4):
            if ncol_entries == nnz:
                continue
            colidx = list(range(min(ncols, ncol_entries))) + [0] * max(0, ncol_entries - ncols)
            if ncols == 0 and ncol_entries:
                continue
            for last in {nnz, ncol_entries}:
                rowptr = [0] * nrows + [last] if nrows else [last]
                w = {'backend': backend, 'values': _enc(values), 'vdtype': vd, 'rowptr': rowptr, 'colidx': colidx, 'ncols': ncols, 'idtype': 'int64'}
                if nrows == 0 and last != 0:
                    continue
                invalid.append((w, 'length-mismatch'))
    outcomes = _isolated([w for w, rule in invalid]) if backend != 'numpy' else [_probe_invalid(w) for w, rule in invalid]
    for (w, rule), outcome in zip(invalid, outcomes):
        _judge_invalid(w, rule, outcome, res)


COO_IDTYPES = ['uint8', 'uint16', 'int32']


def _run_coo(spec, tier, res):
    'COO inputs: every (rowidx, colidx) list of length<=3 over a 2x2 / 2x3 grid; sorted unique ones are valid, everything else must be rejected'
    from nutils import matrix
    backend = spec['backend']
    todo_valid, todo_invalid = [], []
    for nrows, ncols in ((2, 2), (2, 3), (3, 2), (1, 3)):
        cells = [(i, j) for i in range(-1, nrows + 1) for j in range(-1, ncols + 1)]
        for n in range(4):
            for entries in itertools.product(cells, repeat=n):
                rows = [e[0] for e in entries]
                cols = [e[1] for e in entries]
                inrange = all(0 <= i < nrows and 0 <= j < ncols for i, j in entries)
                valid = inrange and all(a < b for a, b in zip(entries, entries[1:]))
                values = numpy.array(FVALS[:n])
                w = {'coo': True, 'backend': backend, 'rows': rows, 'cols': cols, 'nrows': nrows, 'ncols': ncols}
                (todo_valid if valid else todo_invalid).append(w)
                # index dtype dimension (assemble_csr admits dtype kinds 'i' and 'u'): every input without negative entries once more with unsigned and 32-bit indices
                if n and min(rows) >= 0 and min(cols) >= 0:
                    for idt in COO_IDTYPES:
                        (todo_valid if valid else todo_invalid).append(dict(w, idtype=idt))
    outs = [replay_coo(w) for w in todo_valid]
    outs += _isolated(todo_invalid, replay_coo) if backend != 'numpy' else [replay_coo(w) for w in todo_invalid]
    for w, obs in zip(todo_valid + todo_invalid, outs):
        valid = _coo_valid(w)
        res.count('evaluations')
        if isinstance(obs, tuple):
            obs = 'accepted-invalid-coo and the interpreter died: {}'.format(w)
        if obs:
            res.violation('coo:{}:{}'.format(backend, obs.split(' ')[0]), obs, w)
        elif valid and w['rows']:
            res.distinct('distinct_nontrivial', json.dumps(w))
            res.count('states')
        elif not valid:
            res.count('invalid_inputs')
            res.distinct('distinct_nontrivial', json.dumps(w))


def _coo_valid(w):
    entries = list(zip(w['rows'], w['cols']))
    return all(0 <= i < w['nrows'] and 0 <= j < w['ncols'] for i, j in entries) and all(a < b for a, b in zip(entries, entries[1:]))


def replay_coo(w):
    from nutils import matrix
    rows, cols, nrows, ncols = w['rows'], w['cols'], w['nrows'], w['ncols']
    entries = list(zip(rows, cols))
    n = len(entries)
    inrange = all(0 <= i < nrows and 0 <= j < ncols for i, j in entries)
    valid = inrange and all(a < b for a, b in zip(entries, entries[1:]))
    values = numpy.array(FVALS[:n])
    try:
        with matrix.backend(w['backend']):
            M = matrix.assemble_coo(values, numpy.array(rows, dtype=w.get('idtype', int)), nrows, numpy.array(cols, dtype=w.get('idtype', int)), ncols)
    except Exception as e:
        if valid:
            return 'valid-coo-rejected {!r}'.format(e)
        return None
    if not valid:
        return 'accepted-invalid-coo rows={} cols={} index dtype {} shape=({},{}) -> matrix of shape {}'.format(rows, cols, w.get('idtype', 'int64'), nrows, ncols, M.shape)
    D = numpy.zeros((nrows, ncols))
    for (i, j), v in zip(entries, values):
        D[i, j] = v
    return observe(M, D)


def _block_cases():
    'block-CSR inputs: 1-2 block rows x 1-2 block columns, blocks from a small pool incl. empty blocks and 0-row/0-col blocks'
    pool = {}
    for nr in (0, 1, 2):
        for nc in (0, 1, 2):
            cands = []
            cells = [(i, j) for i in range(nr) for j in range(nc)]
            for k in range(min(len(cells), 2) + 1):
                for sel in itertools.combinations(cells, k):
                    cands.append(sel)
            pool[nr, nc] = cands[:4]
    for nbr in (1, 2):
        for nbc in (1, 2):
            for rs in itertools.product((0, 1, 2), repeat=nbr):
                for cs in itertools.product((0, 1, 2), repeat=nbc):
                    if sum(rs) > 3 or sum(cs) > 3:
                        continue
                    choices = [pool[r, c] for r in rs for c in cs]
                    for sels in itertools.product(*choices):
                        yield rs, cs, [list(map(list, s)) for s in sels]


def replay_block(w):
    from nutils import matrix
    rs, cs, sels = w['rs'], w['cs'], w['sels']
    D = numpy.zeros((sum(rs), sum(cs)))
    blocks = []
    k = 0
    val = 1.
    r0 = 0
    for r in rs:
        row = []
        c0 = 0
        for c in cs:
            sel = sorted(map(tuple, sels[k])); k += 1
            vals = []
            for (i, j) in sel:
                D[r0 + i, c0 + j] = val
                vals.append(val)
                val += .5
            rowptr = numpy.searchsorted([i for i, j in sel], numpy.arange(r + 1)) if sel else numpy.zeros(r + 1, dtype=int)
            row.append((numpy.array(vals, dtype=float), numpy.asarray(rowptr), numpy.array([j for i, j in sel], dtype=int), c))
            c0 += c
        blocks.append(row)
        r0 += r
    with matrix.backend(w['backend']):
        M = matrix.assemble_block_csr(blocks)
    return observe(M, D)


def _run_block(spec, tier, res):
    for rs, cs, sels in _block_cases():
        w = {'block': True, 'backend': spec['backend'], 'rs': list(rs), 'cs': list(cs), 'sels': sels}
        res.count('evaluations')
        try:
            obs = replay_block(w)
        except Exception as e:
            obs = 'block-raised {!r}'.format(e)
        if obs:
            res.violation('block:{}:{}'.format(spec['backend'], obs.split(' ')[0].split('(')[0]), obs, w)
        else:
            res.count('states')
            if any(sels):
                res.distinct('distinct_nontrivial', json.dumps(w))


def replay(w):
    if w.get('coo'):
        if _coo_valid(w):
            return replay_coo(w)
        out, = _isolated([w], replay_coo)
        return 'accepted-invalid-coo and the interpreter died' if isinstance(out, tuple) else out
    if w.get('block'):
        try:
            return replay_block(w)
        except Exception as e:
            return 'block-raised {!r}'.format(e)
    values = _dec(w['values'], w['vdtype'])
    rule = classify(w['rowptr'], w['colidx'], len(values), w['ncols'])
    if rule is not None:
        outcome, = _isolated([w])
        if outcome[0] == 'rejected':
            return None
        return 'invalid CSR input ({}) {}: rowptr={} colidx={} ncols={} -> {}'.format(rule, outcome[0], w['rowptr'], w['colidx'], w['ncols'], outcome[1])
    try:
        return run_history(w)
    except Exception as e:
        return 'raised {!r}'.format(e)


def finalize(cov, tier):
    cov.setdefault('traces_validated_against_impl', cov.get('transitions', 0))
    cov['explanation'] = 'every transition is executed on the real Matrix object; the model is a dense ndarray'
