'''C12 - bases are what their type promises.

Bounded exhaustive exploration of the basis constructors: every topology in a
fixed family x every basis type defined on it x the full product of its
parameters inside stated bounds.  Per basis the complete observation set is
compared with a plain numpy reference (vmc/c12_ref.py):

  * per element, sample.eval(basis) == the polynomials of get_coefficients(i)
    (documented nutils_poly convention) inflated to get_dofs(i), hence the
    non-zero pattern lies inside get_dofs(i);
  * get_support / get_dofs are mutual inverses (int, index array and mask forms);
  * partition of unity for the types that promise it;
  * jump of the k-th derivative is zero on every interface up to the advertised
    continuity (per knot on structured grids: p - multiplicity) and non-zero for
    k+1 on at least one interface of every group (non-vacuity);
  * linear independence (rank of the collocation matrix), polynomials of the
    advertised degree are in the span, and on structured grids the functions ARE
    the (periodised) B-splines of the knot vector (Cox-de Boor in numpy);
  * masked / removedofs / partition-discontinuous bases are the selected /
    clipped functions of their parent; product bases are outer products.
'''

import itertools, json
import numpy
from .. import core
from .. import c12_ref as ref

LEVEL = 'exploration'
RULE = ('families: spline1d = 1-D grids n<=4 (thorough 5 for p<=2) x p in 0..3 x periodic +- x EVERY knotmultiplicity vector with entries in 1..p+1 '
        '(interior knots; all n knots when periodic) x knotvalues uniform/graded x removedofs in {-,[0],[-1],[0,-1],[1]}, plus continuity in -p-1..p-1, '
        'an explicit periodic argument overruling the topology, and shortened (auto-refined) knot vectors; spline2d = ALL pairs of per-direction '
        'configurations (n<=3 (thorough 4), p 0..3, periodic +-, default/C0/mixed multiplicities, graded) plus 4 removedofs patterns; struct = '
        'std/bernstein/lagrange/discont/legendre/spline p 0..3 on 1-D n<=4 and 2-D n0,n1<=3 (thorough 4) grids x every periodic subset x uniform refinement, '
        'boundaries of 2-D grids; box3d = 1x1x2 box (periodic +-, hierarchical), p<=2 (thorough 3); hier1d/hier2d = refined_by(S1) for EVERY non-empty subset S1 '
        'of the <=4 base elements (1-D n<=4 periodic +-, 2-D 1x1,1x2,2x2,2x1p,2x2p) then refined_by(S2) for every S2 of <=1 (thorough 2) level-1 elements '
        '(quick 2-D: second level only for |S1|<=2, non-periodic; p<=2; thorough 2-D: p=3 on one level and with |S2|<=1 for splines), x h-std/th-std/h-spline/th-spline/discont; '
        'unstruct = unitsquare triangle/mixed n<=3, refined, hierarchical (2 triangles: two levels; 8 triangles / 6 mixed: one level), std/bernstein/lagrange/discont/bubble; '
        'trim = 62 (thorough 96) trimmed 1-D/2-D/triangle topologies (5 level-set shapes, maxrefine 1..2 (thorough 0..2), periodic +-) with pruned '
        'std/spline/discont/lagrange/bernstein/legendre/bubble (thorough: hierarchical refinement after trimming); multipatch = 2-patch and 3-patch L-shape, nelems 1..2 (thorough 3) '
        'x spline/std x patchcontinuous +- x p 0..3 x continuity -p-1..p-1 x every interior multiplicity vector x graded knotvalues, hierarchical; tensor = products A*B of 6x4 '
        'factor topologies (line, periodic line, hierarchical line, 2x1 grid, triangles); masked = basis[mask] for ALL 2^n masks when ndofs<=6 (plus int/slice spellings), else a fixed '
        'family of 9 masks and 5 slices, on 175 (thorough 248) parent bases of every class; partition = discontinuous_at_partition_interfaces for all labelings (up to renaming, <=3 parts) '
        'of <=4 elements.  non-trivial = distinct case whose basis has >=2 functions on >=2 elements, or that is derived from a parent (mask/partition)')
ASSUMPTIONS = ['numpy polynomial evaluation in the documented nutils_poly coefficient order and Cox-de Boor B-splines are the reference semantics',
               'sample points, element index and element-local coordinates are taken from topo.sample/f_index/f_coords (covered by C10/C11)',
               'level sets of the trimmed topologies keep cuts away from vertices; graded knot values are (0,1,3,7,15)',
               'linear independence is judged by singular values > 1e-8 relative; equality tolerance 1e-9 relative',
               'hierarchical bases with non-default knot vectors and trimming after hierarchical refinement (documented as possibly dependent) are not enumerated']
BUDGET_S = {'quick': 3600, 'thorough': 14400}   # guard for a heavily shared machine; an idle 16-core box needs ~2 / ~12 minutes

GRADED = [0, 1, 3, 7, 15, 31]


# ---------------------------------------------------------------------------- case families

def rect(shape, periodic=(), **kw):
    s = {'k': 'rect', 'shape': list(shape)}
    if periodic:
        s['periodic'] = list(periodic)
    s.update({k: v for k, v in kw.items() if v})
    return s


def case(topo, btype, derive=None, **kw):
    c = {'topo': topo, 'btype': btype, 'kw': {k: v for k, v in kw.items() if v is not None}}
    if derive:
        c['derive'] = derive
    return c


def _removals(nd):
    out = [None]
    for r in ([0], [-1], [0, -1], [1]):
        if all(-nd <= i < nd for i in r) and len({i % nd for i in r}) == len(r) and len(r) < nd:
            out.append(r)
    return out


def fam_spline1d(tier):
    for n in range(1, (5 if tier == 'thorough' else 4) + 1):
        for p in range(0, 4):
            if n == 5 and p > 2:
                continue
            for per in (False, True):
                topo = rect([n], [0] if per else [])
                if per:
                    vectors = [list(v) + [v[0]] for v in itertools.product(range(1, p + 2), repeat=n)]
                else:
                    vectors = [[p + 1] + list(v) + [p + 1] for v in itertools.product(range(1, p + 2), repeat=n - 1)]
                    vectors.append([1] * (n + 1))   # end multiplicities are overruled
                for m in vectors:
                    dim = ref.spline_dim(p, n, m, -1, per)
                    yield case(topo, 'spline', degree=p, knotmultiplicities=m)
                    yield case(topo, 'spline', degree=p, knotmultiplicities=m, knotvalues=GRADED[:n + 1])
                    for r in _removals(dim['nd'])[1:]:
                        if per and m[0] != p + 1:
                            # numbering offset of periodic functions is a convention, one pattern suffices
                            if r != [0]:
                                continue
                        yield case(topo, 'spline', degree=p, knotmultiplicities=m, removedofs=r)
                        if tier == 'thorough':
                            yield case(topo, 'spline', degree=p, knotmultiplicities=m, removedofs=r, knotvalues=GRADED[:n + 1])
                for c in range(-p - 1, p):
                    for kv in (None, GRADED[:n + 1]):
                        yield case(topo, 'spline', degree=p, continuity=c, knotvalues=kv)
                        if c >= 0 and not per:
                            yield case(topo, 'spline', degree=p, continuity=c, knotvalues=kv, removedofs=[0, -1] if n + p > 2 else None)
                # explicit periodic argument overruling the topology
                yield case(topo, 'spline', degree=p, periodic=[])
                if not per and p:
                    yield case(topo, 'spline', degree=p, periodic=[0])
                # shortened vectors are refined by nutils: midpoints for values, p-c for multiplicities
                if n in (2, 4) and p:
                    for c in sorted({p - 1, 0}):
                        for ends in ((1, 1), (p, p)) if per else ((p + 1, p + 1),):
                            for mid in sorted({1, p}):
                                short = [ends[0]] + ([mid] if n == 4 else []) + [ends[1]]
                                yield case(topo, 'spline', degree=p, continuity=c, knotmultiplicities=short)
                                yield case(topo, 'spline', degree=p, continuity=c, knotmultiplicities=short, knotvalues=[0, 3] if n == 2 else [0, 1, 4])
                            if n == 4:
                                yield case(topo, 'spline', degree=p, continuity=c, knotmultiplicities=[ends[0], ends[1]], knotvalues=[0, 4])


def _dirconfigs(tier):
    'per-direction configurations for the 2-D product: (n, p, multiplicities or None, continuity, periodic, knotvalues)'
    out = []
    nmax = 4 if tier == 'thorough' else 3
    for n in range(1, nmax + 1):
        for p in range(0, 4):
            for per in (False, True):
                out.append((n, p, None, -1, per, None))
            if p >= 2:
                out.append((n, p, None, 0, False, None))
                if tier == 'thorough':
                    out.append((n, p, None, 0, True, None))
            if n >= 2 and p >= 2:
                m = [p + 1] + [p if i == 0 else 1 for i in range(n - 1)] + [p + 1]
                out.append((n, p, m, -1, False, GRADED[:n + 1]))
            if tier == 'thorough' and n >= 2 and p >= 1:
                out.append((n, p, None, -1, False, GRADED[:n + 1]))
                m = [1] + [p if i == n - 2 else 1 for i in range(n - 1)] + [1]
                out.append((n, p, m, -1, True, None))
    return out


def _case2d(a, b, removedofs=None):
    (n0, p0, m0, c0, per0, kv0), (n1, p1, m1, c1, per1, kv1) = a, b
    topo = rect([n0, n1], [i for i, per in enumerate((per0, per1)) if per])
    kw = {'degree': [p0, p1] if p0 != p1 else p0}
    if m0 is not None or m1 is not None:
        kw['knotmultiplicities'] = [m0, m1]
    if (c0, c1) != (-1, -1):
        kw['continuity'] = [c0, c1] if c0 != c1 else c0
    if kv0 is not None or kv1 is not None:
        kw['knotvalues'] = [kv0, kv1]
    if removedofs:
        kw['removedofs'] = removedofs
    return case(topo, 'spline', **kw)


def fam_spline2d(tier):
    cfgs = _dirconfigs(tier)
    for a in cfgs:
        for b in cfgs:
            yield _case2d(a, b)
    small = [c for c in cfgs if c[0] in (2, 3) and c[1] in (1, 2) and c[2] is None and c[3] == -1]
    for a in small:
        for b in small:
            for r in ([[0], None], [None, [-1]], [[0, -1], [0]], [[1], [1]]):
                if a[4] and r[0] or b[4] and r[1]:
                    continue
                yield _case2d(a, b, removedofs=r)


def _c0types(pmax=3):
    for bt in ('std', 'bernstein', 'lagrange'):
        for p in range(1, pmax + 1):
            yield bt, p


def fam_struct(tier):
    for n in range(1, 5):
        for per in (False, True):
            for refine in (0, 1):
                if refine and n > 2:
                    continue
                topo = rect([n], [0] if per else [], refine=refine)
                for bt, p in _c0types():
                    yield case(topo, bt, degree=p)
                for p in range(4):
                    yield case(topo, 'discont', degree=p)
                    yield case(topo, 'legendre', degree=p)
                    if refine:
                        yield case(topo, 'spline', degree=p)
    nmax = 4 if tier == 'thorough' else 3
    for n0 in range(1, nmax + 1):
        for n1 in range(1, nmax + 1):
            for per in ((), (0,), (1,), (0, 1)):
                for refine in (0, 1):
                    if refine and (n0 > 2 or n1 > 2 or (tier == 'quick' and n0 + n1 > 3)):
                        continue
                    topo = rect([n0, n1], per, refine=refine)
                    for bt, p in _c0types():
                        yield case(topo, bt, degree=p)
                    for p in range(4):
                        yield case(topo, 'discont', degree=p)
                        if refine:
                            yield case(topo, 'spline', degree=p)
    # boundaries of 2-D grids are 1-D structured topologies
    for n0, n1 in ((2, 2), (3, 2)):
        for bname in ('left', 'top'):
            topo = rect([n0, n1], boundary=bname)
            for bt, p in (('std', 2), ('spline', 2), ('spline', 3), ('discont', 1), ('lagrange', 2)):
                yield case(topo, bt, degree=p)


def fam_box3d(tier):
    pmax = 3 if tier == 'thorough' else 2
    for per in ((), (2,)):
        topo = rect([1, 1, 2], per)
        for bt, p in _c0types(pmax):
            yield case(topo, bt, degree=p)
        for p in range(pmax + 1):
            yield case(topo, 'discont', degree=p)
            yield case(topo, 'spline', degree=p)
        yield case(topo, 'spline', degree=[1, 2, 0])
        yield case(topo, 'spline', degree=[2, 0, 1])
    for S in ([0], [1], [0, 1]):
        topo = rect([1, 1, 2], hier=[S])
        for bt in ('h-std', 'th-std', 'h-spline', 'th-spline'):
            for p in range(1, pmax + 1):
                if bt.endswith('std') and p == 1:
                    continue
                yield case(topo, bt, degree=p)
    if tier == 'thorough':
        topo = rect([1, 1, 2], hier=[[0], [1]])
        for bt in ('h-spline', 'th-spline'):
            yield case(topo, bt, degree=2)


def _subsets(items, maxsize, nonempty=True):
    for k in range(1 if nonempty else 0, maxsize + 1):
        for S in itertools.combinations(items, k):
            yield list(S)


def hier_topologies(base, nbase, nchildren, s2max):
    'refined_by(S1) for every non-empty subset of <=4 base elements, then refined_by(S2) for every S2 of <= s2max level-1 elements'
    for S1 in _subsets(range(nbase), min(4, nbase)):
        yield dict(base, hier=[S1])
        first = nbase - len(S1)
        level1 = range(first, first + nchildren * len(S1))
        for S2 in _subsets(level1, s2max):
            yield dict(base, hier=[S1, S2])


def fam_hier1d(tier):
    s2 = 2 if tier == 'thorough' else 1
    for n in range(1, 5):
        for per in (False, True):
            if tier == 'quick' and per and n == 4:
                continue
            for topo in hier_topologies(rect([n], [0] if per else []), n, 2, s2):
                for bt in ('h-spline', 'th-spline'):
                    for p in range(0, 4):
                        yield case(topo, bt, degree=p)
                for bt in ('h-std', 'th-std'):
                    for p in (2, 3):      # degree 1 coincides with the spline of degree 1
                        yield case(topo, bt, degree=p)
                for p in ((0, 2) if tier == 'thorough' else (1,)):
                    yield case(topo, 'discont', degree=p)


def fam_hier2d(tier):
    s2 = 2 if tier == 'thorough' else 1
    pmax = 3 if tier == 'thorough' else 2
    bases = [((1, 1), ()), ((1, 2), ()), ((2, 2), ()), ((2, 1), (0,)), ((2, 2), (1,))]
    for shape, per in bases:
        nb = shape[0] * shape[1]
        for topo in hier_topologies(rect(shape, per), nb, 4, s2):
            S = topo['hier']
            if tier == 'quick' and len(S) == 2 and (len(S[0]) > 2 or per):
                continue
            if tier == 'thorough' and len(S) == 2 and len(S[1]) == 2 and len(S[0]) > 2:
                continue
            for bt in ('h-spline', 'th-spline'):
                for p in range(1, pmax + 1):
                    if p == 3 and len(S) == 2 and len(S[1]) == 2:
                        continue
                    yield case(topo, bt, degree=p)
            for bt in ('h-std', 'th-std'):
                for p in range(2, pmax + 1):
                    if p == 3 and len(S) == 2:
                        continue
                    yield case(topo, bt, degree=p)
            if len(S) == 1:
                yield case(topo, 'discont', degree=1)
                yield case(topo, 'th-spline', degree=[2, 1])
                yield case(topo, 'h-spline', degree=[1, 2])


def fam_unstruct(tier):
    for etype, ns in (('triangle', (1, 2, 3)), ('mixed', (1, 2, 3))):
        for n in ns:
            for refine in (0, 1):
                if refine and n > 2:
                    continue
                topo = {'k': 'unitsquare', 'n': n, 'etype': etype}
                if refine:
                    topo['refine'] = 1
                for bt, p in _c0types():
                    yield case(topo, bt, degree=p)
                for p in range(4):
                    yield case(topo, 'discont', degree=p)
                if etype == 'triangle' and not refine:
                    yield case(topo, 'bubble')
    # hierarchical refinements of the 2-triangle and 8-triangle squares
    s2 = 2 if tier == 'thorough' else 1
    pmax = 3 if tier == 'thorough' else 2
    for topo in hier_topologies({'k': 'unitsquare', 'n': 1, 'etype': 'triangle'}, 2, 4, s2):
        for bt in ('h-std', 'th-std'):
            for p in range(1, pmax + 1):
                yield case(topo, bt, degree=p)
        yield case(topo, 'discont', degree=1)
    for S1 in _subsets(range(8), 2 if tier == 'thorough' else 1):
        topo = {'k': 'unitsquare', 'n': 2, 'etype': 'triangle', 'hier': [S1]}
        for bt in ('h-std', 'th-std'):
            for p in range(1, pmax + 1):
                yield case(topo, bt, degree=p)
    for S1 in _subsets(range(6), 1):
        topo = {'k': 'unitsquare', 'n': 2, 'etype': 'mixed', 'hier': [S1]}
        for bt in ('h-std', 'th-std'):
            for p in (1, 2):
                yield case(topo, bt, degree=p)


def trim_topologies(tier):
    mr = (0, 1, 2) if tier == 'thorough' else (1, 2)
    for n in (2, 3, 4):
        for per in (False, True):
            for ls, c in (('x<', n - .6), ('x<', 1.3), ('x>', .4), ('x<', .6)):
                for m in mr:
                    if m == 2 and n == 4:
                        continue
                    yield rect([n], [0] if per else [], trim={'ls': ls, 'c': c, 'maxrefine': m})
    for shape in ((2, 2), (3, 2)):
        for ls, c in (('sum<', 2.3), ('circ', 1.7), ('diff>', .3), ('x<', 1.4)):
            for m in mr:
                yield rect(shape, trim={'ls': ls, 'c': c, 'maxrefine': m})
    yield rect((2, 2), (1,), trim={'ls': 'x<', 'c': 1.4, 'maxrefine': 1})
    yield rect((2, 2), (0,), trim={'ls': 'x<', 'c': .6, 'maxrefine': 1})
    for ls, c in (('sum<', 1.3), ('circ', .8)):
        for m in mr:
            yield {'k': 'unitsquare', 'n': 2, 'etype': 'triangle', 'trim': {'ls': ls, 'c': c, 'maxrefine': m}}


def fam_trim(tier):
    for topo in trim_topologies(tier):
        structured = topo['k'] == 'rect'
        for p in range(1, 4):
            yield case(topo, 'std', degree=p)
        for p in range(0, 3):
            yield case(topo, 'discont', degree=p)
        if structured:
            for p in range(0, 4):
                yield case(topo, 'spline', degree=p)
            yield case(topo, 'lagrange', degree=2)
            yield case(topo, 'bernstein', degree=3)
            if len(topo['shape']) == 1:
                yield case(topo, 'legendre', degree=2)
        else:
            yield case(topo, 'bubble')
    # trimming first, hierarchical refinement second is the documented order for an independent basis
    if tier == 'thorough':
        for shape, ls, c in (((2, 2), 'sum<', 2.3), ((3,), 'x<', 2.4)):
            for S in ([0], [1]):
                topo = rect(shape, trim={'ls': ls, 'c': c, 'maxrefine': 1}, hier=[S])
                for bt in ('h-spline', 'th-spline', 'th-std'):
                    yield case(topo, bt, degree=2)


def fam_multipatch(tier):
    for npatches in (2, 3):
        for nelems in (1, 2) + ((3,) if tier == 'thorough' and npatches == 2 else ()):
            topo = {'k': 'multipatch', 'patches': npatches, 'nelems': nelems}
            for pc in (True, False):
                for p in range(0, 4):
                    if p == 0 and pc:
                        continue   # no C^0 basis of degree 0
                    for c in range(-p - 1, p):
                        if pc and (c == -p - 1):
                            continue
                        yield case(topo, 'spline', degree=p, patchcontinuous=pc, continuity=c)
                    if p:
                        yield case(topo, 'std', degree=p, patchcontinuous=pc)
                        yield case(topo, 'spline', degree=p, patchcontinuous=pc, knotvalues={'*': GRADED[:nelems + 1]})
                    if p and nelems >= 2:
                        for mid in itertools.product(range(1, p + 1), repeat=nelems - 1):
                            yield case(topo, 'spline', degree=p, patchcontinuous=pc, knotmultiplicities={'*': [p + 1] + list(mid) + [p + 1]})
            for S in ([0], [nelems * nelems]) if nelems == 1 or tier == 'thorough' else ():
                # hierarchical refinement of a multipatch topology
                ht = dict(topo, hier=[S])
                for bt in ('h-spline', 'th-spline'):
                    for p in (1, 2):
                        yield case(ht, bt, degree=p)


def fam_tensor(tier):
    lines = [rect([1]), rect([2]), rect([3], [0]), rect([2], hier=[[0]])]
    others = lines + [rect([2, 1]), {'k': 'unitsquare', 'n': 1, 'etype': 'triangle'}]
    for a in others:
        for b in lines:
            topo = {'k': 'prod', 'a': a, 'b': b}
            nda = 2 if a['k'] != 'rect' or len(a['shape']) == 2 else 1
            hier = 'hier' in a or 'hier' in b
            simplex = a['k'] != 'rect'
            for p in (1, 2):
                yield case(topo, 'discont', degree=p)
                if not hier:
                    yield case(topo, 'std', degree=p)     # the plain types are not defined on hierarchical factors
                if not simplex:
                    if not hier:
                        yield case(topo, 'spline', degree=p)
                    yield case(topo, 'th-spline', degree=p)
                    yield case(topo, 'h-spline', degree=p)
                else:
                    yield case(topo, 'th-std', degree=p)
            yield case(topo, 'discont', degree=0)
            if not simplex and not hier:
                yield case(topo, 'spline', degree=[2] * (nda - 1) + [2, 1])
                yield case(topo, 'spline', degree=[1] * (nda - 1) + [0, 3])


def mask_family(nd):
    'ALL masks for nd <= 6, a fixed family otherwise; each (form, idx[, slice])'
    out = []
    if nd <= 6:
        for bits in itertools.product((0, 1), repeat=nd):
            idx = [i for i, b in enumerate(bits) if b]
            out.append({'kind': 'mask', 'form': 'bool', 'idx': idx})
        for idx in ([0], [nd - 1], list(range(0, nd, 2))):
            out.append({'kind': 'mask', 'form': 'int', 'idx': sorted(set(idx))})
    else:
        fixed = [[0], [nd - 1], list(range(0, nd, 2)), list(range(1, nd, 2)), list(range(1, nd)), list(range(nd - 1)), [1, nd - 2], list(range(nd // 2, nd))]
        for i, idx in enumerate(fixed):
            out.append({'kind': 'mask', 'form': 'bool' if i % 2 else 'int', 'idx': sorted(set(idx))})
        out.append({'kind': 'mask', 'form': 'bool', 'idx': []})
    for sl in ([1, None, 1], [0, nd - 1, 1], [0, None, 2], [nd - 1, None, 1], [1, None, 3]):
        if list(range(nd))[slice(*sl)] != list(range(nd)):
            out.append({'kind': 'mask', 'form': 'slice', 'slice': sl, 'idx': list(range(nd))[slice(*sl)]})
    return out


def mask_parents(tier):
    for n in range(1, 5):
        for per in (False, True):
            topo = rect([n], [0] if per else [])
            for p in range(0, 4):
                yield case(topo, 'spline', degree=p)
                if p >= 2:
                    yield case(topo, 'spline', degree=p, continuity=0)
                if p and n >= 2 and not per:
                    yield case(topo, 'spline', degree=p, removedofs=[0])    # mask of a mask
                if n <= 2:
                    yield case(topo, 'discont', degree=p)
                    yield case(topo, 'legendre', degree=p)
            if n <= 3:
                yield case(topo, 'lagrange', degree=2)
                yield case(topo, 'bernstein', degree=1)
    for shape, per in (((1, 1), ()), ((2, 1), ()), ((1, 2), (1,)), ((2, 2), ()), ((2, 2), (0,)), ((3, 2), ())):
        topo = rect(shape, per)
        for p in (0, 1, 2):
            yield case(topo, 'spline', degree=p)
        yield case(topo, 'spline', degree=[1, 0])
        yield case(topo, 'lagrange', degree=1)
    for n in (1, 2):
        topo = {'k': 'unitsquare', 'n': n, 'etype': 'triangle'}
        yield case(topo, 'std', degree=1)
        yield case(topo, 'std', degree=2)
        yield case(topo, 'bubble')
        yield case(topo, 'discont', degree=0)
    for topo in (rect([2], hier=[[0]]), rect([2], hier=[[1], [1]]), rect([3], [0], hier=[[0]]), rect([1, 1], hier=[[0]]), rect([2, 2], hier=[[0]])):
        for bt in ('h-spline', 'th-spline', 'th-std'):
            for p in (1, 2):
                yield case(topo, bt, degree=p)
    for topo in (rect([3], trim={'ls': 'x<', 'c': 2.4, 'maxrefine': 1}), rect((2, 2), trim={'ls': 'sum<', 'c': 2.3, 'maxrefine': 1})):
        for p in (1, 2):
            yield case(topo, 'spline', degree=p)
    topo = {'k': 'multipatch', 'patches': 2, 'nelems': 1}
    yield case(topo, 'spline', degree=1)
    yield case(topo, 'spline', degree=2, patchcontinuous=False)
    if tier == 'thorough':
        for n in range(1, 4):
            for per in (False, True):
                for p in (1, 2):
                    for m in itertools.product(range(1, p + 2), repeat=n if per else n - 1):
                        mm = list(m) + [m[0]] if per else [p + 1] + list(m) + [p + 1]
                        yield case(rect([n], [0] if per else []), 'spline', degree=p, knotmultiplicities=mm, knotvalues=GRADED[:n + 1])


def partition_parents(tier):
    for n in range(1, 5):
        for per in (False, True):
            topo = rect([n], [0] if per else [])
            for p in (1, 2, 3):
                yield case(topo, 'spline', degree=p), n
            yield case(topo, 'std', degree=2), n
            yield case(topo, 'discont', degree=1), n
    for shape in ((2, 2), (1, 3)):
        for p in (1, 2):
            yield case(rect(shape), 'spline', degree=p), shape[0] * shape[1]
        yield case(rect(shape), 'lagrange', degree=2), shape[0] * shape[1]
    yield case({'k': 'unitsquare', 'n': 1, 'etype': 'triangle'}, 'std', degree=2), 2
    yield case(rect([2], hier=[[0]]), 'th-spline', degree=2), 3
    yield case(rect([2], hier=[[0]]), 'h-std', degree=2), 3


FAMILIES = [
    # name, generator, measured cpu seconds per case (quick, thorough) - used for shard sizing only
    ('struct', fam_struct, (.12, .16)),
    ('spline1d', fam_spline1d, (.10, .08)),
    ('spline2d', fam_spline2d, (.19, .17)),
    ('unstruct', fam_unstruct, (.37, .25)),
    ('hier1d', fam_hier1d, (.17, .14)),
    ('hier2d', fam_hier2d, (.25, .6)),
    ('trim', fam_trim, (.17, .12)),
    ('multipatch', fam_multipatch, (.3, .25)),
    ('box3d', fam_box3d, (1.15, 4.)),
    ('tensor', fam_tensor, (.35, .2)),
    ('masked', None, (1.3, 1.7)),
    ('partition', None, (.55, .3)),
]
SHARD_S = {'quick': 14., 'thorough': 45.}


def family_cases(name, tier):
    if name == 'masked':
        return list(mask_parents(tier))
    if name == 'partition':
        return list(partition_parents(tier))
    gen = dict((n, g) for n, g, c in FAMILIES)[name]
    seen = set()
    out = []
    for c in gen(tier):
        k = json.dumps(c, sort_keys=True)
        if k not in seen:
            seen.add(k)
            out.append(c)
    return out


def shards(tier, seed):
    out = []
    for name, gen, cost in FAMILIES:
        n = len(family_cases(name, tier))
        parts = max(1, min(n, int(round(n * cost[tier == 'thorough'] / SHARD_S[tier]))))
        for i in range(parts):
            out.append({'family': name, 'part': i, 'of': parts})
    from .. import c12_mpedges
    out += c12_mpedges.shards(tier)
    return out


# ---------------------------------------------------------------------------- running

def key_of(oracle, c, stats):
    'root cause naming: the oracle that fails, the basis type, the class of the object, the kind of topology'
    if oracle in ('dofs-union-single', 'support-union-single'):
        return oracle    # function._int_or_vec, independent of the basis
    if oracle == 'phantom-dof':
        # over-counted functions: name the construction that counts, not the basis type it wraps
        topo = c['topo']
        how = 'pruned' if stats.get('class') == 'PrunedBasis' else 'hierarchical' if topo.get('hier') else str(stats.get('class'))
        return 'phantom-dof:{}{}'.format(how, '[{}]'.format(c['derive']['kind']) if c.get('derive') else '')
    d = c.get('derive')
    impl = {'bernstein': 'c0-structured', 'lagrange': 'c0-structured'}.get(c['btype'], c['btype'])   # share TransformChainsTopology._basis_c0_structured
    parts = [oracle, impl + ('[{}]'.format(d['kind']) if d else ''), str(stats.get('class', '?'))]
    topo = c['topo']
    kind = topo['k']
    if kind != 'prod':
        kind += ''.join('-' + f for f in ('trim', 'hier', 'boundary') if topo.get(f))
        per = c['kw'].get('periodic')
        if per is None:
            per = topo.get('periodic') or []
        if per:
            # a periodic direction of one or two elements is special: an element is its own neighbour / two elements share two interfaces
            ns = {topo['shape'][i] << topo.get('refine', 0) for i in per}
            kind += '-periodic' + ('2' if 2 in ns else '1' if 1 in ns else '')
    if impl == 'c0-structured' and kind.endswith('periodic2') and not d:
        # one root cause whatever wraps the basis: _basis_c0_structured pairs edges through connectivity, which is ambiguous
        # when two elements share two interfaces (a periodic direction of two elements)
        return '{}:c0-structured:two-elements-sharing-two-interfaces'.format(oracle)
    parts.append(kind)
    return ':'.join(parts)


def _record(res, c, fails, stats):
    res.count('evaluations')
    res.count('points_compared', stats.get('points', 0))
    res.count('interface_points', stats.get('interface-points', 0))
    res.count('continuity_groups_checked', stats.get('continuity-groups', 0))
    res.count('continuity_groups_nonvacuous', stats.get('nonvacuous-groups', 0))
    res.count('pou_checked', stats.get('pou', 0))
    res.count('spline_reference_checked', stats.get('spline-reference', 0))
    res.count('listed_dofs_identically_zero', stats.get('listed-zero', 0))
    res.maximum('max_ndofs', stats.get('ndofs', 0))
    res.maximum('max_nelems', stats.get('nelems', 0))
    res.distinct('distinct_outcomes', '{}:{}'.format(stats.get('class'), c['btype']))
    if c.get('derive') or (stats.get('ndofs', 0) >= 2 and stats.get('nelems', 0) >= 2):
        res.distinct('distinct_nontrivial', json.dumps(c, sort_keys=True))
    for oracle, what in fails:
        res.violation(key_of(oracle, c, stats), '{} | case {}'.format(what, json.dumps(c)), c)


def run_case(c, ctx=None):
    from .. import c12_cases
    stats = {}
    try:
        fails = c12_cases.check_case(c, stats, ctx) if ctx is not None else c12_cases.check_case(c, stats)
    except core.Timeout:
        raise
    except Exception as e:
        import traceback
        tb = traceback.extract_tb(e.__traceback__)
        # who raised: walk from the innermost frame outwards to the first frame of nutils (a loud failure where the property
        # promises a value: violation) or of this harness (a bug of the check: harness error, never a violation)
        for fr in reversed(tb):
            if '/nutils/' in fr.filename or '/nutils_poly/' in fr.filename:
                where = '{}:{}'.format(fr.filename.rsplit('/', 1)[-1], fr.name)
                break
            if '/vmc/' in fr.filename:
                raise
        else:
            raise
        fails = [('raise:{}:{}'.format(type(e).__name__, where), '{}: {}'.format(type(e).__name__, str(e)[:300]))]
    return fails, stats


def run_shard(spec, tier, seed):
    from .. import c12_cases
    res = core.ShardResult()
    name = spec['family']
    if name == 'mpedges':
        from .. import c12_mpedges
        c12_mpedges.run(spec, tier, res)
        return res
    cases = family_cases(name, tier)[spec['part']::spec['of']]
    if name == 'masked':
        for parent in cases:
            ctx = c12_cases.Ctx(parent)
            fails, stats = run_case(parent, ctx)
            _record(res, parent, fails, stats)
            if any(o not in c12_cases.SOFT for o, w in fails):
                continue
            for d in mask_family(stats['ndofs']):
                c = dict(parent, derive=d)
                fails, stats = run_case(c, ctx)
                _record(res, c, fails, stats)
            res.sample({'parent': parent, 'masks': len(mask_family(stats['ndofs']))})
    elif name == 'partition':
        for parent, nbase in cases:
            ctx = c12_cases.Ctx(parent)
            for parts in ref.canonical_labelings(nbase, 3):
                c = dict(parent, derive={'kind': 'partition', 'parts': parts})
                fails, stats = run_case(c, ctx)
                _record(res, c, fails, stats)
            res.sample({'parent': parent, 'labelings': len(ref.canonical_labelings(nbase, 3))})
    else:
        for c in cases:
            fails, stats = run_case(c)
            _record(res, c, fails, stats)
            res.sample({'case': c, 'class': stats.get('class'), 'ndofs': stats.get('ndofs')})
    return res


def replay(w):
    if w.get('family') == 'mpedges':
        from .. import c12_mpedges
        return c12_mpedges.replay(w)
    fails, stats = run_case(w)
    if not fails:
        return None
    return '; '.join('{}: {}'.format(o, what) for o, what in fails)


def finalize(cov, tier):
    cov['explanation'] = ('every case builds the real topology and basis, evaluates it with topo.sample(...).eval and compares with numpy; '
                          'continuity groups = (direction, knot) pairs on structured grids, interface classes elsewhere')
