'''C18 - disk memoisation is transparent and crash-tolerant.

(a) cache.function, (b) cache.Recursion: fault enumeration.  Every history of runs over a small menu is executed on the
REAL code against a fresh cache directory; a crash "killed at byte k while writing a cache entry" is injected inside
pickle.dump (the only write of cache.py) for EVERY dump of the history and EVERY byte offset k of that entry
(including 0 = nothing written and len = complete entry but killed before returning).  After every history the next
run(s) must return exactly what an uncached run returns, replay exactly the log records of the uncached run, and
execute the wrapped function only as often as the missing entries require.
(c) concurrent callers: exhaustive, preemption-bounded exploration of two real PROCESSES under a controlled scheduler
(vmc.sched) - see c18 part c below.  (d) the users of the cache in nutils.solver.
'''

import os, sys, io, json, itertools, pickle, tempfile, shutil, hashlib
import numpy
from .. import core

LEVEL = 'fault_enumeration'
RULE = ('(a) payload alphabet x every byte prefix of the cache entry x {call again, call twice}; (b) recursions (length 1/2, finite/infinite, raising) x '
        'histories of depth<=3 over {consume n, complete, crash at dump d byte k, raise at item j} with every (d,k); (c) all schedules of 2 processes '
        'with <=2 preemptions at line granularity of the cache wrapper; (d) solver users with / without cache. non-trivial = distinct crash points that '
        'cut strictly inside an entry (0<k<len) plus distinct schedules with at least one preemption')
ASSUMPTIONS = ['a kill leaves a byte prefix of the entry being written (no page reordering, no torn earlier entries), as the property states',
               'the crash is injected at the single write site pickle.dump of cache.py; bytes before k are flushed',
               'part (c): scheduling points are line events of the wrapper / Recursion.__iter__ and entry/exit of the user function; flock is the real kernel lock behind a non-blocking shim']
BUDGET_S = {'quick': 420, 'thorough': 5400}


class Crash(BaseException):
    'simulated SIGKILL: not catchable by `except Exception`'


class CrashingPickle:
    '''stand-in for the `pickle` module inside nutils.cache: the n-th dump of this run writes only the first k bytes and dies'''

    def __init__(self, target=None, k=None):
        self.target = target
        self.k = k
        self.ndumps = 0
        self.sizes = []

    def __getattr__(self, name):
        return getattr(pickle, name)

    def dump(self, obj, f, *args, **kwargs):
        data = pickle.dumps(obj, *args, **kwargs)
        idx = self.ndumps
        self.ndumps += 1
        self.sizes.append(len(data))
        if self.target is not None and idx == self.target:
            f.write(data[:self.k])
            f.flush()
            raise Crash()
        f.write(data)


class Recorder:
    'treelog log that records user-visible messages (the cache module\'s own debug lines are not part of the wrapped call\'s output)'

    def __init__(self):
        self.messages = []
        self.ctx = []

    def pushcontext(self, title):
        self.ctx.append(title)

    def popcontext(self):
        self.ctx.pop()

    def recontext(self, title):
        self.ctx[-1] = title

    def write(self, msg, level):
        if isinstance(msg, str) and msg.startswith('[cache.'):
            return
        self.messages.append(('/'.join(self.ctx), str(msg), int(level) if hasattr(level, '__int__') else str(level)))

    def open(self, *args, **kwargs):
        raise NotImplementedError


def with_cache(cachedir, crash, body):
    '''run body() with caching enabled in cachedir, the given crash plan, recording logs; returns (outcome, messages, shim)'''
    import treelog
    from nutils import cache
    shim = CrashingPickle(*crash) if crash else CrashingPickle()
    rec = Recorder()
    old = cache.pickle
    cache.pickle = shim
    try:
        with treelog.set(rec):
            if cachedir is None:
                with cache.disable():
                    out = ('ok', body())
            else:
                with cache.enable(cachedir):
                    try:
                        out = ('ok', body())
                    except Crash:
                        out = ('crash', None)
                    except UserError as e:
                        out = ('raised', str(e))
    finally:
        cache.pickle = old
    return out, rec.messages, shim


class UserError(Exception):
    pass


# ----------------------------------------------------------------------------------------------- (a) cache.function

EXEC = {'n': 0}


def _payload(kind):
    if kind == 'int':
        return 42
    if kind == 'str':
        return 'a string with a . stop byte and \x2e and unicode €'
    if kind == 'nested':
        return (1, (2., 'x', b'.\x80\x95'), [None, True], {'k': (3, 4)})
    if kind == 'array':
        return numpy.arange(12.).reshape(3, 4) * .5
    if kind == 'bigarray':
        return numpy.arange(1200.) % 46.     # ~9.6 kB, contains the byte 0x2e many times
    if kind == 'hugearray':
        return numpy.arange(9000.) % 46.     # ~72 kB: beyond the 64 KiB framing threshold of pickle protocol 4+
    if kind == 'immutable':
        from nutils import types
        return types.frozenarray([1, 2, 3]), types.frozendict({'a': 1})
    raise ValueError(kind)


PAYLOADS = {'quick': ['int', 'str', 'nested', 'array', 'immutable', 'bigarray'], 'thorough': ['int', 'str', 'nested', 'array', 'immutable', 'bigarray', 'hugearray']}


def _make_function(kind, logs):
    import treelog
    from nutils import cache

    def f(x, scale=1):
        EXEC['n'] += 1
        if logs:
            treelog.info('computing', kind, x)
            with treelog.context('inner'):
                treelog.warning('half way')
            treelog.user('done')
        return _payload(kind), x * scale
    f.__qualname__ = 'vmc_c18_f_{}_{}'.format(kind, int(logs))
    f.__module__ = 'vmc.checks.c18'
    return cache.function(f)


def _eq(a, b):
    # nutils documents that numpy scalars are normalised to python scalars when arguments are hashed, so f(numpy.int64(1)) may be served
    # from the entry of f(1): compare such scalars by value
    if isinstance(a, numpy.generic):
        a = a.item()
    if isinstance(b, numpy.generic):
        b = b.item()
    if isinstance(a, numpy.ndarray) or isinstance(b, numpy.ndarray):
        return isinstance(a, numpy.ndarray) and isinstance(b, numpy.ndarray) and a.dtype == b.dtype and a.shape == b.shape and bool((a == b).all())
    if isinstance(a, (tuple, list)):
        return type(a) == type(b) and len(a) == len(b) and all(_eq(x, y) for x, y in zip(a, b))
    if isinstance(a, dict):
        return type(a) == type(b) and sorted(a) == sorted(b) and all(_eq(a[k], b[k]) for k in a)
    return type(a) == type(b) and a == b


def check_function_crash(kind, logs, k, nbytes=None):
    'history: [call crashing at byte k] then [call] then [call]; returns None or a failure string; k=None means: measure the entry size only'
    f = _make_function(kind, logs)
    (_, want), want_msgs, _ = with_cache(None, None, lambda: f(3, scale=2))
    d = tempfile.mkdtemp(prefix='vmc18-')
    try:
        out, msgs, shim = with_cache(d, (0, k) if k is not None else None, lambda: f(3, scale=2))
        if k is None:
            return shim.sizes[0]
        if out[0] != 'crash':
            return 'crash plan did not trigger (dumps={})'.format(shim.ndumps)
        size = shim.sizes[0]
        complete = k >= size
        for attempt in (1, 2):
            EXEC['n'] = 0
            try:
                out, msgs, shim2 = with_cache(d, None, lambda: f(3, scale=2))
            except BaseException as e:
                return 'call {} after a crash at byte {}/{} raised {!r}'.format(attempt, k, size, e)
            if out[0] != 'ok' or not _eq(out[1], want):
                return 'call {} after a crash at byte {}/{} returned {!r} instead of {!r}'.format(attempt, k, size, out, want)[:500]
            if msgs != want_msgs:
                return 'call {} after a crash at byte {}/{} logged {} instead of {}'.format(attempt, k, size, msgs, want_msgs)[:500]
            expect_exec = 0 if (complete or attempt == 2) else 1
            if EXEC['n'] != expect_exec:
                return 'call {} after a crash at byte {}/{} executed the function {} times instead of {}'.format(attempt, k, size, EXEC['n'], expect_exec)
        return None
    finally:
        shutil.rmtree(d, ignore_errors=True)


def check_function_misc(case):
    'other histories of cache.function: raising function, distinct arguments, garbage left in the entry'
    import treelog
    from nutils import cache
    d = tempfile.mkdtemp(prefix='vmc18-')
    try:
        if case == 'raise-then-ok':
            state = {'fail': True}

            def g(x):
                EXEC['n'] += 1
                treelog.info('g', x)
                if state['fail']:
                    raise UserError('boom')
                return x + 1
            g.__qualname__ = 'vmc_c18_g'
            g.__module__ = 'vmc.checks.c18'
            cg = cache.function(g)
            out, _, _ = with_cache(d, None, lambda: cg(1))
            if out[0] != 'raised':
                return 'exception of the wrapped function was swallowed: {}'.format(out)
            state['fail'] = False
            EXEC['n'] = 0
            out, msgs, _ = with_cache(d, None, lambda: cg(1))
            if out != ('ok', 2) or EXEC['n'] != 1:
                return 'after a raising run the call returned {} with {} executions'.format(out, EXEC['n'])
            EXEC['n'] = 0
            out, msgs2, _ = with_cache(d, None, lambda: cg(1))
            if out != ('ok', 2) or EXEC['n'] != 0 or msgs2 != msgs:
                return 'hit after a raising run returned {} with {} executions, logs {} vs {}'.format(out, EXEC['n'], msgs2, msgs)
            return None
        if case == 'distinct-arguments':
            f = _make_function('int', True)
            seen = {}
            for args, kwargs in [((1,), {}), ((1.,), {}), ((True,), {}), ((1,), {'scale': 2}), ((2,), {}), (((1,),), {}), (([1],), {}), (('1',), {}), ((numpy.int64(1),), {}),
                                 ((numpy.arange(9.).reshape(3, 3),), {}), ((numpy.arange(9.).reshape(3, 3).T,), {}), ((numpy.asfortranarray(numpy.arange(9.).reshape(3, 3)),), {}),
                                 ((numpy.arange(6.).reshape(2, 3),), {}), ((numpy.arange(6.).reshape(3, 2),), {}), ((numpy.arange(6),), {})]:
                EXEC['n'] = 0
                out, _, _ = with_cache(d, None, lambda: f(*args, **kwargs))
                (_, want), _, _ = with_cache(None, None, lambda: f(*args, **kwargs))
                if out[0] != 'ok' or not _eq(out[1], want):
                    return 'f{}{} returned {!r} with cache but {!r} without'.format(args, kwargs, out, want)
            return None
        if case.startswith('garbage'):
            f = _make_function('nested', True)
            (_, want), want_msgs, _ = with_cache(None, None, lambda: f(3, scale=2))
            out, _, shim = with_cache(d, None, lambda: f(3, scale=2))
            entry, = [p for p in os.listdir(d)]
            good = open(os.path.join(d, entry), 'rb').read()
            garbage = {'garbage-bogus': b'bogus', 'garbage-zeros': b'\0' * 40, 'garbage-empty': b'', 'garbage-oldformat': pickle.dumps((None, True, None))}[case]
            with open(os.path.join(d, entry), 'wb') as fh:
                fh.write(garbage)
            for attempt in (1, 2):
                EXEC['n'] = 0
                try:
                    out, msgs, _ = with_cache(d, None, lambda: f(3, scale=2))
                except BaseException as e:
                    return 'call {} with {} in the entry raised {!r}'.format(attempt, case, e)
                if out[0] != 'ok' or not _eq(out[1], want) or msgs != want_msgs or EXEC['n'] != (1 if attempt == 1 else 0):
                    return 'call {} with {} in the entry: {} executions, value ok={}, logs ok={}'.format(attempt, case, EXEC['n'], out[0] == 'ok' and _eq(out[1], want), msgs == want_msgs)
            return None
        raise ValueError(case)
    finally:
        shutil.rmtree(d, ignore_errors=True)


MISC = ['raise-then-ok', 'distinct-arguments', 'garbage-bogus', 'garbage-zeros', 'garbage-empty', 'garbage-oldformat']

# ----------------------------------------------------------------------------------------------- (b) cache.Recursion

_RECS = {}


def _recursions():
    if _RECS:
        return _RECS
    import treelog
    from nutils import cache

    class Fib(cache.Recursion, length=2):
        def __init__(self, x0, x1, stop=None, fail=None):
            self.x0 = x0
            self.x1 = x1
            self.stop = stop
            self.fail = fail

        def resume(self, history):
            history = list(history)
            n = EXEC.setdefault('resume', 0)
            EXEC['resume'] = n + 1
            EXEC['histories'].append(tuple(history))
            if len(history) == 0:
                treelog.info('item x0')
                yield self.x0
                history.append(self.x0)
            if len(history) == 1:
                treelog.info('item x1')
                yield self.x1
                history.append(self.x1)
            while True:
                value = history[-2] + history[-1]
                if self.fail is not None and value >= self.fail and FAIL['on']:
                    raise UserError('fail at {}'.format(value))
                if self.stop is not None and value > self.stop:
                    return
                with treelog.context('step'):
                    treelog.info('value', value)
                yield value
                history = [history[-1], value]

    class Count(cache.Recursion, length=1):
        def __init__(self, start, stop=None):
            self.start = start
            self.stop = stop

        def resume(self, history):
            EXEC['resume'] = EXEC.get('resume', 0) + 1
            EXEC['histories'].append(tuple(history))
            value = int(history[-1][0]) + 1 if history else self.start
            while self.stop is None or value < self.stop:
                treelog.user('count', value)
                yield numpy.array([value, value * .5])
                value += 1
    Fib.__module__ = Count.__module__ = 'vmc.checks.c18'
    _RECS.update(fib=Fib, count=Count)
    return _RECS


FAIL = {'on': False}
REC_SPECS = {'fib-inf': ('fib', (1, 1), {}), 'fib-stop': ('fib', (1, 2), {'stop': 20}), 'fib-fail': ('fib', (1, 1), {'fail': 5}),
             'count-inf': ('count', (3,), {}), 'count-stop': ('count', (0,), {'stop': 3}), 'count-empty': ('count', (5,), {'stop': 5})}


def _consume(obj, n):
    out = []
    it = iter(obj)
    for i in range(n):
        try:
            out.append(next(it))
        except StopIteration:
            out.append('STOP')
            break
    it.close()
    return out


def _run_recursion_event(spec, ev, cachedir):
    'events: ["take", n] | ["crash", d, k, n] | ["fail", n]; returns (outcome, messages, shim)'
    name, args, kwargs = REC_SPECS[spec]
    obj = _recursions()[name](*args, **kwargs)
    EXEC['histories'] = []
    EXEC['resume'] = 0
    FAIL['on'] = ev[0] == 'fail'
    try:
        if ev[0] == 'crash':
            return with_cache(cachedir, (ev[1], ev[2]), lambda: _consume(obj, ev[3]))
        return with_cache(cachedir, None, lambda: _consume(obj, ev[-1]))
    finally:
        FAIL['on'] = False


def _norm(v):
    return v.tolist() if isinstance(v, numpy.ndarray) else v


def check_recursion_history(spec, hist, probe_n):
    '''run the history on a fresh directory, then probe: consuming probe_n items must give the uncached sequence and logs, and the
    resume() calls must start from a history that is a true tail of the sequence'''
    out, want_msgs, _ = _run_recursion_event(spec, ['take', probe_n], None)
    want = [_norm(v) for v in out[1]]
    d = tempfile.mkdtemp(prefix='vmc18-')
    try:
        for ev in hist:
            try:
                _run_recursion_event(spec, ev, d)
            except BaseException as e:
                return 'history event {} raised {!r}'.format(ev, e)
        for attempt in (1, 2):
            try:
                out, msgs, shim = _run_recursion_event(spec, ['take', probe_n], d)
            except BaseException as e:
                return 'probe {} after history {} raised {!r}'.format(attempt, hist, e)
            got = [_norm(v) for v in out[1]] if out[0] == 'ok' else out
            if got != want:
                return 'probe {} after history {} yields {} instead of {}'.format(attempt, hist, got, want)[:500]
            if msgs != want_msgs:
                return 'probe {} after history {} logs {} instead of {}'.format(attempt, hist, msgs, want_msgs)[:600]
            length = _recursions()[REC_SPECS[spec][0]].length
            seq = [v for v in want if v != 'STOP']
            for h in EXEC['histories']:
                h = [_norm(v) for v in h]
                ok = any(h == seq[max(0, i - length):i] for i in range(len(seq) + 1))
                if not ok:
                    return 'probe {} after history {}: resume() was started from history {} which is not a tail of {}'.format(attempt, hist, h, seq)
            if attempt == 2 and EXEC['resume'] > 1:
                return 'second probe after history {} called resume {} times'.format(hist, EXEC['resume'])
        return None
    finally:
        shutil.rmtree(d, ignore_errors=True)


def recursion_dump_sizes(spec, prefix_hist, n):
    'sizes of the entries dumped by consuming n items after prefix_hist (to enumerate every byte offset)'
    d = tempfile.mkdtemp(prefix='vmc18-')
    try:
        for ev in prefix_hist:
            _run_recursion_event(spec, ev, d)
        out, msgs, shim = _run_recursion_event(spec, ['take', n], d)
        return shim.sizes
    finally:
        shutil.rmtree(d, ignore_errors=True)


# ----------------------------------------------------------------------------------------------- (d) users of the cache

def check_users(case):
    from nutils import solver, function, mesh, cache
    import treelog
    dom, geom = mesh.rectilinear([3])
    basis = dom.basis('std', degree=1)
    u = function.dotarg('u', basis)
    v = function.dotarg('v', basis)
    J = function.J(geom)
    d = tempfile.mkdtemp(prefix='vmc18-')

    def calls():
        if case == 'system-solve':
            res = dom.integral((function.grad(u, geom)[0] * function.grad(v, geom)[0] + u * v + u ** 3 * v - geom[0] * v) * J, degree=4)
            S = solver.System(res, trial='u', test='v')
            cons = {'u': numpy.array([0., numpy.nan, numpy.nan, 1.])}
            return [lambda tol=tol, c=c: S.solve(constrain=c, tol=tol)['u'] for tol in (1e-6, 1e-10) for c in (cons, {})]
        if case == 'solve-constraints':
            sqr = dom.boundary['left'].integral(u ** 2 * J, degree=2)
            sqr2 = dom.boundary.integral((u - geom[0]) ** 2 * J, degree=2)
            return [lambda f=f, tol=tol: solver.System(f, trial='u').solve_constraints(droptol=tol)['u'] for f in (sqr, sqr2) for tol in (1e-12, 1e-3)]
        if case == 'legacy-newton':
            res = dom.integral((function.grad(u, geom)[0] * function.grad(basis, geom)[:, 0] + u * basis + u ** 3 * basis - basis) * J, degree=4)
            return [lambda tol=tol: solver.newton('u', res).solve(tol) for tol in (1e-6, 1e-10)]
        raise ValueError(case)
    try:
        with treelog.set(treelog.NullLog()):
            want = [c() for c in calls()]
            with cache.enable(d):
                first = [c() for c in calls()]
                second = [c() for c in calls()]
        for i, (w, a, b) in enumerate(zip(want, first, second)):
            for tag, x in (('first', a), ('second', b)):
                if not (numpy.shape(x) == numpy.shape(w) and numpy.allclose(x, w, rtol=1e-12, atol=1e-12, equal_nan=True)):
                    return '{} call {} with cache: {} instead of {}'.format(tag, i, numpy.asarray(x).tolist(), numpy.asarray(w).tolist())
        return None
    finally:
        shutil.rmtree(d, ignore_errors=True)


USERS = ['system-solve', 'solve-constraints', 'legacy-newton']

# ----------------------------------------------------------------------------------------------- shards


def shards(tier, seed):
    out = []
    for kind in PAYLOADS[tier]:
        for logs in (False, True):
            out.append({'part': 'a', 'payload': kind, 'logs': logs})
    out.append({'part': 'a-misc'})
    for spec in REC_SPECS:
        out.append({'part': 'b', 'spec': spec})
    out.append({'part': 'd'})
    from . import c18_sched
    out.extend(c18_sched.shards(tier))
    return out


def recursion_histories(spec, tier):
    'histories of depth <= 2 (quick) / 3 (thorough) without crash; crashes are inserted at every position with every (d,k)'
    base = [['take', 1], ['take', 3], ['take', 9]] + ([['fail', 9]] if 'fail' in spec else [])
    depth = 2 if tier == 'quick' else 3
    hists = [[]]
    for d in range(1, depth):
        hists += [list(h) for h in itertools.product(base, repeat=d)]
    return hists


def run_shard(spec, tier, seed):
    import treelog
    res = core.ShardResult()
    if spec['part'] == 'a':
        size = check_function_crash(spec['payload'], spec['logs'], None)
        step = 1 if size <= 20000 else 7   # huge entries: every 7th byte plus all offsets around the frame boundaries
        ks = sorted(set(range(0, size + 1, step)) | set(range(0, min(size, 300))) | set(range(max(0, size - 300), size + 1)) | {k for c in (65536, 65546) for k in range(c - 40, c + 40) if 0 <= k <= size})
        for k in ks:
            res.count('evaluations')
            try:
                fail = check_function_crash(spec['payload'], spec['logs'], k)
            except Exception as e:
                fail = 'harness: {!r}'.format(e)
            if fail:
                res.violation('function-crash:{}:{}'.format(spec['payload'], _failkind(fail)), fail, {'part': 'a', 'payload': spec['payload'], 'logs': spec['logs'], 'k': k})
            elif 0 < k < size:
                res.distinct('distinct_nontrivial', 'a{}{}{}'.format(spec['payload'], spec['logs'], k))
        res.sample({'part': 'a', 'payload': spec['payload'], 'entry_bytes': size, 'crash_points': len(ks), 'exhaustive_bytes': step == 1})
        if step != 1:
            res.count('capped')
    elif spec['part'] == 'a-misc':
        for case in MISC:
            res.count('evaluations')
            try:
                fail = check_function_misc(case)
            except Exception as e:
                fail = 'harness: {!r}'.format(e)
            if fail:
                res.violation('function-misc:{}'.format(case), fail, {'part': 'a-misc', 'case': case})
            else:
                res.distinct('distinct_nontrivial', case)
        res.sample({'part': 'a-misc', 'cases': MISC})
    elif spec['part'] == 'b':
        for hist in recursion_histories(spec['spec'], tier):
            # without crash
            _rec_one(spec['spec'], hist, res)
            # with a crash inserted after the prefix `hist`: every dump index d and every byte k of a following run
            for n in (2, 5):
                sizes = recursion_dump_sizes(spec['spec'], hist, n)
                for dump, size in enumerate(sizes):
                    for k in range(size + 1):
                        h2 = hist + [['crash', dump, k, n]]
                        if _rec_one(spec['spec'], h2, res) and 0 < k < size:
                            res.distinct('distinct_nontrivial', json.dumps([spec['spec'], h2]))
                        if tier == 'thorough' and k in (0, size // 2, size) and not hist:
                            # a second crash after the first
                            for k2 in range(0, size + 1, 5):
                                _rec_one(spec['spec'], h2 + [['crash', 0, k2, n]], res)
        res.sample({'part': 'b', 'spec': spec['spec'], 'example_history': [['take', 3], ['crash', 1, 17, 5]]})
    elif spec['part'] == 'd':
        for case in USERS:
            res.count('evaluations')
            try:
                fail = check_users(case)
            except Exception as e:
                fail = 'raised {!r}'.format(e)[:400]
            if fail:
                res.violation('users:{}'.format(case), fail, {'part': 'd', 'case': case})
            else:
                res.distinct('distinct_nontrivial', case)
        res.sample({'part': 'd', 'cases': USERS})
    else:
        from . import c18_sched
        c18_sched.run_shard(spec, tier, res)
    return res


def _rec_one(spec, hist, res):
    res.count('evaluations')
    for probe in (4, 10):
        try:
            fail = check_recursion_history(spec, hist, probe)
        except Exception as e:
            fail = 'harness: {!r}'.format(e)
        if fail:
            res.violation('recursion:{}:{}'.format(spec, _failkind(fail)), fail, {'part': 'b', 'spec': spec, 'history': hist, 'probe': probe})
            return False
    return True


def _failkind(fail):
    for key in ('raised', 'returned', 'logged', 'logs', 'executed', 'yields', 'resume', 'harness', 'called resume'):
        if key in fail:
            return key.replace(' ', '-')
    return 'other'


def replay(w):
    if w['part'] == 'a':
        return check_function_crash(w['payload'], w['logs'], w['k'])
    if w['part'] == 'a-misc':
        return check_function_misc(w['case'])
    if w['part'] == 'b':
        return check_recursion_history(w['spec'], w['history'], w['probe'])
    if w['part'] == 'd':
        try:
            return check_users(w['case'])
        except Exception as e:
            return 'raised {!r}'.format(e)[:400]
    from . import c18_sched
    return c18_sched.replay(w)
