'''C09 - integration is exact quadrature of point evaluation.

(a) SAMPLE ALGEBRA, explicit-state search.  A state is a live nutils Sample
    together with a plain-Python model (list of elements, each a list of
    (per-space local coordinates, weight, result index)).  From 16 base samples
    every sequence of operations {product, sum, take_elements, subset, zip,
    custom index, rename_spaces} up to depth 3 is applied to both; after every
    transition  getindex / index / nelems / npoints / spaces  are compared with
    the model, sample.eval(F)[getindex(i)] with F at the model's points of
    element i, sample.integrate(F) and sample.integral(F).eval() with sum w F.
(b) QUADRATURE TABLES, exhaustive enumeration: every reference element x scheme
    x degree x monomial, against exact rational integrals.
'''

import itertools, json
import numpy
from .. import core
from .. import c09_model as M
from .. import c09_explore as E
from .. import c09_quad as Q

LEVEL = 'model_checking'
RULE = ('(a) base samples {gauss1,gauss2,bezier2,uniform2} on mesh.line(2)@X, mesh.line(3)@Y, mesh.rectilinear([2,1])@Z, located-with-weights on X and Z, '
        'gauss2 on two trimmed lines (Mosaic / WithChildren elements); operations mul/rmul(base sample in a free space), add/radd(plain sample on the same '
        'spaces)/addself, take_elements(every ordered selection without repetition of <=3 of the <=4 probe elements first/second/middle/last), '
        'subset(<=5 masks), zip(located sample in a free space, either side), custom index (4 permutations), rename_spaces(fresh/free/swap). '
        'FULL = that alphabet, CORE = 1-2 representatives per operation kind. quick: all sequences FULL (depth 1) and CORE.CORE from all 16 bases, CORE.CORE.CORE '
        'from 6 bases (each mesh, a located sample, both trimmed samples); thorough: FULL.FULL and CORE.CORE.CORE from all 16 bases, FULL.CORE.CORE from 4 (Xg2,Yg1,Zu2,Ytrim). '
        'States are deduplicated on the (interned) sample object + model. '
        'non-trivial/distinct = distinct (model, nested sample type) reached by >=1 operation. '
        '(b) references {point,line,triangle,tetrahedron,line^2,line^3,triangle*line,line*triangle, WithChildren(every full/empty child mask of line/square/triangle '
        '[thorough: cube, tetrahedron]), trims of line/square/triangle by every linear level set a.x+c, a in {-2..2}^n, c in {-7/4..11/4 step 1/4} with dyadic cuts, '
        'maxrefine 0,1 [thorough: 2; cube/tetrahedron maxrefine 0]} x schemes {gauss 0..max, gauss (d1,d2), bezier, uniform, vertex, vtk, _centroid, mixed s1*s2} x '
        'every monomial of total degree <= degree; distinct = (reference, scheme, degree)')
ASSUMPTIONS = ['geometries are affine per element; integrands are the polynomials prod_j(q_j(x_j)+j), sum_j (j+1) code_j(x_j) and the first times prod_j J(x_j)',
               'the local order of points inside an element of a base or zipped sample, and the element order of a non-monotone take_elements, are adopted from '
               'the implementation after validating the multiset (the property does not fix them)',
               'gauss exactness is demanded up to the degree above which nutils warns: line unbounded (checked to 12/20), triangle 6, tetrahedron 7',
               'the vertex scheme on trimmed/refined references returns the untrimmed element\'s points by design; nothing is demanded of it',
               'child vertices used for the exact integrals over WithChildren references come from nutils child transforms (checked by C11)',
               'NotImplementedError for a sample construction inside the quantifier (arbitrary nesting) is reported as a violation under an unsupported: key']
BUDGET_S = {'quick': 600, 'thorough': 3600}


DEEP_BASES = ['Xg2', 'Yg1', 'Zu2', 'Xloc', 'Xtrim', 'Ytrim']   # every mesh, a located sample, both kinds of trimmed element

FCC_BASES = ['Xg2', 'Yg1', 'Zu2', 'Ytrim']


def schedules(tier, bname):
    deep = bname in DEEP_BASES
    if tier == 'quick':
        return [['full'], ['core', 'core', 'core'] if deep else ['core', 'core']]
    return [['full', 'full'], ['core', 'core', 'core']] + ([['full', 'core', 'core']] if bname in FCC_BASES else [])


def lmax(tier):
    return 12 if tier == 'quick' else 20


def chunks(items, n):
    return [items[i::n] for i in range(n) if items[i::n]]


def shards(tier, seed):
    out = []
    # part (b), cheap shards first
    out.append({'part': 'b', 'what': 'plain'})
    out.append({'part': 'b', 'what': 'children'})
    ntrim = 8 if tier == 'quick' else 24
    for i in range(ntrim):
        out.append({'part': 'b', 'what': 'trim', 'slice': i, 'of': ntrim})
    if tier == 'thorough':
        for i in range(4):
            out.append({'part': 'b', 'what': 'trim3', 'slice': i, 'of': 4})
    # part (a): one shard per (base, schedule, slice of the first-level menu)
    for b in M.BASES:
        for sched in schedules(tier, b):
            nsl = {1: 1, 2: 5, 3: 5}[len(sched)] if sched[0] == 'full' else {2: 1, 3: 3 if tier == 'quick' else 2}[len(sched)]
            for i in range(nsl):
                out.append({'part': 'a', 'base': b, 'levels': sched, 'slice': i, 'of': nsl})
    return out


# ---------------------------------------------------------------- part (a)

def run_a(spec, tier, res):
    bname = spec['base']
    try:
        smp, mod = M.base(bname)
        obs = M.conform(smp, mod)
    except M.Mismatch as e:
        obs = (e.kind, e.what)
    res.count('evaluations')
    if obs:
        res.violation('base:{}:{}'.format(bname[1:], obs[0]), 'base sample {}: {}'.format(bname, obs[1]), {'part': 'a', 'base': bname, 'ops': []})
        return
    res.count('states')
    levels = spec['levels']
    seen = {smp: (mod.key(), {tuple(levels)})}
    first = E.menu(mod, smp, levels[0])[spec['slice']::spec['of']]
    E.explore(bname, smp, mod, [], levels, res, seen, first=first)


# ---------------------------------------------------------------- part (b)

def _label(spec):
    return json.dumps(spec)


def probe_shape(spec, tier, res):
    sh = Q.build(spec, lmax(tier))
    if sh is None:
        res.count('references_not_constructible')
        return
    from nutils import element
    if not sh.ref:
        res.count('references_empty')
        return
    if sh.kind == 'trim' and not isinstance(sh.ref, (element.MosaicReference, element.WithChildrenReference)):
        res.count('references_uncut')
        return
    res.count('references')
    res.distinct('distinct_outcomes', type(sh.ref).__name__ + ':' + str(sh.ref.ndims))
    for kind, what in Q.check_volume_attr(sh):
        res.violation('quad:{}:{}'.format(kind, sh.kind), '{}: {}'.format(_label(spec), what), {'part': 'b', 'lmax': lmax(tier), 'ref': spec, 'scheme': None, 'degree': None})
    for scheme, degree, demands in Q.schemes_for(sh, tier):
        outcome, fails, nmono = Q.check_scheme(sh, scheme, degree, demands)
        res.count('evaluations', max(1, nmono))
        res.count('quadrature_rules')
        res.distinct('distinct_outcomes', '{}:{}:{}'.format(sh.kind, scheme.split('*')[0] if '*' not in scheme else 'mixed', outcome))
        if demands and outcome in ('ok', 'inside-raised'):
            res.distinct('distinct_nontrivial', _label([spec, scheme, degree]))
        for kind, what in fails:
            res.violation(quad_key(kind, sh, scheme, degree), '{}: {}'.format(_label(spec), what), {'part': 'b', 'lmax': lmax(tier), 'ref': spec, 'scheme': scheme, 'degree': degree})
    if sh.kind in ('simplex', 'tensor') and sh.ref.ndims:
        for degree in range(0, sh.gauss_max + 1):
            fails, n = Q.check_children_sum(sh, degree)
            res.count('evaluations', max(1, n))
            res.distinct('distinct_nontrivial', _label([spec, 'children-sum', degree]))
            for kind, what in fails:
                res.violation('quad:{}:{}'.format(kind, shape_name(sh)), what, {'part': 'b', 'lmax': lmax(tier), 'ref': spec, 'scheme': 'children-sum', 'degree': degree})
    if sh.kind == 'trim':
        for degree in sorted({1, 2, min(4, sh.gauss_max), sh.gauss_max}):
            outcome, fails, n = Q.check_complement(spec, lmax(tier), degree)
            res.count('evaluations', max(1, n))
            if outcome == 'ok':
                res.distinct('distinct_nontrivial', _label([spec, 'complement', degree]))
            for kind, what in fails:
                res.violation('quad:{}:{}'.format(kind, shape_name(sh)), '{}: {}'.format(_label(spec), what), {'part': 'b', 'lmax': lmax(tier), 'ref': spec, 'scheme': 'complement', 'degree': degree})
    if len(res.samples) < 3 and sh.kind != 'simplex':
        res.sample({'reference': spec, 'type': type(sh.ref).__name__, 'exact_volume': str(sh.exact((0,) * sh.ref.ndims)) if sh.exact else None,
                    'gauss_degrees_checked': list(range(sh.gauss_max + 1))})


def shape_name(sh):
    spec = sh.spec
    b = spec if sh.kind in ('simplex', 'tensor') else spec[1]
    name = {0: 'point', 1: 'line', 2: 'triangle', 3: 'tetrahedron'}[b[1]] if b[0] == 'simplex' else 'x'.join({1: 'line', 2: 'triangle'}[n] for n in b[1])
    return name if sh.kind in ('simplex', 'tensor') else '{}({})'.format(sh.kind, name)


def quad_key(kind, sh, scheme, degree):
    'root cause: the table (scheme, element type, degree) for plain simplices, the composition rule otherwise'
    if sh.kind == 'simplex':
        return 'quad:{}:{}:{}:{}'.format(kind, shape_name(sh), scheme, degree)
    return 'quad:{}:{}:{}'.format(kind, shape_name(sh), scheme)


def run_b(spec, tier, res):
    what = spec['what']
    if what == 'plain':
        specs = Q.plain_specs()
    elif what == 'children':
        specs = Q.children_specs(tier)
    elif what == 'trim':
        specs = Q.trim_specs(tier)[spec['slice']::spec['of']]
    else:
        specs = Q.trim3_specs(tier)[spec['slice']::spec['of']]
    for s in specs:
        probe_shape(s, tier, res)


def run_shard(spec, tier, seed):
    import time
    res = core.ShardResult()
    t0 = time.process_time()
    if spec['part'] == 'a':
        run_a(spec, tier, res)
    else:
        run_b(spec, tier, res)
    res.count('process_cpu_ms_part_' + spec['part'], int(1000 * (time.process_time() - t0)))  # true CPU time (cpu_s of the runner is wall time per shard)
    return res


def replay(w):
    if w['part'] == 'a':
        return E.run_history(w['base'], w['ops'])
    sh = Q.build(w['ref'], w['lmax'])
    if sh is None or not sh.ref:
        return None
    msgs = []
    if w['scheme'] is None:
        msgs = Q.check_volume_attr(sh)
    elif w['scheme'] == 'children-sum':
        msgs = Q.check_children_sum(sh, w['degree'])[0]
    elif w['scheme'] == 'complement':
        msgs = Q.check_complement(w['ref'], w['lmax'], w['degree'])[1]
    else:
        degree = tuple(w['degree']) if isinstance(w['degree'], list) else w['degree']
        for scheme, d, demands in Q.schemes_for(sh, 'thorough'):
            if scheme == w['scheme'] and d == degree:
                msgs = Q.check_scheme(sh, scheme, degree, demands)[1]
                break
    if msgs:
        return '{}: {}'.format(json.dumps(w['ref']), '; '.join(m for k, m in msgs))
    return None


def finalize(cov, tier):
    cov.setdefault('states', 0)
    cov.setdefault('transitions', 0)
    cov.setdefault('traces_validated_against_impl', 0)
    cov['explanation'] = ('states/transitions count part (a): every transition is executed on the real Sample object and compared with the model; '
                          'evaluations additionally counts every (reference, scheme, degree, monomial) of part (b)')
