'''C05 - sparse extraction denotes exactly the dense array.

For every term of the IR term space (all ndim incl. 0-d and empty axes), every loop program of the loop grammar
(loop sums of inflations with loop-dependent block sizes included) and a family of assembled function-level
integrals, the COO data of `array.assparse` / `array.simplified.assparse`, the CSR data of `evaluable.as_csr` and the
user-level `function.as_coo` / `function.as_csr` are evaluated and checked against the structural invariants the
property states and against the dense value (nutils' own unsimplified dense evaluation AND the numpy reference).
'''

import json
import numpy
from .. import core, terms as T, irspace, irtools, loopspace as LS, extraspace as XS

LEVEL = 'exploration'
RULE = ('every non-boolean term of depth<=2 (quick: leaves f5 + mixed at depth 1; thorough: all leaves + constants) and every loop program '
        '(bodies depth<=1, post-ops, nested, ragged chunks) gets its COO (raw node and simplified node) and, if 2-d, CSR extraction evaluated on the '
        'fixed valuation sets; plus assembled integrals over small (hierarchical / mixed-degree) topologies through function.as_coo/as_csr. '
        'non-trivial = distinct (term, route) whose sparse data has at least one stored entry and fewer stored entries than the dense size, or repeated chunks that had to be merged')
ASSUMPTIONS = ['numpy reference interpreter is the meaning of a term', 'fixed dyadic valuations; int/bool arguments exhaustive over {0,1}']
BUDGET_S = {'quick': 300, 'thorough': 4000}

D3_CORE_OPS = ['abs', 'add', 'diagonalize', 'inflate', 'multiply', 'powc', 'sum', 'take', 'takediag', 'transpose']
PROFILES = {
    'quick': [{'name': 'd2-f5', 'leaves': 'f5', 'consts': False, 'ops': 'all', 'depth': 2},
              {'name': 'd1-mixed', 'leaves': 'mixed', 'consts': True, 'ops': 'all', 'depth': 1}],
    'thorough': [{'name': 'd2-all', 'leaves': 'all', 'consts': True, 'ops': 'all', 'depth': 2},
                 # depth 3 over the structural heart of the rewrite core (the family C01 completes in its quick tier): leaves a (2,), A (2,2)
                 {'name': 'd3-core', 'leaves': 'aA', 'consts': False, 'ops': D3_CORE_OPS, 'depth': 3, 'binary': True}],
}
NPARTS = {'quick': {1: 2, 2: 40}, 'thorough': {1: 4, 2: 300, 3: 300}}
LOOP_CHUNK = 100


def shards(tier, seed):
    out = [{'kind': 'function'}] + [{'kind': 'extra', 'lo': lo, 'hi': lo + 80} for lo in range(0, len(XS.terms(tier)), 80)]
    n = len(LS.programs(tier))
    for lo in range(0, n, LOOP_CHUNK):
        out.append({'kind': 'loops', 'lo': lo, 'hi': min(n, lo + LOOP_CHUNK)})
    for s in irspace.shards(PROFILES[tier], NPARTS[tier]):
        s['kind'] = 'terms'
        out.append(s)
    return out


def check_coo(values, indices, shape, dense, kind):
    'structural invariants of COO data + scatter == dense; returns None or (kind, what)'
    values = numpy.asarray(values)
    if values.ndim != 1:
        return ('coo-structure', 'values has shape {}'.format(values.shape))
    if len(indices) != len(shape):
        return ('coo-structure', '{} index arrays for {} axes'.format(len(indices), len(shape)))
    for k, (ix, n) in enumerate(zip(indices, shape)):
        ix = numpy.asarray(ix)
        if ix.shape != values.shape or ix.dtype.kind not in 'iu':
            return ('coo-structure', 'index {} has shape {} dtype {} for {} values'.format(k, ix.shape, ix.dtype, len(values)))
        if len(ix) and (ix.min() < 0 or ix.max() >= n):
            return ('coo-range', 'index {} = {} outside [0,{})'.format(k, ix.tolist(), n))
    tuples = list(zip(*[numpy.asarray(ix).tolist() for ix in indices])) if shape else [()] * len(values)
    if shape:
        for s, t in zip(tuples, tuples[1:]):
            if not s < t:
                return ('coo-order', 'index tuples not unique and lexicographically increasing: {} then {}'.format(s, t))
    elif len(values) != 1:
        return ('coo-structure', '0-d array with {} values'.format(len(values)))
    if irtools.kind_of(values) != kind:
        return ('coo-dtype', 'values have dtype {} instead of kind {}'.format(values.dtype, kind))
    scat = numpy.zeros(shape, dtype=values.dtype)
    for t, v in zip(tuples, values):
        scat[t] += v
    if not irtools.close(scat, dense, kind):
        return ('coo-value', 'scatter of sparse data = {} but dense = {}'.format(irtools.describe(scat), irtools.describe(dense)))
    return None


def check_csr(values, rowptr, colidx, ncols, dense, kind):
    values = numpy.asarray(values); rowptr = numpy.asarray(rowptr); colidx = numpy.asarray(colidx)
    nrows = dense.shape[0]
    if int(ncols) != dense.shape[1]:
        return ('csr-structure', 'ncols {} != {}'.format(ncols, dense.shape[1]))
    if rowptr.shape != (nrows + 1,) or rowptr[0] != 0 or rowptr[-1] != len(values) or len(colidx) != len(values):
        return ('csr-structure', 'rowptr {} for {} rows and {} values, {} columns indices'.format(rowptr.tolist(), nrows, len(values), len(colidx)))
    if (numpy.diff(rowptr) < 0).any():
        return ('csr-rowptr', 'rowptr not monotone: {}'.format(rowptr.tolist()))
    scat = numpy.zeros(dense.shape, dtype=values.dtype)
    for i in range(nrows):
        cols = colidx[rowptr[i]:rowptr[i + 1]]
        if len(cols) and (cols.min() < 0 or cols.max() >= dense.shape[1]):
            return ('csr-range', 'row {} has columns {}'.format(i, cols.tolist()))
        if (numpy.diff(cols) <= 0).any():
            return ('csr-order', 'columns of row {} not strictly increasing: {}'.format(i, cols.tolist()))
        scat[i, cols] = values[rowptr[i]:rowptr[i + 1]]
    if not irtools.close(scat, dense, kind):
        return ('csr-value', 'CSR data denote {} but dense = {}'.format(irtools.describe(scat), irtools.describe(dense)))
    return None


def check_term(term, nsets=2, res=None):
    'returns None or (route, kind, what)'
    from nutils import evaluable
    shape, kind = T.typeof(term)
    if kind == 'b':
        return None
    try:
        node = T.build(term)
    except Exception as e:
        return ('-', 'build', repr(e)[:200])
    if not irtools.simplifies(node):
        if res is not None:
            res.count('skipped_simplifier_fails_see_C01')
        return None
    routes = []
    try:
        # the public extraction routes (function.as_coo / as_csr, evaluable.as_csr, solver.System) simplify first; extraction from the
        # unsimplified node is an internal route: if it raises loudly it is only counted, if it returns data the data must be right
        v, ix, sh = node.assparse
        routes.append(('raw.assparse', (v, ix, sh), 'coo'))
    except Exception:
        if res is not None:
            res.count('raw_route_raised')
    try:
        v, ix, sh = node.simplified.assparse
        routes.append(('simplified.assparse', (v, ix, sh), 'coo'))
        if len(shape) == 2:
            routes.append(('as_csr', evaluable.as_csr(node), 'csr'))
    except Exception as e:
        return ('extract', 'extract-exception', 'sparse extraction raised {!r}'.format(e)[:300])
    try:
        f_dense = irtools.compile_(node, simplify=False, optimize=False)
        fs = [(name, irtools.compile_(data), form) for name, data, form in routes]
    except Exception as e:
        return ('compile', 'compile-exception', 'compile raised {!r}'.format(e)[:300])
    for env in T.valuations(T.arguments(term), nsets=nsets):
        try:
            r = T.ref(term, env)
        except T.OutOfDomain:
            continue
        if not numpy.isfinite(r).all():
            continue
        try:
            with numpy.errstate(all='ignore'):
                dense = f_dense(env)
        except Exception:
            continue
        if not irtools.close(dense, r, kind):
            if res is not None:
                res.count('raw_vs_reference_disagreements')
            continue
        for name, f, form in fs:
            if res is not None:
                res.count('evaluations')
            try:
                with numpy.errstate(all='ignore'):
                    data = f(env)
            except Exception as e:
                return (name, 'eval-exception', 'evaluating the sparse data raised {!r}'.format(e)[:300])
            if form == 'coo':
                values, indices, sh = data
                if tuple(int(n) for n in sh) != tuple(shape):
                    return (name, 'coo-shape', 'announced shape {} != {}'.format(tuple(int(n) for n in sh), shape))
                fail = check_coo(values, indices, tuple(shape), r, kind)
                nnz = len(values)
            else:
                values, rowptr, colidx, ncols = data
                fail = check_csr(values, rowptr, colidx, ncols, r, kind)
                nnz = len(values)
            if fail:
                return (name,) + fail + ({k: numpy.asarray(x).tolist() for k, x in env.items()},)
            if res is not None and 0 < nnz < max(1, int(numpy.prod(shape))):
                res.distinct('distinct_nontrivial', T.show(term) + name)
    return None


def _key(term, fail):
    from .c01 import abstract
    return '{}:{}:{}'.format(fail[1], fail[0], abstract(term))[:300]


def _one(term, res):
    res.count('programs')
    try:
        fail = check_term(term, res=res)
    except T.IllTyped:
        return
    if fail is None:
        return
    if fail[1] == 'build':
        res.count('build_errors')
        return
    res.violation(_key(term, fail), '{} :: route {} {}: {}'.format(T.show(term), fail[0], fail[1], fail[2:]), {'term': T.to_json(term)})


# ---------------------------------------------------------------- function level

def function_cases():
    'assembled integrals whose sparse structure is built from loop sums of inflations with element-dependent block sizes'
    cases = []
    for topo in ('line3', 'rect2x2', 'hier', 'tri'):
        for btype, deg in (('std', 1), ('std', 2), ('discont', 1), ('spline', 2)):
            for form in ('mass', 'vector', 'rect', 'third'):
                cases.append({'topo': topo, 'btype': btype, 'degree': deg, 'form': form})
    return cases


def _build_function_case(c):
    from nutils import mesh, function
    if c['topo'] == 'line3':
        dom, geom = mesh.line(3)
    elif c['topo'] == 'rect2x2':
        dom, geom = mesh.rectilinear([2, 2])
    elif c['topo'] == 'hier':
        dom, geom = mesh.rectilinear([2, 2])
        dom = dom.refined_by([0])
    else:
        dom, geom = mesh.unitsquare(2, 'triangle')
    btype = c['btype']
    if c['topo'] == 'tri' and btype == 'spline':
        return None
    if c['topo'] == 'hier' and btype in ('std', 'spline'):
        btype = 'h-' + btype
    basis = dom.basis(btype, degree=c['degree'])
    other = dom.basis('discont', degree=0)
    J = function.J(geom)
    if c['form'] == 'mass':
        integrand = basis[:, None] * basis[None, :] * J
    elif c['form'] == 'vector':
        integrand = basis * (geom[0] if geom.ndim else geom) * J
    elif c['form'] == 'rect':
        integrand = basis[:, None] * other[None, :] * J
    else:
        integrand = basis[:, None, None] * other[None, :, None] * other[None, None, :] * J
    return dom.integral(integrand, degree=2 * c['degree'])


def check_function_case(c):
    from nutils import function
    arr = _build_function_case(c)
    if arr is None:
        return None
    dense = function.eval(arr)
    coo = function.eval(function.as_coo(arr))
    values, indices = coo[0], coo[1:]
    fail = check_coo(values, indices, dense.shape, dense, 'f')
    if fail:
        return ('as_coo',) + fail
    if arr.ndim == 2:
        values, rowptr, colidx = function.eval(function.as_csr(arr))
        fail = check_csr(values, rowptr, colidx, dense.shape[1], dense, 'f')
        if fail:
            return ('as_csr',) + fail
    return None


def run_shard(spec, tier, seed):
    irtools.quiet()
    res = core.ShardResult()
    if spec['kind'] == 'function':
        for c in function_cases():
            res.count('programs')
            res.count('evaluations')
            try:
                fail = check_function_case(c)
            except Exception as e:
                fail = ('function', 'exception', repr(e)[:300])
            if fail:
                res.violation('function:{}:{}:{}'.format(fail[1], c['btype'], c['form']), '{} :: {}'.format(c, fail), {'function_case': c})
            else:
                res.distinct('distinct_nontrivial', json.dumps(c))
        res.sample({'function_case': function_cases()[0]})
    elif spec['kind'] == 'extra':
        last = None
        for fam, term in XS.terms(tier)[spec['lo']:spec['hi']]:
            _one(term, res)
            last = term
        if last is not None:
            res.sample({'structured_family_term': T.show(last)})
    elif spec['kind'] == 'loops':
        last = None
        for fam, prog in LS.programs(tier)[spec['lo']:spec['hi']]:
            for term in LS.flatten(prog) if not LS.is_term(prog) else [prog]:
                _one(term, res)
                last = term
        if last is not None:
            res.sample({'loop_term': T.show(last)})
    else:
        last = None
        for term in irspace.shard_terms(spec['profile'], spec['level'], spec['part'], spec['nparts']):
            _one(term, res)
            last = term
        if spec['part'] == 0 and last is not None:
            res.sample({'term': T.show(last)})
    return res


def replay(w):
    irtools.quiet()
    if 'function_case' in w:
        try:
            fail = check_function_case(w['function_case'])
        except Exception as e:
            fail = ('function', 'exception', repr(e)[:300])
        return None if fail is None else str(fail)
    fail = check_term(T.from_json(w['term']))
    if fail is None or fail[1] == 'build':
        return None
    return 'route {} {}: {}'.format(fail[0], fail[1], fail[2:])
