'''C04 - symbolic derivatives equal the true derivatives.

For every real-valued term of the differentiable part of the term space, every loop program and a few user-defined
operations, and for every float argument as target, evaluable.derivative (and function.derivative for the user-level
cases) is evaluated and compared with a 6th-order central finite-difference Jacobian of the *numpy reference
interpreter* (no nutils code in the oracle).  Second derivatives are compared with finite differences of the (already
verified) first derivative.  Integer / boolean terms must have an identically zero derivative.
'''

import json
import numpy
from .. import core, terms as T, irspace, irtools, loopspace as LS

LEVEL = 'exploration'
RULE = ('every float term of depth<=2 over leaves f5 (thorough: depth 2 over all float leaves + depth 3 over the core) and every loop program; '
        'x every float argument as derivative target; first derivative vs 6th-order central differences (h=2^-8) of the numpy reference on '
        '3 valuation sets kept >=0.05 away from kinks/poles/ties; second derivative (depth<=1 terms and loops) vs differences of the first; '
        'int/bool terms: derivative must be identically zero. non-trivial = distinct (term, target) whose reference Jacobian is not identically zero')
ASSUMPTIONS = ['6th-order central differences of the numpy reference interpreter are exact to ~1e-9 relative on the smooth, O(1) dyadic valuations used',
               'complex derivatives are not implemented by nutils (NotImplementedError) and are outside the check']
BUDGET_S = {'quick': 420, 'thorough': 5400}

DIFF_EXCLUDE = {'greater', 'less', 'equal', 'lnot', 'toint', 'tocomplex', 'real', 'imag', 'conjugate', 'argsort', 'searchsorted', 'sizestooffsets',
                'inrange', 'normdim', 'ravelindex', 'floordiv'}
PROFILES = {
    'quick': [{'name': 'd2-f5', 'leaves': 'f5', 'consts': False, 'ops': None, 'depth': 2},
              {'name': 'd1-mixed', 'leaves': 'mixed', 'consts': True, 'ops': None, 'depth': 1}],
    'thorough': [{'name': 'd2-f7', 'leaves': 'f7', 'consts': True, 'ops': None, 'depth': 2},
                 {'name': 'd3-core', 'leaves': 'sq', 'consts': False, 'ops': 'core', 'depth': 3}],
}
NPARTS = {'quick': {1: 2, 2: 60}, 'thorough': {1: 4, 2: 300, 3: 1500}}
LOOP_CHUNK = 60
H = 2. ** -8
STENCIL = [(-3, -1 / 60), (-2, 3 / 20), (-1, -3 / 4), (1, 3 / 4), (2, -3 / 20), (3, 1 / 60)]
TOL = 1e-6


def _profiles(tier):
    out = []
    for p in PROFILES[tier]:
        p = dict(p)
        if p['ops'] is None:
            p['ops'] = sorted(set(T.OPS) - DIFF_EXCLUDE)
        out.append(p)
    return out


def shards(tier, seed):
    out = [{'kind': 'custom'}]
    n = len(LS.programs(tier))
    for lo in range(0, n, LOOP_CHUNK):
        out.append({'kind': 'loops', 'lo': lo, 'hi': min(n, lo + LOOP_CHUNK)})
    for s in irspace.shards(_profiles(tier), NPARTS[tier]):
        s['kind'] = 'terms'
        out.append(s)
    return out


class Unreliable(Exception):
    pass


def fd_jacobian(f, env, name):
    '''self-validated finite differences: the 6th-order stencil at step H and at H/2 must agree to TOL/20, otherwise the
    valuation is too badly scaled for the oracle (near-singular inverse, ...) and is skipped (counted), never judged'''
    J1 = _fd(f, env, name, H)
    J2 = _fd(f, env, name, H / 2)
    scale = 1. + (abs(J2).max() if J2.size else 0.)
    if not (abs(J1 - J2) <= TOL / 20 * scale).all():
        raise Unreliable
    return J2


def _fd(f, env, name, H):
    x0 = numpy.asarray(env[name], dtype=float)
    f0 = numpy.asarray(f(env))
    J = numpy.zeros(f0.shape + x0.shape)
    for idx in numpy.ndindex(*x0.shape) if x0.shape else [()]:
        acc = numpy.zeros(f0.shape)
        for k, c in STENCIL:
            x = x0.copy()
            x[idx] += k * H
            acc = acc + c * numpy.asarray(f(dict(env, **{name: x})), dtype=float)
        J[(Ellipsis,) + idx] = acc / H
    return J


def check_term(term, res=None, second=False):
    'returns None or (target, kind, what)'
    from nutils import evaluable
    shape, kind = T.typeof(term)
    args = T.arguments(term)
    targets = sorted(n for n, (sh, k) in args.items() if k == 'f')
    if not targets or kind == 'c' or any(k == 'c' for sh, k in args.values()):
        return None
    try:
        node = T.build(term)
    except Exception as e:
        return ('-', 'build', repr(e)[:200])
    if not irtools.simplifies(node):
        if res is not None:
            res.count('skipped_simplifier_fails_see_C01')
        return None
    old = T.MARGIN
    T.MARGIN = .05
    try:
        envs = []
        for env in T.valuations(args, nsets=3, exhaustive_int=False, zero_first=T.depth(term) <= 1):
            try:
                r = T.ref(term, env)
            except T.OutOfDomain:
                continue
            if numpy.isfinite(r).all():
                envs.append(env)
        for name in targets:
            tshape = args[name][0]
            var = evaluable.Argument(name, tuple(evaluable.constant(n) for n in tshape), float)
            try:
                d = evaluable.derivative(node, var)
            except NotImplementedError:
                if res is not None:
                    res.count('derivative_not_implemented')
                continue
            except Exception as e:
                return (name, 'derivative-exception', 'derivative raised {!r}'.format(e)[:300])
            if d.ndim != len(shape) + len(tshape) or T.KIND_OF.get(d.dtype) != kind:
                return (name, 'shape', 'derivative has ndim {} dtype {} for a term of shape {} kind {} and target shape {}'.format(d.ndim, d.dtype.__name__, shape, kind, tshape))
            if kind in 'bi':
                if not evaluable.iszero(d):
                    return (name, 'nonzero-int', 'derivative of an integer/boolean term is not identically zero: {}'.format(d))
                continue
            if not irtools.simplifies(d):
                if res is not None:
                    res.count('skipped_simplifier_fails_see_C01')
                continue
            try:
                fd = irtools.compile_(d)
            except Exception as e:
                return (name, 'compile-exception', 'compiling the derivative raised {!r}'.format(e)[:300])
            d2 = f_d2 = None
            if second:
                try:
                    d2 = evaluable.derivative(d, var)
                    f_d2 = irtools.compile_(d2)
                except NotImplementedError:
                    d2 = None
                except Exception as e:
                    return (name, 'derivative-exception', 'second derivative raised {!r}'.format(e)[:300])
            nz = False
            for env in envs:
                try:
                    with numpy.errstate(all='ignore'):
                        J = fd_jacobian(lambda e: T.ref(term, e), env, name)
                except T.OutOfDomain:
                    if res is not None:
                        res.count('stencil_left_domain')
                    continue
                except Unreliable:
                    if res is not None:
                        res.count('fd_unreliable')
                    continue
                if not numpy.isfinite(J).all():
                    continue
                try:
                    with numpy.errstate(all='ignore'):
                        v = numpy.asarray(fd(env))
                except Exception as e:
                    # a failure of the OPTIMISED code only is a code-generation matter (C02 enumerates derivative expressions differentially
                    # across configurations); the derivative itself is judged on the unoptimised evaluation
                    try:
                        with numpy.errstate(all='ignore'):
                            v = numpy.asarray(irtools.compile_(d, simplify=True, optimize=False)(env))
                        if res is not None:
                            res.count('optimized_evaluation_raised_see_C02')
                    except Exception:
                        return (name, 'eval-exception', 'evaluating the derivative raised {!r}'.format(e)[:300])
                if res is not None:
                    res.count('evaluations')
                if v.shape != J.shape:
                    return (name, 'shape', 'derivative evaluates to shape {} instead of {}'.format(v.shape, J.shape))
                scale = 1. + abs(J).max() if J.size else 1.
                if not (abs(v - J) <= TOL * scale).all():
                    return (name, 'value', 'd/d{} = {} but finite differences of the reference give {} at {}'.format(name, irtools.describe(v), irtools.describe(J), {k: numpy.asarray(x).tolist() for k, x in env.items()}), env, bool(numpy.isnan(v).any()))
                nz = nz or bool(abs(J).max() > 1e-9) if J.size else nz
                if d2 is not None:
                    try:
                        with numpy.errstate(all='ignore'):
                            J2 = fd_jacobian(lambda e: numpy.asarray(fd(e)), env, name)
                            v2 = numpy.asarray(f_d2(env))
                    except Exception:
                        continue
                    if not (numpy.isfinite(J2).all() and numpy.isfinite(v2).all()):
                        continue
                    if res is not None:
                        res.count('evaluations')
                        res.count('second_derivatives')
                    scale2 = 1. + abs(J2).max() if J2.size else 1.
                    if v2.shape != J2.shape or not (abs(v2 - J2) <= 10 * TOL * scale2).all():
                        return (name, 'value2', 'second derivative d2/d{}2 = {} but differences of the first derivative give {}'.format(name, irtools.describe(v2), irtools.describe(J2)))
            if nz and res is not None:
                res.distinct('distinct_nontrivial', T.show(term) + '/' + name)
    finally:
        T.MARGIN = old
    return None


def _singular_determinant(term, env):
    'does the term contain a determinant whose operand is (numerically) singular at this valuation (inside a loop: at some iteration)?'
    import itertools
    for sub in T.subterms(term):
        if sub[0] == 'determinant':
            loops = sorted({t[1] for t in T.subterms(sub[2]) if t[0] == 'loopidx' and t[1][0] in T.freevars(sub[2])})
            for binding in itertools.product(*[range(n) for name, n in loops]):
                try:
                    M = numpy.moveaxis(T.ref(sub[2], dict(env, **{'@' + name: i for (name, n), i in zip(loops, binding)})), list(sub[1]), [-2, -1])
                except Exception:
                    continue
                if M.size and (numpy.linalg.matrix_rank(M) < M.shape[-1]).any():
                    return True
    return False


def _one(term, res, second):
    res.count('programs')
    try:
        fail = check_term(term, res, second)
    except T.IllTyped:
        return
    if fail is None:
        return
    if fail[1] == 'build':
        res.count('build_errors')
        return
    from .c01 import abstract
    key = '{}:{}'.format(fail[1], abstract(term))[:300]
    if len(fail) > 4 and fail[4] and _singular_determinant(term, fail[3]):
        # one root cause for every term in which it shows: Determinant._derivative is det * trace(inverse * dA), which is NaN at a
        # singular matrix although the determinant is a polynomial (true derivative: the adjugate)
        key = 'nan-derivative:determinant-of-singular-matrix'
    res.violation(key, '{} :: target {} {}: {}'.format(T.show(term), fail[0], fail[1], fail[2]), {'term': T.to_json(term), 'second': second})


# ------------------------------------------------------------- user-defined operations and function-level derivative

def custom_cases():
    return [{'case': c, 'target': t} for c in ('custom-square', 'custom-outer', 'function-derivative-byname', 'function-derivative-byobject', 'custom-shared') for t in ('u', 'v')] + \
        [{'case': c, 'target': 'w'} for c in ('factor-3d-scalar', 'factor-3d-vector', 'factor-2d')]


_CUSTOM = []


def _custom_classes():
    if not _CUSTOM:
        from nutils import function, types
        global Sq, Outer

        class Sq(function.Custom):
            def __init__(self, x):
                super().__init__(args=(x,), shape=x.shape, dtype=float)

            @types.hashable_function('vmc-c04-sq-evalf')
            def evalf(x):
                return x ** 2 + numpy.sin(x)

            @types.hashable_function('vmc-c04-sq-pd')
            def partial_derivative(iarg, x):
                return function.diagonalize(2 * x + numpy.cos(x)) if x.ndim == 1 else 2 * x + numpy.cos(x)

        class Outer(function.Custom):
            def __init__(self, x, y):
                super().__init__(args=(x, y), shape=x.shape + y.shape, dtype=float)

            @types.hashable_function('vmc-c04-outer-evalf')
            def evalf(x, y):
                return numpy.einsum('pi,pj->pij', x, numpy.exp(y))

            @types.hashable_function('vmc-c04-outer-pd')
            def partial_derivative(iarg, x, y):
                if iarg == 0:
                    return numpy.einsum('ik,j->ijk', numpy.eye(x.shape[0]), numpy.exp(y))
                return numpy.einsum('i,jk->ijk', x, function.diagonalize(numpy.exp(y)))

        Sq.__qualname__ = 'Sq'
        Outer.__qualname__ = 'Outer'
        _CUSTOM.extend([Sq, Outer])
    return _CUSTOM


def check_custom(c):
    'function.Custom with partial_derivative, and function.derivative by name / by Argument object'
    from nutils import function, evaluable
    u = function.Argument('u', (2,))
    v = function.Argument('v', (3,))

    Sq, Outer = _custom_classes()
    if c['case'].startswith('factor'):
        # derivative of a FACTORED polynomial (evaluable.factor -> Monomial nodes) in an argument with 2 or 3 axes of different lengths
        shape = (2, 3, 4) if '3d' in c['case'] else (3, 2)
        w = function.Argument('w', shape)
        W0 = (numpy.arange(int(numpy.prod(shape)), dtype=float).reshape(shape) % 7 - 3) * .25 + .125
        cst = numpy.cos(numpy.arange(int(numpy.prod(shape)), dtype=float).reshape(shape))
        if 'vector' in c['case']:
            f = numpy.sum(w * w * cst, axis=0) + numpy.sum(w, axis=0) * numpy.sum(w * cst)
            rf = lambda e: (e['w'] ** 2 * cst).sum(0) + e['w'].sum(0) * (e['w'] * cst).sum()
        else:
            f = numpy.sum(w * w * cst) + numpy.sum(w * cst) * numpy.sum(w)
            rf = lambda e: (e['w'] ** 2 * cst).sum() + (e['w'] * cst).sum() * e['w'].sum()
        vals = {'w': W0}
        for order in (1, 2):
            d = function.derivative(function.factor(f), 'w') if order == 1 else function.derivative(function.derivative(function.factor(f), 'w'), 'w')
            val = function.eval(d, arguments=vals)
            J = fd_jacobian(rf, vals, 'w') if order == 1 else fd_jacobian(lambda e: fd_jacobian(rf, e, 'w'), vals, 'w')
            if val.shape != J.shape:
                return 'derivative {} of the factored polynomial has shape {} instead of {}'.format(order, val.shape, J.shape)
            if not (abs(val - J) <= 100 ** (order - 1) * TOL * (1 + abs(J).max())).all():
                return 'derivative {} of the factored polynomial = {} but finite differences give {}'.format(order, irtools.describe(val), irtools.describe(J))
        return None
    vals = {'u': numpy.array([.75, -1.25]), 'v': numpy.array([.5, 1.5, -.25])}
    if c['case'] == 'custom-square':
        f = Sq(u * numpy.sum(v))
        rf = lambda e: (e['u'] * e['v'].sum()) ** 2 + numpy.sin(e['u'] * e['v'].sum())
    elif c['case'] == 'custom-outer':
        f = Outer(u, v * v)
        rf = lambda e: numpy.einsum('i,j->ij', e['u'], numpy.exp(e['v'] ** 2))
    elif c['case'] == 'custom-shared':
        s = Sq(u)
        f = numpy.sum(s * s) * v + numpy.sum(s)
        rf = lambda e: (((e['u'] ** 2 + numpy.sin(e['u'])) ** 2).sum()) * e['v'] + (e['u'] ** 2 + numpy.sin(e['u'])).sum()
    else:
        f = numpy.exp(u[0] * v) * numpy.sum(u ** 3)
        rf = lambda e: numpy.exp(e['u'][0] * e['v']) * (e['u'] ** 3).sum()
    name = c['target']
    target = name if c['case'] != 'function-derivative-byobject' else {'u': u, 'v': v}[name]
    d = function.derivative(f, target)
    val = function.eval(d, arguments=vals)
    J = fd_jacobian(rf, vals, name)
    if val.shape != J.shape:
        return 'derivative has shape {} instead of {}'.format(val.shape, J.shape)
    if not (abs(val - J) <= TOL * (1 + abs(J).max())).all():
        return 'derivative = {} but finite differences give {}'.format(irtools.describe(val), irtools.describe(J))
    return None


def run_shard(spec, tier, seed):
    irtools.quiet()
    res = core.ShardResult()
    last = None
    if spec['kind'] == 'custom':
        for c in custom_cases():
            res.count('programs')
            res.count('evaluations')
            try:
                fail = check_custom(c)
            except Exception as e:
                fail = 'raised {!r}'.format(e)[:300]
            if fail:
                res.violation('custom:{}:{}'.format(c['case'], c['target']), '{} :: {}'.format(c, fail), {'custom': c})
            else:
                res.distinct('distinct_nontrivial', json.dumps(c))
        res.sample({'custom_case': custom_cases()[0]})
    elif spec['kind'] == 'loops':
        for fam, prog in LS.programs(tier)[spec['lo']:spec['hi']]:
            for term in LS.flatten(prog):
                _one(term, res, second=True)
                last = term
    else:
        for term in irspace.shard_terms(spec['profile'], spec['level'], spec['part'], spec['nparts']):
            _one(term, res, second=spec['level'] == 1)
            last = term
    if last is not None and spec.get('part', 0) == 0:
        res.sample({'term': T.show(last), 'targets': sorted(T.arguments(last))})
    return res


def replay(w):
    irtools.quiet()
    if 'custom' in w:
        try:
            return check_custom(w['custom'])
        except Exception as e:
            return 'raised {!r}'.format(e)[:300]
    fail = check_term(T.from_json(w['term']), second=w.get('second', False))
    if fail is None or fail[1] == 'build':
        return None
    return 'target {} {}: {}'.format(*fail)


def finalize(cov, tier):
    cov['profiles'] = [dict(p, ops='all minus {}'.format(sorted(DIFF_EXCLUDE)) if isinstance(p['ops'], list) else p['ops']) for p in _profiles(tier)]
    cov['fd'] = {'h': H, 'order': 6, 'tol': TOL}
