'''C10 - topology operations conserve the domain.

Explicit-state search over OPERATION SEQUENCES on live nutils topologies.  In lock step a plain-Python model
(vmc/c10_model.py: the set of cells as exact rational convex polytopes) is advanced by the same operation; element
indices in operations are translated to model cells through the observed geometry of the state they apply to, so
the model never depends on nutils' element order.  After every transition

  * len(), every element's untrimmed shape, its measure (from the reference volume and from the simplices that
    partition a trimmed reference) and its containment in the predicted polytope are compared with the model;
  * for full-dimensional states the boundary must be closed (oint n J = 0, oint x.n J = d |Omega|, total measure of
    the boundary = exposed facet measure of the model) and every interior face of the model must be covered exactly
    once by `interfaces`, each interface element lying in both neighbours that its transforms / opposites resolve to
    (index_with_tail);
  * a trim is checked together with its complement (partition of every element, the cut shared with opposite
    orientation).

The history (mesh + operation list) is the witness; states are deduplicated on (class signature, canonical cells).
'''

import json, math, itertools
import numpy
from .. import core
from .. import c10_geom as G
from .. import c10_model as M
from .. import c10_topospace as TS

LEVEL = 'model_checking'
RULE = ('initial meshes {line(3), rectilinear 2x2, rectilinear 3x2 periodic in x with a volume group (+ the degenerate 2x2 periodic one, depth 2 only), '
        'unitsquare(2) triangle and mixed, 2-patch multipatch, 1x1x2 box}; operation menu {refined, refine_spaces [X] / [Y] (products), refined_by(S) '
        'for every nonempty subset S if the topology has <= 6 elements else a fixed family of 8 subsets, take (all subsets if <= 4 elements else the '
        'family), compress (2 masks), slice (3 per axis, structured only), [group] (volume groups; side names and "trimmed" on boundaries), boundary, '
        'interfaces, take(A)|take(B) (3 pairs), topo - take(A) (3 sets), * line(2), trim(a.x-c, maxrefine) and its complement topo - trim for 8 linear '
        'level sets per mesh (through interiors / through vertices / along element edges / missing the domain, every cut on a multiple of 1/8 of an '
        'edge) x maxrefine {0,1,2} (thorough: all 24 combinations, quick: 15)}; uniform refinement and * line only while the result has <= 256 elements. '
        'All sequences of depth <= 2 over this menu; depth 3: quick = below every depth-2 chain that contains a trim or a refined_by, the closing '
        'operations {refined, refined_by([0]), boundary, interfaces}; thorough = below every depth-2 chain a reduced menu (refined_by: all subsets if <= 4 elements, singletons + all if <= 6 '
        'elements, else 4 of the family; 3 takes, 1 slice per axis, groups, 1 union, 1 difference, * line, 6 trims + complements, boundary, interfaces). States are '
        'deduplicated on (topology class signature, canonical cell set). non-trivial = distinct (class signature, cell set) with >= 1 element, reached '
        'by >= 1 operation and fully compared with the model')
ASSUMPTIONS = ['the geometry of every initial mesh is affine per element (verified when the mesh is built); all level sets are linear with dyadic cuts, so the '
               'bisection-based trimming is exact and a tolerance of 1e-9 separates rounding from defects. Trimming an ALREADY trimmed topology bins the '
               'second cut to 1/256 of the shortened edges: such transitions are checked relationally (trim + complement partition every element, stay '
               'inside it, boundary closed w.r.t. the observed measure) and the chain ends there',
               'element geometry is observed from references + transform chains (nutils.transform.apply, TransformBasis._transform_basis) and the '
               'per-element affine geometry; the native observations topo.integrate_elementwise(J) and boundary.integrate([n J, x.n J, J]) are evaluated '
               'on every state of depth <= 1, on a deterministic 1/16 sample of the deeper states and on every replayed witness, and must agree with the '
               'fast observation (a disagreement is a harness error)',
               'an operation that raises is a loud failure, not a violation of "never silently lose", provided the exception is one of the refusals of the '
               'pinned tree listed in loud_category() (disconnected topology without connectivity, refinement beyond maxrefine, NotImplementedError, '
               'rejected slices / empty groups, integration over empty references, and four loud failures of re-trimming / subtracting on simplex meshes '
               'that are listed in the report); any other exception is reported as a violation',
               'slicing a hierarchical topology slices its base grid; groups of refined/trimmed topologies contain the descendants of the group; an '
               'element whose reference is EmptyLike is not part of the domain; refining an OwnChildReference element returns the same element once',
               'on a periodic mesh that was subsampled by take/compress/union/difference the neighbour relation across the seam is unspecified: boundary '
               'and interfaces are not compared there; for periodic states oint x.n is compared per non-periodic direction',
               'two-space products are observed factor-wise (the element order i*len(topo2)+j is confirmed by the native element measures)']
BUDGET_S = {'quick': 7200, 'thorough': 28800}    # wall-clock guard only; the box is shared (load > 300 while this was built). Unloaded: quick ~ 2 min on 16 procs

TOL = 1e-9


# ------------------------------------------------------------------------------------------------ context

class Ctx:
    'per-process cache of the initial meshes'
    cache = {}

    @classmethod
    def get(cls, mesh):
        if mesh not in cls.cache:
            import treelog, logging
            logging.disable(logging.CRITICAL)
            from .. import c10_observe as OB
            topo, geom = TS.initial(mesh)
            gmap = OB.GeoMap(topo, geom)
            ytopo, y = TS.second_factor()
            ymap = OB.GeoMap(ytopo, y)
            cls.cache[mesh] = dict(topo=topo, geom=geom, gmaps={topo.space: gmap, ytopo.space: ymap}, ytopo=ytopo, y=y, multiadj=False)
        return cls.cache[mesh]


def quiet():
    import treelog
    return treelog.set(treelog.NullLog())


def sig(topo):
    'class signature naming the code path: outer class / class of its base topology'
    name = type(topo).__name__
    inner = None
    for attr in ('basetopo', 'topo1', '_topos', 'parent'):
        b = getattr(topo, attr, None)
        if b is not None:
            if isinstance(b, (tuple, list)):
                b = b[0] if b else None
            if b is not None:
                inner = type(b).__name__
                break
    return name if inner is None else name + '/' + inner


def is_structured(topo):
    for _ in range(4):
        n = type(topo).__name__
        if n == 'StructuredTopology':
            return True
        if n in ('WithGroupsTopology', 'HierarchicalTopology'):
            topo = topo.basetopo
            continue
        return False
    return False


def is_hier(topo):
    for _ in range(4):
        n = type(topo).__name__
        if n == 'HierarchicalTopology':
            return True
        if n == 'WithGroupsTopology':
            topo = topo.basetopo
            continue
        return False
    return False


# ------------------------------------------------------------------------------------------------ state

class State:
    __slots__ = ('mesh', 'ops', 'topo', 'geom', 'ms', 'elems', 'keys', 'grid', 'has_trim', 'pure', 'kind')

    def info(self):
        meta = TS.META[self.mesh]
        kind = self.kind
        bgroups = []
        vgroups = []
        if kind == 'manifold' and self.ops and self.ops[-1][0] == 'boundary' and self.pure and meta['sides']:
            pd = periodic_dims_of(self.ms)
            for dim in range(meta['d']):
                if dim not in pd:
                    bgroups += list(TS.SIDE_NAMES[dim])
            if self.has_trim:
                bgroups.append('trimmed')
        if kind == 'domain':
            vgroups = sorted(TS.VGROUPS.get(self.mesh, {}))
        return dict(mesh=self.mesh, n=len(self.elems), kind=kind, topdim=(self.elems[0].k if self.elems else 0), structured=(kind == 'domain' and is_structured(self.topo)),
                    ndims=self.ms.d, bgroups=bgroups, vgroups=vgroups)

    def history(self):
        return {'mesh': self.mesh, 'ops': self.ops}


def elem_cell(pe):
    'the untrimmed shape of an observed element as a model cell'
    atomic = [f.refname == 'OwnChildReference' for f in pe.factors for _ in f.kind]
    return G.Cell(pe.kind, pe.v0, pe.E, atomic=atomic if any(atomic) else None)


def elem_keys(elems):
    return [elem_cell(pe).key for pe in elems]


def hull_key(pe):
    'identity of a (trimmed) lower dimensional element by the exact extreme points of its pieces'
    pts = [tuple(p) for p in pe.points]
    hv = G.hull_vertices(pts, pe.k)
    return (pe.k, frozenset(tuple(G.exact(c) for c in v) for v in hv))


def initial_state(mesh):
    from .. import c10_observe as OB
    ctx = Ctx.get(mesh)
    st = State()
    st.mesh = mesh
    st.ops = []
    st.topo = ctx['topo']
    st.geom = ctx['geom']
    st.elems = OB.observe_any(st.topo, ctx['gmaps'])
    meta = TS.META[mesh]
    cells = [elem_cell(pe) for pe in st.elems]
    periods = [tuple(G.exact(x) for x in p) for p in meta['periods']]
    st.ms = M.from_cells(meta['d'], cells, periods=periods)
    st.keys = elem_keys(st.elems)
    st.grid = [G.exact(meta['h'])] * meta['d']
    st.has_trim = False
    st.pure = True
    st.kind = 'domain'
    # sanity of the adopted initial mesh: the cells tile the bounding box
    vol = 1.
    for lo, hi in zip(meta['lo'], meta['hi']):
        vol *= hi - lo
    if abs(st.ms.total() - vol) > TOL:
        raise core.HarnessError('initial mesh {} does not fill its box'.format(mesh))
    ft = M.FaceTable(list(st.ms.cells.items()), st.ms.periods)
    if ft.overlap_same > TOL or max(abs(x) for x in ft.nflux) > TOL:
        raise core.HarnessError('initial mesh {}: model is not a partition'.format(mesh))
    ctx['multiadj'] = ft.multi_adjacent()
    return st


# ------------------------------------------------------------------------------------------------ model transition

def model_apply(st, op):
    '''returns (ms2, grid2, extra) for the operation applied to state st, using only the model and the observed
    index -> cell correspondence of st.  Raises M.ModelUndefined where the model does not define the outcome.'''
    ms = st.ms
    name = op[0]
    grid = st.grid
    if name == 'refined':
        if st.kind == 'product':
            return M.refined(ms), grid
        ms2 = M.refined(ms)
        if grid is not None and not is_hier(st.topo):
            grid = [g / 2 for g in grid]
        return ms2, grid
    if name == 'refine_spaces':
        if st.kind != 'product' or ms.factors is None:
            raise M.ModelUndefined('refine_spaces on a single-space topology')
        nf = ms.factors
        some = next(iter(ms.cells.values()))
        spaces = set(op[1])
        if not spaces & {'X', 'Y'}:
            return ms, grid
        # the line of the product is always the LAST simplex factor of a cell (mixed meshes: the number of X factors varies)
        out = {}
        for key, c in ms.cells.items():
            mask = [('X' in spaces)] * (len(c.kind) - 1) + [('Y' in spaces)]
            for ch in M.children(c, mask):
                out[ch.key] = ch
        return ms.derive(out), grid
    if name == 'refined_by':
        keys = set(st.keys[i] for i in op[1]) - {None}
        return M.refined(ms, keys=keys), grid
    if name in ('take', 'compress'):
        idx = op[1] if name == 'take' else [i for i, b in enumerate(op[1]) if b]
        keys = set(st.keys[i] for i in idx) - {None}
        return M.select(ms, keys, periodic_ok=ms.periodic_ok and (not ms.periods or len(keys) == len(ms.cells))), None
    if name == 'union':
        keys = set(st.keys[i] for i in list(op[1]) + list(op[2])) - {None}
        return M.select(ms, keys, periodic_ok=ms.periodic_ok and (not ms.periods or len(keys) == len(ms.cells))), None
    if name == 'diff':
        keys = set(st.keys[i] for i in op[1]) - {None}
        return M.remove(ms, keys, periodic_ok=ms.periodic_ok and not ms.periods), None
    if name == 'slice':
        if grid is None:
            raise M.ModelUndefined('slice without a structured grid')
        dim = op[2]
        if not ms.cells:
            raise M.ModelUndefined('slice of an empty topology')
        g = grid[dim]
        lo = min(v[dim] for cell in ms.cells.values() for v in cell.base_verts)
        covered = {}
        for key, cell in ms.cells.items():
            xs = [v[dim] for v in cell.base_verts]
            i0 = math.floor((min(xs) - lo) / g)
            if (max(xs) - lo) / g > i0 + 1:
                raise M.ModelUndefined('cell larger than the base grid')
            covered.setdefault(i0, []).append(key)
        L = sorted(covered)
        n = len(L)
        keep = set(L[i] for i in range(n)[slice(*op[1])])
        keys = [key for i0 in keep for key in covered[i0]]
        full = len(keep) == n
        if full or dim not in periodic_dims_of(ms):
            return M.select(ms, keys), grid
        return M.select(ms, keys, periods=[]), grid      # a partial slice of a periodic axis is not periodic
    if name == 'group':
        g = op[1]
        meta = TS.META[st.mesh]
        if st.kind == 'domain':
            a, c, sign = TS.VGROUPS[st.mesh][g]
            return M.group_select(ms, a, c, sign), None
        if g == 'trimmed':
            keys = []
            pd = periodic_dims_of(ms)
            for key, cell in ms.cells.items():
                onside = False
                for dim in range(ms.d):
                    if dim in pd:
                        continue
                    for bound in (meta['lo'][dim], meta['hi'][dim]):
                        if all(v[dim] == G.exact(bound) for v in cell.pverts):
                            onside = True
                if not onside:
                    keys.append(key)
            return M.select(ms, keys), None
        for dim, (a, b) in enumerate(TS.SIDE_NAMES):
            if g in (a, b):
                bound = G.exact(meta['lo'][dim] if g == a else meta['hi'][dim])
                keys = [key for key, cell in ms.cells.items() if all(v[dim] == bound for v in cell.pverts)]
                return M.select(ms, keys), None
        raise M.ModelUndefined('group ' + g)
    if name in ('trim', 'trimc'):
        return M.trimmed(ms, op[1], op[2], 1 if name == 'trim' else -1), grid
    if name == 'mul':
        line = [G.Cell((1,), (G.Fr(i),), [(G.ONE,)]) for i in range(2)]
        return M.product(ms, line), None
    raise M.ModelUndefined(name)


# ------------------------------------------------------------------------------------------------ oracle

def fmt(x):
    if isinstance(x, (list, tuple, numpy.ndarray)):
        return '[' + ', '.join(fmt(v) for v in x) + ']'
    return '{:.6g}'.format(float(x))


def compare_cells(ms, elems, allow_hull=False):
    '''compare observed elements with the model cells.  Returns (list of (what-key, text), keys) where keys[i]
    is the model key of element i (None if unmatched)'''
    out = []
    keys = []
    seen = {}
    nempty = 0
    for i, pe in enumerate(elems):
        if pe.vol == 0 and pe.vol_ref == 0 and any(f.refname == 'EmptyLike' for f in pe.factors):
            keys.append(None)       # an element with an empty reference: no part of the domain
            nempty += 1
            continue
        key = elem_cell(pe).key
        cell = ms.cells.get(key)
        if cell is None and allow_hull:
            try:
                key = hull_key(pe)
                cell = ms.cells.get(key)
            except (G.NonDyadic, ValueError):
                cell = None
        if cell is None:
            keys.append(None)
            out.append(('unexpected-element', 'element {} ({}, vertices {}) is not a cell of the model'.format(
                i, pe.factors[0].refname, fmt(sorted(map(tuple, numpy.round(pe.points, 9)))[:8]))))
            continue
        keys.append(key)
        if key in seen:
            out.append(('duplicate-element', 'elements {} and {} denote the same cell'.format(seen[key], i)))
            continue
        seen[key] = i
        m = cell.measure
        if abs(pe.vol - m) > TOL:
            out.append(('element-measure', 'element {}: measure of its pieces {} != model {}'.format(i, fmt(pe.vol), fmt(m))))
        elif abs(pe.vol_ref - m) > TOL:
            out.append(('reference-volume', 'element {}: reference volume x jacobian {} != model {}'.format(i, fmt(pe.vol_ref), fmt(m))))
        elif cell.kind is not None and cell.k == cell.d and pe.trimmed:
            for p in pe.points:
                if not cell.contains(p, TOL):
                    out.append(('element-shape', 'element {}: point {} of the trimmed element lies outside the predicted cell'.format(i, fmt(p))))
                    break
    missing = [k for k in ms.cells if k not in seen]
    if missing and not out:
        out.append(('missing-element', 'len(topo) = {} ({} with an empty reference) but the model has {} cells: {} cells have no element'.format(
            len(elems), nempty, len(ms.cells), len(missing))))
    return out, keys


def boundary_oracle(d, vol, elems_b, ft, periodic_dims):
    'closedness of an observed boundary: oint n J = 0, oint x.n J = d |Omega|; with a FaceTable also the total measure'
    out = []
    flux = numpy.zeros(d)
    Mx = numpy.zeros((d, d))
    total = 0.
    for pe in elems_b:
        flux += pe.flux
        Mx += pe.M
        total += pe.vol
    vals = dict(flux=flux, xn=float(numpy.trace(Mx)), total=total)
    if abs(flux).max() > TOL:
        out.append(('boundary-open', 'oint n J = {} != 0 over the boundary ({} elements, |Omega| = {})'.format(fmt(flux), len(elems_b), fmt(vol))))
    elif periodic_dims:
        bad = [j for j in range(d) if j not in periodic_dims and abs(Mx[j, j] - vol) > TOL]
        if bad:
            out.append(('boundary-open', 'oint n J = 0 but oint x_j n_j J = {} != |Omega| = {} for the non-periodic directions'.format(fmt([Mx[j, j] for j in bad]), fmt(vol))))
    elif abs(numpy.trace(Mx) - d * vol) > TOL:
        out.append(('boundary-open', 'oint n J = 0 but oint x.n J = {} != d |Omega| = {}'.format(fmt(numpy.trace(Mx)), fmt(d * vol))))
    if not out and ft is not None and abs(total - ft.total_exposed) > TOL:
        out.append(('boundary-measure', 'total measure of the boundary {} != exposed facet measure of the cells {}'.format(fmt(total), fmt(ft.total_exposed))))
    return out, vals


def interface_oracle(st_ms, keys, elems_i, parents, ft):
    'every interior face exactly once, between its two neighbours'
    from .. import c10_observe as OB
    out = []
    got = {}
    periods = [numpy.array([float(x) for x in p]) for p in st_ms.periods]
    for n, pe in enumerate(elems_i):
        try:
            i, j = OB.resolve_pair(pe, parents)
        except ValueError:
            out.append(('interface-unresolved', 'interface element {}: transforms/opposites do not resolve to elements of the topology'.format(n)))
            continue
        if i == j and not periods:
            out.append(('interface-self', 'interface element {} connects element {} with itself'.format(n, i)))
            continue
        ki, kj = keys[i], keys[j]
        if ki is None or kj is None:
            continue
        ci, cj = st_ms.cells[ki], st_ms.cells[kj]
        P, Q = pe.points, pe.opp_points
        if not all(ci.contains(p, TOL) for p in P):
            out.append(('interface-misplaced', 'interface element {}: not on the boundary of element {} that its transform resolves to'.format(n, i)))
            continue
        if not all(cj.contains(q, TOL) for q in Q):
            out.append(('interface-misplaced', 'interface element {}: not on the boundary of element {} that its opposite resolves to'.format(n, j)))
            continue
        shift = Q.mean(axis=0) - P.mean(axis=0) if len(P) else numpy.zeros(st_ms.d)
        ok = abs(shift).max() <= TOL or any(abs(shift - s * p).max() <= TOL for p in periods for s in (1, -1))
        if ok:
            a = sorted(map(tuple, numpy.round(P + shift, 8)))
            b = sorted(map(tuple, numpy.round(Q, 8)))
            ok = a == b
        if not ok:
            out.append(('interface-sides-differ', 'interface element {}: the two sides are not the same face (shift {})'.format(n, fmt(shift))))
            continue
        pair = frozenset([ki, kj])
        got[pair] = got.get(pair, 0.) + pe.vol
    if out:
        return out
    for pair in set(got) | set(ft.shared):
        g = got.get(pair, 0.)
        s = ft.shared.get(pair, 0.)
        if abs(g - s) > TOL:
            ids = sorted(keys.index(k) for k in pair if k in keys)
            if g < s:
                out.append(('interface-missing', 'elements {} share an interior face of measure {} but interfaces cover {}'.format(ids, fmt(s), fmt(g))))
            else:
                out.append(('interface-duplicate', 'elements {} share an interior face of measure {} but interfaces cover {}'.format(ids, fmt(s), fmt(g))))
            break
    return out


class Outcome:
    'what happened in a transition'

    def __init__(self):
        self.violations = []      # (key, text)
        self.loud = []            # strings
        self.notes = []
        self.checked = []         # names of the oracles that were evaluated
        self.loud_msg = {}
        self.loud_cat = {}

    def add_loud(self, where, e):
        kind = '{}:{}'.format(where, type(e).__name__)
        self.loud_msg[kind] = '{}: {}'.format(type(e).__name__, str(e)[:160])
        cat = loud_category(where.split(':')[0], e)
        if cat is None:
            # an exception that is not one of the documented refusals: the property promises a value here
            self.violations.append(('unexpected-exception:' + kind, 'raised {}'.format(self.loud_msg[kind])))
        else:
            self.loud.append(kind)
            self.loud_cat[kind] = cat


def loud_category(stage, e):
    '''the refusals nutils documents (or consistently implements) for operations outside the supported envelope; any
    other exception is reported as a violation'''
    msg = str(e)
    if isinstance(e, NotImplementedError):
        return 'not-implemented'
    if isinstance(e, TypeError) and 'unsupported operand type(s) for' in msg and any(x in msg for x in ("'_Take'", "'_DisjointUnion'", "'_Mul'", "'_Empty'")):
        return 'not-implemented'                # set operations between tensorial topology classes
    if isinstance(e, AttributeError) and "has no attribute 'connectivity'" in msg:
        return 'disconnected-topology'          # take/compress/union results are documented as disconnected topologies
    if isinstance(e, AttributeError) and "'MosaicReference' object has no attribute 'child_" in msg:
        return 'refined-beyond-maxrefine'       # a trimmed element can be refined at most maxrefine times
    if stage == 'slice' and isinstance(e, (AssertionError, ValueError, IndexError)):
        return 'slice-rejected'                 # empty / stepped / unstructured slices
    if stage == 'group' and isinstance(e, KeyError):
        return 'group-empty'
    if 'unsupported ischeme for EmptyLike' in msg:
        return 'empty-reference'
    if stage in ('take', 'compress', 'refined_by') and isinstance(e, (IndexError, ValueError)) and 'index' in msg:
        return 'index-rejected'
    # loud failures of the pinned tree on sequences one might expect to work (reported, not violations: nothing is lost silently)
    if stage in ('boundary', 'interfaces', 'trimmed-group') and isinstance(e, ValueError) and msg == '':
        return 'subset-boundary-lookup'         # SubsetTopology.boundary looks edges up in the base boundary by transform (re-trimmed / simplex bases)
    if stage in ('boundary', 'interfaces', 'trimmed-group') and isinstance(e, TypeError) and ("unsupported operand type(s) for -=: 'MosaicReference'" in msg
                                                                                             or "unsupported operand type(s) for -=: 'WithChildrenReference'" in msg):
        return 'retrim-reference-arithmetic'
    if stage in ('trim', 'trimc') and isinstance(e, AssertionError) and 'leftover unmatched edges' in msg:
        return 'retrim-not-watertight'
    if isinstance(e, AssertionError) and msg == 'duplicate nodes':
        return 'simplex-duplicate-nodes'
    if isinstance(e, ValueError) and msg == 'repeating an element is not allowed':
        return 'duplicate-interface-lookup'     # two elements that share two faces (see the multiadj findings)
    return None


def periodic_dims_of(ms):
    dims = set()
    for p in ms.periods:
        for i, x in enumerate(p):
            if x != 0:
                dims.add(i)
    return dims


def check_domain_extras(st2, oc, native=False, confirm=False):
    'boundary and interfaces oracles for a full dimensional state whose cells already agree with the model'
    from .. import c10_observe as OB
    ctx = Ctx.get(st2.mesh)
    ms = st2.ms
    if not ms.cells:
        return
    if ms.periods and not ms.periodic_ok:
        oc.notes.append('periodic-subsample:faces-unspecified')
        return
    topo = st2.topo
    ft = M.FaceTable(list(ms.cells.items()), ms.periods)
    if ft.overlap_same > TOL:
        raise core.HarnessError('model cells overlap in {}'.format(st2.history()))
    if max(abs(x) for x in ft.nflux) > 1e-8:
        raise core.HarnessError('model boundary is not closed in {}: {}'.format(st2.history(), ft.nflux))
    s = sig(topo)
    multi = ''
    # boundary
    try:
        with quiet():
            btopo = topo.boundary
            elems_b = OB.observe_any(btopo, ctx['gmaps'])
    except (OB.Unsupported, G.NonDyadic) as e:
        oc.notes.append('unobservable:boundary:{}'.format(e))
        elems_b = None
    except Exception as e:
        oc.add_loud('boundary:{}'.format(s), e)
        elems_b = None
    if elems_b is not None:
        if any(pe.codim != 1 for pe in elems_b):
            oc.violations.append(('boundary-dimension:' + s, 'boundary contains elements that are not of codimension 1'))
        else:
            v, vals = boundary_oracle(ms.d, ms.total(), elems_b, ft, periodic_dims_of(ms))
            oc.checked.append('boundary')
            nat = None
            if native or (v and confirm):
                try:
                    with quiet():
                        nat = OB.native_boundary(btopo, st2.geom)
                except Exception as e:
                    oc.add_loud('integrate-boundary:{}'.format(s), e)
            if nat is not None:
                oc.checked.append('native_boundary')
                nf, nxn, ntot = nat
                if abs(nf - vals['flux']).max() > 1e-8 or abs(ntot - vals['total']) > 1e-8 or abs(nxn - vals['xn']) > 1e-8:
                    raise core.HarnessError('native boundary integrals {} {} {} differ from the fast observation {} {} {} in {}'.format(
                        nf, nxn, ntot, vals['flux'], vals['xn'], vals['total'], st2.history()))
            for k, t in v:
                oc.violations.append((k + ':' + s + multi, t))
    # interfaces
    parents = OB.factor_topologies(topo)
    try:
        with quiet():
            itopo = topo.interfaces
            elems_i = OB.observe_any(itopo, ctx['gmaps'], with_opposites=True)
    except (OB.Unsupported, G.NonDyadic) as e:
        oc.notes.append('unobservable:interfaces:{}'.format(e))
        elems_i = None
    except Exception as e:
        oc.add_loud('interfaces:{}'.format(s), e)
        elems_i = None
    if elems_i is not None and parents is not None:
        if any(pe.codim != 1 for pe in elems_i):
            oc.violations.append(('interfaces-dimension:' + s, 'interfaces contain elements that are not of codimension 1'))
        else:
            oc.checked.append('interfaces')
            for k, t in interface_oracle(ms, st2.keys, elems_i, parents, ft):
                oc.violations.append((k + ':' + s + multi, t))


def trim_pair_oracle(st, op, oc, done=None):
    '''trim and complement of the same level set: each is compared with the model, per element they partition the
    original measure, and the cut appears in both boundaries with opposite orientation'''
    from .. import c10_observe as OB
    ctx = Ctx.get(st.mesh)
    a, c, m = op[1], op[2], op[3]
    s = sig(st.topo)
    res = {}
    for name, sign in (('trim', 1), ('trimc', -1)):
        try:
            if done is not None and name == 'trim':
                topo2, elems = done
            else:
                with quiet():
                    topo2, geom2 = TS.apply_op(st.topo, st.geom, [name, a, c, m])
                    elems = OB.observe_any(topo2, ctx['gmaps'])
        except (OB.Unsupported, G.NonDyadic) as e:
            oc.notes.append('unobservable:{}:{}'.format(name, e))
            return
        except Exception as e:
            oc.add_loud('{}:{}'.format(name, s), e)
            return
        ms2 = M.trimmed(st.ms, a, c, sign)
        v, keys = compare_cells(ms2, elems)
        if v:
            return          # reported by the trim / trimc transition itself
        res[name] = (topo2, elems, keys, ms2)
    # partition per original cell
    oc.checked.append('trim_partition')
    for key, cell in st.ms.cells.items():
        parts = 0.
        for name in res:
            elems, keys = res[name][1], res[name][2]
            if key in keys:
                parts += elems[keys.index(key)].vol
        if abs(parts - cell.measure) > TOL:
            oc.violations.append(('trim-partition:' + sig(res['trim'][0]), 'trim + complement of an element measure {} != {}'.format(fmt(parts), fmt(cell.measure))))
            return
    if st.has_trim or (st.ms.periods and not st.ms.periodic_ok):
        return
    # the cut: model = faces shared between a kept cell and a removed cell
    items = [(('T', k), cl) for k, cl in res['trim'][3].cells.items()] + [(('C', k), cl) for k, cl in res['trimc'][3].cells.items()]
    if not items:
        return
    ft = M.FaceTable(items, st.ms.periods)
    cut = sum(mm for pair, mm in ft.shared.items() if len(set(x[0] for x in pair)) == 2)
    obs = {}
    for name in ('trim', 'trimc'):
        topo2 = res[name][0]
        try:
            with quiet():
                b = topo2.boundary
                try:
                    g = b['trimmed']
                    elems_g = OB.observe_any(g, ctx['gmaps'])
                except KeyError:
                    elems_g = []
        except (OB.Unsupported, G.NonDyadic) as e:
            oc.notes.append('unobservable:trimmed-group:{}'.format(e))
            return
        except Exception as e:
            oc.add_loud('trimmed-group:{}'.format(sig(topo2)), e)
            return
        flux = numpy.zeros(st.ms.d)
        xn = 0.
        tot = 0.
        for pe in elems_g:
            if pe.codim != 1:
                oc.violations.append(('trim-cut-dimension:' + sig(topo2), 'trimmed boundary group contains elements that are not of codimension 1'))
                return
            flux += pe.flux
            xn += float(numpy.trace(pe.M))
            tot += pe.vol
        obs[name] = (flux, xn, tot)
    sg = sig(res['trim'][0])
    oc.checked.append('trim_cut')
    (f1, x1, t1), (f2, x2, t2) = obs['trim'], obs['trimc']
    if abs(t1 - cut) > TOL or abs(t2 - cut) > TOL:
        oc.violations.append(('trim-cut-measure:' + sg, "measure of boundary['trimmed'] is {} for the trim and {} for the complement, the cut measures {}".format(fmt(t1), fmt(t2), fmt(cut))))
    elif abs(f1 + f2).max() > TOL or (not st.ms.periods and abs(x1 + x2) > TOL):
        oc.violations.append(('trim-cut-orientation:' + sg, 'the cut is not shared with opposite orientation: int n = {} vs {}, int x.n = {} vs {}'.format(fmt(f1), fmt(f2), fmt(x1), fmt(x2))))


def relational_trim(st, op, topo2, elems2, oc):
    '''trimming an already trimmed topology: the position of the second cut is binned to 1/256 of the SHORTENED edges, so
    the exact model does not apply.  Checked without a prediction: the trim and its complement partition the measure of
    every element, stay inside it, and the boundary of the result is closed with respect to its own measure.'''
    from .. import c10_observe as OB
    ctx = Ctx.get(st.mesh)
    name, a, c, m = op
    other = 'trimc' if name == 'trim' else 'trim'
    s2 = sig(topo2)
    try:
        with quiet():
            topo3, geom3 = TS.apply_op(st.topo, st.geom, [other, a, c, m])
            elems3 = OB.observe_any(topo3, ctx['gmaps'])
    except (OB.Unsupported, G.NonDyadic) as e:
        oc.notes.append('unobservable:{}:{}'.format(other, e))
        return
    except Exception as e:
        oc.add_loud('{}:{}'.format(other, sig(st.topo)), e)
        return
    oc.notes.append('relational:trim-after-trim')
    parts = {}
    for elems in (elems2, elems3):
        seen = set()
        for i, pe in enumerate(elems):
            if pe.vol == 0 and any(f.refname == 'EmptyLike' for f in pe.factors):
                continue
            key = elem_cell(pe).key
            cell = st.ms.cells.get(key)
            if cell is None:
                oc.violations.append(('unexpected-element:' + s2, 'element {} of the trimmed topology is not an element of the topology that was trimmed'.format(i)))
                return
            if key in seen:
                oc.violations.append(('duplicate-element:' + s2, 'element {} occurs twice'.format(i)))
                return
            seen.add(key)
            if abs(pe.vol - pe.vol_ref) > TOL:
                oc.violations.append(('reference-volume:' + s2, 'element {}: reference volume x jacobian {} != measure of its pieces {}'.format(i, fmt(pe.vol_ref), fmt(pe.vol))))
                return
            if cell.k == cell.d and not all(cell.contains(p, TOL) for p in pe.points):
                oc.violations.append(('element-shape:' + s2, 'element {} sticks out of the element it was trimmed from'.format(i)))
                return
            parts[key] = parts.get(key, 0.) + pe.vol
    for key, cell in st.ms.cells.items():
        if abs(parts.get(key, 0.) - cell.measure) > TOL:
            oc.violations.append(('trim-partition:' + s2, 'trim + complement of an element measure {} != {}'.format(fmt(parts.get(key, 0.)), fmt(cell.measure))))
            return
    if st.ms.periods and not st.ms.periodic_ok:
        return
    try:
        with quiet():
            elems_b = OB.observe_any(topo2.boundary, ctx['gmaps'])
    except (OB.Unsupported, G.NonDyadic) as e:
        oc.notes.append('unobservable:boundary:{}'.format(e))
        return
    except Exception as e:
        oc.add_loud('boundary:{}'.format(s2), e)
        return
    if elems2 and all(pe.codim == 1 for pe in elems_b):
        vol = sum(pe.vol for pe in elems2)
        v, vals = boundary_oracle(st.ms.d, vol, elems_b, None, periodic_dims_of(st.ms))
        for k, t in v:
            oc.violations.append((k + ':' + s2, t))


def transition(st, op, native=False, confirm=False):
    '''apply op to state st on the real object and on the model, compare.  Returns (st2 or None, Outcome).
    st2 is None when the chain cannot be continued (loud failure, model undefined, violation).'''
    from .. import c10_observe as OB
    ctx = Ctx.get(st.mesh)
    oc = Outcome()
    s0 = sig(st.topo)
    name = op[0]
    try:
        with quiet():
            topo2, geom2 = TS.apply_op(st.topo, st.geom, op)
            n2 = len(topo2)
            elems2 = OB.observe_any(topo2, ctx['gmaps'], with_opposites=False)
    except (OB.Unsupported, G.NonDyadic) as e:
        oc.notes.append('unobservable:{}:{}'.format(name, e))
        return None, oc
    except Exception as e:
        if name == 'group' and isinstance(e, KeyError):
            try:
                if not model_apply(st, op)[0].cells:
                    oc.notes.append('empty-group:keyerror as documented')
                    return None, oc
            except M.ModelUndefined:
                pass
        oc.add_loud('{}:{}'.format(name, s0), e)
        return None, oc
    if name in ('trim', 'trimc') and st.has_trim:
        relational_trim(st, op, topo2, elems2, oc)
        return None, oc
    if name in ('boundary', 'interfaces'):
        ms2, grid2 = None, None
    else:
        try:
            ms2, grid2 = model_apply(st, op)
        except M.ModelUndefined as e:
            oc.notes.append('model-undefined:{}:{}'.format(name, e))
            return None, oc
    st2 = State()
    st2.mesh = st.mesh
    st2.ops = st.ops + [op]
    st2.topo = topo2
    st2.geom = geom2
    st2.elems = elems2
    st2.grid = grid2
    st2.has_trim = st.has_trim or name in ('trim', 'trimc')
    st2.pure = st.pure and name in ('refined', 'refined_by', 'trim', 'trimc', 'boundary')
    s2 = sig(topo2)
    if n2 != len(elems2):
        oc.violations.append(('len-vs-references:' + s2, 'len(topo) = {} but {} references/transforms'.format(n2, len(elems2))))
        return None, oc
    if name in ('boundary', 'interfaces'):
        # adopt the pieces of the (already validated) boundary / interfaces as a lower dimensional model state
        if any(pe.codim != 1 for pe in elems2):
            oc.notes.append('model-undefined:{}:not codimension 1'.format(name))
            return None, oc
        cells = {}
        try:
            for pe in elems2:
                if pe.vol == 0 and pe.vol_ref == 0 and any(f.refname == 'EmptyLike' for f in pe.factors):
                    continue
                if pe.trimmed:
                    k, verts = hull_key(pe)
                    cell = G.Cell(None, verts=list(verts), k=pe.k)
                else:
                    cell = elem_cell(pe)
                if cell.key in cells:
                    oc.notes.append('model-undefined:{}:coincident pieces'.format(name))
                    return None, oc
                cells[cell.key] = cell
        except (G.NonDyadic, ValueError) as e:
            oc.notes.append('model-undefined:{}:{}'.format(name, type(e).__name__))
            return None, oc
        st2.ms = M.MState(st.ms.d, cells, periods=st.ms.periods, codim=1, periodic_ok=st.ms.periodic_ok)
        st2.kind = 'manifold'
        st2.keys = [None] * len(elems2)
        v, keys = compare_cells(st2.ms, elems2, allow_hull=True)
        if v:
            raise core.HarnessError('adopted manifold state does not match itself: {} in {}'.format(v[:2], st2.history()))
        st2.keys = keys
        return st2, oc
    oc.checked.append('cells')
    st2.ms = ms2
    st2.kind = 'product' if (name == 'mul' or st.kind == 'product') else st.kind
    v, keys = compare_cells(ms2, elems2, allow_hull=(st2.kind == 'manifold'))
    st2.keys = keys
    if native or (v and confirm):
        nat = None
        try:
            with quiet():
                nat = OB.native_measures(topo2, geom2)
        except Exception as e:
            oc.add_loud('integrate:{}'.format(s2), e)
        if nat is not None:
            oc.checked.append('native_measures')
            fast = numpy.array([pe.vol for pe in elems2])
            if nat.shape != fast.shape or (len(nat) and abs(nat - fast).max() > 1e-8):
                raise core.HarnessError('native element measures {} differ from the fast observation {} in {}'.format(nat, fast, st2.history()))
    if v:
        for k, t in v[:2]:
            oc.violations.append((k + ':' + s2, t))
        return None, oc
    if st2.kind in ('domain', 'product'):
        check_domain_extras(st2, oc, native=native, confirm=confirm)
        if name == 'trim' and st.kind == 'domain' and not oc.violations:
            trim_pair_oracle(st, op, oc, done=(topo2, elems2))
    if oc.violations:
        return None, oc
    return st2, oc


# ------------------------------------------------------------------------------------------------ exploration

def vkey(mesh, key):
    '''violation key = category:class signature.  On a mesh where two elements share MORE than one face (two elements around a
    period) every face lookup by neighbour index is ambiguous; findings there are keyed by that root cause.'''
    if Ctx.get(mesh).get('multiadj'):
        return 'multiadj:' + key.split(':')[0]
    return key


def chain_has(ops, names):
    return any(o[0] in names for o in ops)


def level_for(tier, mesh, ops):
    'menu level for the NEXT operation given the chain so far (None: stop)'
    depth = len(ops)
    if mesh == 'per22':
        # degenerate mesh (two elements around the period): kept small, it only has to keep its own finding alive
        return 'core' if depth == 0 else ('tail' if depth == 1 else None)
    if depth <= 1:
        return 'full' if tier == 'thorough' else 'quick'
    if depth == 2:
        if tier == 'quick':
            return 'tail' if chain_has(ops, ('trim', 'trimc', 'refined_by')) else None
        return 'core'
    return None


def native_sample(ops):
    if len(ops) <= 1:
        return True
    return int(core.h8(json.dumps(ops)), 16) % 16 == 0


def explore(st, tier, res, seen, chunk=None):
    'depth-first over operation sequences below state st; chunk=(i, n) deals the operations of THIS state round robin'
    level = level_for(tier, st.mesh, st.ops)
    if level is None:
        return
    for iop, op in enumerate(TS.menu(st.info(), level)):
        if chunk is not None and iop % chunk[1] != chunk[0]:
            continue
        res.count('transitions')
        res.count('evaluations')
        ops2 = st.ops + [op]
        st2, oc = transition(st, op, native=native_sample(ops2))
        res.count('traces_validated_against_impl')
        for c in oc.checked:
            res.count('checked_' + c)
        for l in oc.loud:
            res.count('loud_failures')
            res.distinct('distinct_outcomes', 'loud:' + l)
            res.distinct('loud_kinds', l)
            res.distinct('loud_categories', oc.loud_cat.get(l, '?'))
            LOUD.setdefault(l, {'mesh': st.mesh, 'ops': ops2, 'msg': oc.loud_msg.get(l), 'category': oc.loud_cat.get(l)})
        for n in oc.notes:
            NOTES[n] = NOTES.get(n, 0) + 1
            NOTE_EX.setdefault(n, {'mesh': st.mesh, 'ops': ops2})
            res.count('not_compared')
            res.distinct('distinct_outcomes', 'note:' + ':'.join(n.split(':')[:2]))
        for key, text in oc.violations:
            key = vkey(st.mesh, key)
            res.violation(key, '{} after {} on {}: {}'.format(key, json.dumps(ops2), st.mesh, text), {'mesh': st.mesh, 'ops': ops2})
        if oc.violations:
            res.distinct('distinct_outcomes', 'violation:' + oc.violations[0][0])
        if st2 is None:
            continue
        res.distinct('distinct_outcomes', 'ok:' + sig(st2.topo))
        canon = (sig(st2.topo), st2.kind, st2.has_trim, st2.ms.periodic_ok, st2.ms.canonical())
        if st2.elems:
            res.distinct('distinct_nontrivial', repr(canon))
        res.maximum('max_elements', len(st2.elems))
        res.maximum('max_depth', len(ops2))
        if canon in seen:
            continue
        seen.add(canon)
        res.count('states')
        if len(res.samples) < 2 and len(ops2) >= 2 and st2.has_trim:
            res.sample({'history': {'mesh': st.mesh, 'ops': ops2}, 'class': sig(st2.topo), 'elements': len(st2.elems), 'measure': round(st2.ms.total(), 9)})
        explore(st2, tier, res, seen)


LOUD = {}
NOTES = {}
NOTE_EX = {}

# number of shards per mesh (first operations are dealt round robin), roughly proportional to the cost of the mesh
NCHUNK = {'line3': 3, 'mp2': 4, 'box112': 8, 'rect22': 12, 'tri2': 10, 'mix2': 24, 'per32': 24, 'per22': 1}


def shards(tier, seed):
    out = []
    for mesh in ['line3', 'mp2', 'per22', 'box112', 'rect22', 'tri2', 'mix2', 'per32']:
        n = NCHUNK[mesh] * (1 if tier == 'quick' or mesh == 'per22' else 2)
        for i in range(n):
            out.append({'mesh': mesh, 'chunk': i, 'of': n})
    from .. import c10_and
    out += c10_and.shards(tier)
    return out


def run_shard(spec, tier, seed):
    res = core.ShardResult()
    if spec.get('kind') == 'and':
        from .. import c10_and
        c10_and.run(spec, tier, res)
        return res
    LOUD.clear()
    NOTES.clear()
    NOTE_EX.clear()
    st = initial_state(spec['mesh'])
    if spec['chunk'] == 0:
        # the initial state itself is compared like any other state
        res.count('states')
        oc = Outcome()
        check_domain_extras(st, oc, native=True)
        for c in oc.checked:
            res.count('checked_' + c)
        for key, text in oc.violations:
            key = vkey(st.mesh, key)
            res.violation(key, '{} on the initial mesh {}: {}'.format(key, st.mesh, text), {'mesh': st.mesh, 'ops': []})
    explore(st, tier, res, set(), chunk=(spec['chunk'], spec['of']))
    if LOUD and len(res.samples) < core.ShardResult.MAXSAMPLES:
        l, h = sorted(LOUD.items())[0]
        res.sample({'loud_failure': l, 'history': {'mesh': h['mesh'], 'ops': h['ops']}, 'message': h['msg'], 'category': h['category']})
    return res


def replay(witness):
    'walk the history with the full oracle (native observations confirm every finding); returns the first violation'
    if witness.get('kind') == 'and':
        from .. import c10_and
        return c10_and.replay(witness)
    st = initial_state(witness['mesh'])
    oc = Outcome()
    if not witness.get('ops'):
        check_domain_extras(st, oc, native=True, confirm=True)
        if oc.violations:
            return '{}: {}'.format(vkey(st.mesh, oc.violations[0][0]), oc.violations[0][1])
        return None
    for i, op in enumerate(witness['ops']):
        st2, oc = transition(st, op, native=True, confirm=True)
        if oc.violations:
            key, text = oc.violations[0]
            return '{} after {} on {}: {}'.format(vkey(st.mesh, key), json.dumps(witness['ops'][:i + 1]), witness['mesh'], text)
        if st2 is None:
            return None
        st = st2
    return None


def finalize(cov, tier):
    cov.setdefault('traces_validated_against_impl', cov.get('transitions', 0))
    cov['explanation'] = ('every transition is executed on the real topology object; the model is a set of exact rational polytopes; '
                          'loud_failures = operations that raised (not violations); not_compared = transitions the model or the observation '
                          'layer does not define')
