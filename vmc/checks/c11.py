'''C11 - element lookup and coordinate maps are consistent.

Five explorers, all exhaustive inside stated bounds, all against plain
python/numpy models:

 seq    nutils.transformseq.Transforms as a state space (vmc/c11_seq.py)
 chain  all well-formed transform chains up to length 4 (vmc/c11_chains.py)
 topo   f_index / f_coords / opposite / jump(geom) on a family of topologies (vmc/c11_topo.py)
 locate Topology.locate on the same family x target grid x option variants (vmc/c11_topo.py)
 cont   References / PointsSequence containers as a state space (vmc/c11_cont.py)
'''

import json
from .. import core
from .. import c11_seq, c11_chains, c11_topo, c11_cont

LEVEL = 'model_checking'
RULE = ('(a) Transforms state space: bases ' + ','.join(c11_seq.BASES) + ' (Structured 1-D/2-D incl. periodic, refined, boundary and interface axes; Plain incl. mixed depth '
        'and edge chains; Index incl. mixed references) x all operation sequences of depth<=3 over {mask, take(non-monotone index array), slice, refined(refs), edges(refs), '
        'split-and-chain(mask, form), chain-with-sibling}; operation parameters are a fixed alphabet that is exhaustive for length<=3 and narrows with depth; in every state every element x every '
        'tail from {c, e, cc, ce, ec, ee} is looked up, plus all chains the model can prove absent. '
        '(b) all well-formed chains of length<=4 over SimplexChild/SimplexEdge (1-3D), TensorChild/TensorEdge1/TensorEdge2 (line^2, line x triangle), Identity, ScaledUpdim '
        '(thorough: also inverted edges). (c) topology family (line, rectilinear 2x2, periodic, refined, hierarchical, triangle and mixed meshes, subsets; their boundaries and interfaces) x '
        'sample schemes {gauss2, bezier2, vertex...}. (d) locate on the same family x target classes x tol/eps/skip_missing/maxdist variants x maxprocs{1,2}. '
        '(e) References/PointsSequence: all operation sequences of depth<=3 over {take, compress, chain, repeat, product, children, edges, slice}. '
        'non-trivial = a distinct (state, element, tail) lookup whose returned tail had to be rewritten or whose sequence is nested (depth>=1), a distinct chain that canonical/uppermost/promote '
        'actually changes, a distinct (topology, sample, function) evaluation across at least one derived level, a distinct located target, a distinct container state of depth>=1')
ASSUMPTIONS = ['nutils.element Reference.child_transforms/edge_transforms/child_refs/edge_refs/vertices are used as data by the models and are not under test here',
               'two chains denote the same affine map iff they agree on the vertices and the centroid of the source reference (tolerance 1e-12, all coordinates are dyadic or thirds)',
               'states that would violate the documented precondition of Transforms (no chain is a head of another) are not constructed',
               'locate: geometries are affine or mildly nonlinear with Jacobian singular values in [0.5, 2.5]; a target counts as certainly-inside when it is >=0.05 (element coordinates) away from every element boundary',
               'maxprocs=2 uses nutils.parallel fork; the located sample must satisfy the same oracle as for maxprocs=1']
BUDGET_S = {'quick': 1500, 'thorough': 6000}


def shards(tier, seed):
    out = []
    out += c11_chains.shards(tier)
    out += c11_cont.shards(tier)
    out += c11_topo.shards(tier)
    out += c11_seq_shards(tier)
    return out


NCHUNK = {'quick': 4, 'thorough': 8}


def c11_seq_shards(tier):
    out = []
    for base in c11_seq.BASES:
        for k in range(NCHUNK[tier]):
            out.append({'kind': 'seq', 'base': base, 'chunk': k})
    return out


def _opkey(ops):
    return '/'.join(op[0] + (':' + op[1] if op[0] in ('split', 'sib') else '') for op in ops)


def _run_seq(spec, tier, res):
    S = c11_seq
    base = spec['base']
    maxdepth = 3
    seq, model, sibling = S.build_base(base)
    base_model = list(model)
    stats = {'queries': 0, 'rewritten': 0, 'unknown': 0, 'equiv': 0, 'forms': set()}
    seen = {}
    keep = []

    def check(seq, model, universe, ops):
        try:
            before = stats['queries'], stats['rewritten'], stats['unknown']
            S.observe(seq, model, tier, stats, S.unknown_chains(model, universe, base_model))
        except S.Mismatch as m:
            res.violation('seq:' + m.key, 'base {} ops {}: {}'.format(base, ops, m.what), {'kind': 'seq', 'base': base, 'ops': ops})
            return False
        except Exception as e:
            res.violation('seq:observe-raise:{}:{}'.format(type(e).__name__, S.seqkind(seq)), 'base {} ops {}: observation raised {!r}'.format(base, ops, e), {'kind': 'seq', 'base': base, 'ops': ops})
            return False
        nq = stats['queries'] - before[0] + len(model)
        res.count('evaluations', nq + stats['unknown'] - before[2])
        res.count('traces_validated_against_impl')
        return True

    universe0 = list(model) + (list(sibling[1]) if sibling else [])
    if spec['chunk'] == 0:
        if check(seq, model, universe0, []):
            res.count('states')
            res.sample({'part': 'seq', 'base': base, 'ops': [], 'len': len(model), 'kind': S.seqkind(seq)})

    def explore(seq, model, sibling, universe, ops, depth):
        allops = S.operations(model, seq.fromdims, bool(sibling), depth, tier)
        if depth == 0:
            allops = allops[spec['chunk']::NCHUNK[tier]]
        for op in allops:
            ops2 = ops + [op]
            try:
                r = S.apply_op(seq, model, op, sibling)
            except Exception as e:
                res.violation('seq:op:raise:{}:{}'.format(_opkey([op]), S.seqkind(seq)), 'base {} ops {}: operation raised {!r}'.format(base, ops2, e), {'kind': 'seq', 'base': base, 'ops': ops2})
                continue
            if r is None:
                continue
            seq2, model2, sib2 = r
            res.count('transitions')
            key = (id(seq2), id(sib2[0]) if sib2 else None)
            keep.append((seq2, sib2))
            first = key not in seen
            if first:
                seen[key] = len(model2)
                universe2 = universe + [e for e in model2 if all(e.chain != u.chain for u in universe)]
                if not check(seq2, model2, universe2, ops2):
                    continue
                res.count('states')
                res.maximum('max_sequence_length', len(model2))
                res.distinct('state_kinds', S.seqkind(seq2))
                if len(model2):
                    res.distinct('distinct_nontrivial', json.dumps([base, [e.b for e in model2] and [list(map(repr, e.chain)) for e in model2[:3]], len(model2), S.seqkind(seq2)]))
                if len(res.samples) < 3 and depth == 2:
                    res.sample({'part': 'seq', 'base': base, 'ops': ops2, 'len': len(model2), 'kind': S.seqkind(seq2)})
            else:
                # same live object reached by another route: the list model must agree as well
                res.count('traces_validated_against_impl')
                if seen[key] != len(model2):
                    res.violation('seq:confluence:' + S.seqkind(seq2), 'base {} ops {}: interned object reached with a different model length'.format(base, ops2), {'kind': 'seq', 'base': base, 'ops': ops2})
                continue
            if depth + 1 < maxdepth and len(model2) <= MAXLEN[tier]:
                explore(seq2, model2, sib2, universe2, ops2, depth + 1)

    explore(seq, model, sibling, universe0, [], 0)
    res.count('lookups_with_tail', stats['queries'])
    res.count('lookups_rewritten_tail', stats['rewritten'])
    res.count('lookups_unknown', stats['unknown'])
    res.count('lookups_equivalent_spelling', stats['equiv'])
    for f in stats['forms']:
        res.distinct('distinct_outcomes', 'tailform:{}'.format(f))


MAXLEN = {'quick': 16, 'thorough': 64}


def run_shard(spec, tier, seed):
    res = core.ShardResult()
    kind = spec['kind']
    if kind == 'seq':
        _run_seq(spec, tier, res)
    elif kind == 'chain':
        c11_chains.run(spec, tier, res)
    elif kind == 'cont':
        c11_cont.run(spec, tier, res)
    elif kind in ('topo', 'locate'):
        c11_topo.run(spec, tier, res)
    else:
        raise core.HarnessError('unknown shard kind {}'.format(kind))
    return res


def replay(w):
    kind = w['kind']
    if kind == 'seq':
        r = c11_seq.run_ops(w['base'], w['ops'], 'quick')
        return None if r is None else '{}: {}'.format(*r)
    if kind == 'chain':
        return c11_chains.replay(w)
    if kind == 'cont':
        return c11_cont.replay(w)
    if kind in ('topo', 'locate'):
        return c11_topo.replay(w)
    raise core.HarnessError('unknown witness kind {}'.format(kind))


def finalize(cov, tier):
    cov.setdefault('states', 0)
    cov.setdefault('transitions', 0)
    cov.setdefault('traces_validated_against_impl', 0)
    cov['explanation'] = ('states = distinct live Transforms / References / PointsSequence objects (interned, deduplicated by identity) plus topology states; every transition is executed '
                          'on the real object and the result compared with the list model, so every trace is validated against the implementation')
