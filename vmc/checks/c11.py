'''C11 - element lookup and coordinate maps are consistent.

Five explorers, all exhaustive inside stated bounds, all against plain
python/numpy models:

 seq    nutils.transformseq.Transforms as a state space (vmc/c11_seq.py)
 chain  all well-formed transform chains up to length 4 (vmc/c11_chains.py)
 topo   f_index / f_coords / opposite / jump(geom) on a family of topologies (vmc/c11_topo.py)
 locate Topology.locate on the same family x target grid x option variants (vmc/c11_topo.py)
 cont   References / PointsSequence containers as a state space (vmc/c11_cont.py)
'''

import json
from .. import core
from .. import c11_seq, c11_chains, c11_topo, c11_cont

LEVEL = 'model_checking'
RULE = ('(a) Transforms state space: bases ' + ','.join(c11_seq.BASES) + ' (Structured 1-D/2-D incl. periodic, nrefine=1, boundary and interface axes; Plain incl. mixed depth '
        'and edge chains; Index incl. mixed square/triangle references) x all operation sequences of depth<=3 over {mask, take(non-monotone index array), slice, refined(refs), edges(refs), '
        'split-and-chain(mask; id+id, swapped, ref+id, id+ref, ref+ref, edg+edg), chain-with-sibling before/after}; operation parameters come from a fixed alphabet that is exhaustive for '
        'length<=3 and narrows with depth (levels 0,2,3 quick / 0,1,2 thorough); states are deduplicated by identity of the interned object. In every state: len/iter/getitem(+negative, numpy int, '
        'out of range)/index/contains for every element; index_with_tail for every element x every tail in {c, e, cc, ce, ec} (thorough: +ee) x every swap-equivalent spelling in which the '
        'element\'s own items are spelled differently (quick: tails of length<=1); every chain the model can prove absent (strict heads, elements of ancestor states with disjoint lineage, alien roots). '
        '(b) all well-formed typed chains over SimplexChild/SimplexEdge (1-3D), TensorChild/TensorEdge1/TensorEdge2 (line^2, line x triangle), Identity, ScaledUpdim: quick = length<=4 for '
        'line, triangle, line^2, length<=3 for tetrahedron and line x triangle plus their length-4 chains without ScaledUpdim; thorough = length<=4 everywhere incl. inverted edges. '
        '(c) topology family: bases ' + ','.join(c11_topo.BASES) + ' x volume operation sequences over {refined, refined_by(first), refined_by(last two), take(evens), slice, subset} '
        '(quick: depth<=1 plus 8 selected pairs; thorough: all pairs) x optional {boundary, interfaces} x optional {refined, take(evens)}; samples gauss2 and bezier2 (element vertices); evaluated: own '
        'f_index/f_coords, geom, f_index/f_coords of every ancestor topology and of the refined sibling, opposite(.) of all of these and jump(geom) on interfaces. '
        '(d) locate: 6 (thorough 14) topologies of each base x geometry {affine, quadratic} x target sets {element-interior, +vertices and edge midpoints, +1e-7 outside, +far outside} x '
        '{tol=1e-10, eps=1e-10, tol=1e-4&eps=1e-6, eps=.05} x skip_missing x maxdist x maxprocs{1,2} (quick: a fixed 24-call subset of the product). '
        '(e) References/PointsSequence: bases ' + ','.join(c11_cont.REF_BASES + c11_cont.PTS_BASES) + ' x all operation sequences of depth<=3 over {take(sorted, unsorted, repeated), compress, slice(incl. reversed), '
        'chain(self, other, other-left, reversed copy), repeat(0,2,3), product(uniform/plain, left/right), children, edges}. '
        'non-trivial = a distinct non-empty Transforms state of depth>=1; a distinct chain that canonical/uppermost/promote actually changes; a distinct derived topology state; a distinct locate call; '
        'a distinct non-empty container state of depth>=1')
ASSUMPTIONS = ['nutils.element Reference.child_transforms/edge_transforms/child_refs/edge_refs/vertices/inside are used as data by the models and are not under test here',
               'two chains denote the same affine map iff they agree on the vertices and the centroid of the source reference (tolerance 1e-12; all coordinates are dyadic or thirds)',
               'states that would violate the documented precondition of Transforms (no chain is a head of another) are not constructed; the model decides this from the lineage of every element',
               'the returned tail is only required to be the same affine map with the same orientation parity and well-formed dimensions (nutils returns the uppermost, canonical or literal '
               'spelling depending on the sequence class, so no particular normal form is demanded)',
               'lookup is exercised with every swap-equivalent spelling of a chain: all Transforms classes normalise their argument (promote/uppermost/canonical), and function evaluation on '
               'derived topologies relies on it',
               'for a fully periodic structured axis every integer index is a legitimate alias, so no alien index is tried there',
               'locate: geometries are affine or mildly nonlinear with Jacobian singular values in [0.5, 2.5]; tolerance bound = max(tol, eps*Lmax)*1.001+1e-11; element-interior targets '
               '(>=0.2 element coordinates from the boundary) must be found, everything else may raise LocateError; located points must lie in their element within max(tol,eps)/0.5',
               'opposite(.) is only evaluated on interface topologies (structured boundaries carry opposites that point outside the domain)',
               'maxprocs=2 uses nutils.parallel fork; the located sample must satisfy the same oracle as for maxprocs=1']
BUDGET_S = {'quick': 7200, 'thorough': 14400}


SEQ_COST = {'s2b': 9, 's2r': 8, 's2': 8, 's2p': 6, 's2i': 6, 'p2': 5, 'p2d': 5, 'i2': 3, 'i2m': 3, 's1r': 2, 's1': 1, 's1p': 1, 'i1': 1, 'p1e': 1}
NCHUNK = {'quick': 4, 'thorough': 6}


def shards(tier, seed):
    '''cheap and simple parts first (chains, containers, topology functions), then the expensive state spaces with the
    most expensive bases leading so that the pool finishes evenly'''
    out = []
    out += c11_chains.shards(tier)
    out += c11_cont.shards(tier)
    topo = c11_topo.shards(tier)
    out += [s for s in topo if s['kind'] == 'topo']
    from .. import c11_lochist
    out += c11_lochist.shards(tier)
    heavy = [s for s in topo if s['kind'] == 'locate' and s['base'] == 'mixed2'] + [s for s in c11_seq_shards(tier) if SEQ_COST[s['base']] >= 5]
    out += heavy
    out += [s for s in topo if s['kind'] == 'locate' and s['base'] != 'mixed2']
    out += [s for s in c11_seq_shards(tier) if SEQ_COST[s['base']] < 5]
    return out


def c11_seq_shards(tier):
    out = []
    for base in sorted(c11_seq.BASES, key=lambda b: -SEQ_COST[b]):
        for k in range(NCHUNK[tier]):
            out.append({'kind': 'seq', 'base': base, 'chunk': k})
    return out


def _opkey(ops):
    return '/'.join(op[0] + (':' + op[1] if op[0] in ('split', 'sib') else '') for op in ops)


def _run_seq(spec, tier, res):
    S = c11_seq
    base = spec['base']
    maxdepth = 3
    seq, model, sibling = S.build_base(base)
    base_model = list(model)
    stats = {'queries': 0, 'rewritten': 0, 'unknown': 0, 'equiv': 0, 'forms': set()}
    seen = {}
    keep = []

    def check(seq, model, universe, ops):
        try:
            before = stats['queries'], stats['rewritten'], stats['unknown']
            S.observe(seq, model, tier, stats, S.unknown_chains(model, universe, base_model))
        except S.Mismatch as m:
            res.violation('seq:' + m.key, 'base {} ops {}: {}'.format(base, ops, m.what), {'kind': 'seq', 'base': base, 'ops': ops, 'tier': tier})
            return False
        except Exception as e:
            res.violation('seq:observe-raise:{}:{}'.format(type(e).__name__, S.seqkind(seq)), 'base {} ops {}: observation raised {!r}'.format(base, ops, e), {'kind': 'seq', 'base': base, 'ops': ops, 'tier': tier})
            return False
        nq = stats['queries'] - before[0] + len(model)
        res.count('evaluations', nq + stats['unknown'] - before[2])
        res.count('traces_validated_against_impl')
        return True

    universe0 = list(model) + (list(sibling[1]) if sibling else [])
    if spec['chunk'] == 0:
        if check(seq, model, universe0, []):
            res.count('states')
            res.sample({'part': 'seq', 'base': base, 'ops': [], 'len': len(model), 'kind': S.seqkind(seq)})

    def explore(seq, model, sibling, universe, ops, depth):
        allops = S.operations(model, seq.fromdims, bool(sibling), depth, tier)
        if depth == 0:
            allops = allops[spec['chunk']::NCHUNK[tier]]
        for op in allops:
            ops2 = ops + [op]
            try:
                r = S.apply_op(seq, model, op, sibling)
            except Exception as e:
                res.violation('seq:op:raise:{}:{}'.format(_opkey([op]), S.seqkind(seq)), 'base {} ops {}: operation raised {!r}'.format(base, ops2, e), {'kind': 'seq', 'base': base, 'ops': ops2, 'tier': tier})
                continue
            if r is None:
                continue
            seq2, model2, sib2 = r
            res.count('transitions')
            key = (id(seq2), id(sib2[0]) if sib2 else None)
            keep.append((seq2, sib2))
            first = key not in seen
            if first:
                seen[key] = len(model2)
                universe2 = universe + [e for e in model2 if all(e.chain != u.chain for u in universe)]
                if not check(seq2, model2, universe2, ops2):
                    continue
                res.count('states')
                res.maximum('max_sequence_length', len(model2))
                res.distinct('state_kinds', S.seqkind(seq2))
                if len(model2):
                    res.distinct('distinct_nontrivial', repr([base, [(e.b, e.path) for e in model2], S.seqkind(seq2)]))
                if len(res.samples) < 3 and depth == 2:
                    res.sample({'part': 'seq', 'base': base, 'ops': ops2, 'len': len(model2), 'kind': S.seqkind(seq2)})
            else:
                # same live object reached by another route: the list model must agree as well
                res.count('traces_validated_against_impl')
                if seen[key] != len(model2):
                    res.violation('seq:confluence:' + S.seqkind(seq2), 'base {} ops {}: interned object reached with a different model length'.format(base, ops2), {'kind': 'seq', 'base': base, 'ops': ops2, 'tier': tier})
                continue
            if depth + 1 < maxdepth and len(model2) <= MAXLEN[tier]:
                explore(seq2, model2, sib2, universe2, ops2, depth + 1)

    explore(seq, model, sibling, universe0, [], 0)
    res.count('lookups_with_tail', stats['queries'])
    res.count('lookups_rewritten_tail', stats['rewritten'])
    res.count('lookups_unknown', stats['unknown'])
    res.count('lookups_equivalent_spelling', stats['equiv'])
    for f in stats['forms']:
        res.distinct('distinct_outcomes', 'tailform:{}'.format(f))


MAXLEN = {'quick': 16, 'thorough': 64}


def run_shard(spec, tier, seed):
    res = core.ShardResult()
    kind = spec['kind']
    if kind == 'lochist':
        from .. import c11_lochist
        c11_lochist.run(spec, tier, res)
        return res
    if kind == 'seq':
        _run_seq(spec, tier, res)
    elif kind == 'chain':
        c11_chains.run(spec, tier, res)
    elif kind == 'cont':
        c11_cont.run(spec, tier, res)
    elif kind in ('topo', 'locate'):
        c11_topo.run(spec, tier, res)
    else:
        raise core.HarnessError('unknown shard kind {}'.format(kind))
    return res


def replay(w):
    kind = w['kind']
    if kind == 'lochist':
        from .. import c11_lochist
        return c11_lochist.replay(w)
    if kind == 'seq':
        r = c11_seq.run_ops(w['base'], w['ops'], w.get('tier', 'quick'))
        return None if r is None else '{}: {}'.format(*r)
    if kind == 'chain':
        return c11_chains.replay(w)
    if kind == 'cont':
        return c11_cont.replay(w)
    if kind in ('topo', 'locate'):
        return c11_topo.replay(w)
    raise core.HarnessError('unknown witness kind {}'.format(kind))


def finalize(cov, tier):
    cov.setdefault('states', 0)
    cov.setdefault('transitions', 0)
    cov.setdefault('traces_validated_against_impl', 0)
    cov['explanation'] = ('states = distinct live Transforms / References / PointsSequence objects (interned, deduplicated by identity) plus topology states; every transition is executed '
                          'on the real object and the result compared with the list model, so every trace is validated against the implementation')
