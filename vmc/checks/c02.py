'''C02 - generated code is a faithful translation of the expression.

Every program (terms of the IR term space, the loop grammar of vmc.loopspace, tuples / nested tuples sharing subterms
and loops) is compiled by the real evaluable.compile under every compile configuration
  _simplify x _optimize x cache_const_intermediates x stats in {None,'log'} x maxprocs in {1,2}
and the returned nest is compared (structure, shapes, dtype kinds, values) with the numpy reference interpreter and
across configurations.  With cache_const_intermediates the function is called twice (second call = rerun path).
'''

import itertools, json
import numpy
from .. import core, terms as T, irspace, irtools, loopspace as LS, extraspace as XS

LEVEL = 'exploration'
RULE = ('programs = (1) every term of depth<=2 of the term space at the 4 principal configurations and every depth-1 term at all 16 serial '
        'configurations, (2) the loop grammar (bodies of depth<=1 (thorough: 2), post-operations and all pairs of small closed loops incl. '
        'dependent ones, nested loops, loop-dependent chunk sizes and shapes) and (3) tuples / nested tuples sharing subterms or loops; thorough: '
        'all 16 serial configurations each, all 32 for nested loops, tuples and loop sums into loop-shaped arrays, one forking one for every 8th other; quick: 10 serial configurations each (8 pass combinations, 2 with stats), all 16 serial ones for nested loops, '
        'tuples and loop sums into loop-shaped arrays, and one forking configuration for nested loops and loop-shaped sums, every 4th tuple and every 32nd other program; each compared with the numpy reference on the fixed valuation sets. non-trivial = distinct (program, configuration) '
        'pairs evaluated on an in-domain valuation')
ASSUMPTIONS = ['numpy reference interpreter (vmc.terms.ref) is the meaning of a program', 'fixed dyadic float valuations; int/bool arguments exhaustive over {0,1}',
               'parallel configurations use real forked workers (maxprocs=2) under the OS scheduler; schedules are explored exhaustively in C16, not here']
BUDGET_S = {'quick': 420, 'thorough': 5400}

ALL_CONFIGS = [dict(simplify=s, optimize=o, cache=c, stats=st, maxprocs=m)
               for s in (True, False) for o in (True, False) for c in (False, True) for st in (None, 'log') for m in (1, 2)]
SERIAL_CONFIGS = [c for c in ALL_CONFIGS if c['maxprocs'] == 1]
PRINCIPAL = [c for c in ALL_CONFIGS if c['maxprocs'] == 1 and not c['cache'] and c['stats'] is None]
BASE_CONFIGS = [c for c in SERIAL_CONFIGS if c['stats'] is None or c['simplify'] and c['optimize']]
PAR_ONE = dict(simplify=True, optimize=True, cache=False, stats=None, maxprocs=2, first_valuation_only=True)

D3_CORE_OPS = ['abs', 'add', 'diagonalize', 'inflate', 'multiply', 'powc', 'sum', 'take', 'takediag', 'transpose']
TERM_PROFILES = {
    'quick': [{'name': 'd2-f5', 'leaves': 'f5', 'consts': False, 'ops': 'all', 'depth': 2},
              {'name': 'd1-mixed', 'leaves': 'mixed', 'consts': True, 'ops': 'all', 'depth': 1}],
    'thorough': [{'name': 'd2-all', 'leaves': 'all', 'consts': True, 'ops': 'all', 'depth': 2},
                 # depth 3 over the structural heart of the rewrite core (the family C01 completes in its quick tier): leaves a (2,), A (2,2)
                 {'name': 'd3-core', 'leaves': 'aA', 'consts': False, 'ops': D3_CORE_OPS, 'depth': 3, 'binary': True}],
}
NPARTS = {'quick': {1: 2, 2: 40}, 'thorough': {1: 4, 2: 300, 3: 300}}
LOOP_CHUNK = 30


def shards(tier, seed):
    out = []
    nprog = len(LS.programs(tier))
    for lo in range(0, nprog, LOOP_CHUNK):
        out.append({'kind': 'loops', 'lo': lo, 'hi': min(nprog, lo + LOOP_CHUNK)})
    for lo in range(0, len(XS.terms(tier)), 80):
        out.append({'kind': 'extra', 'lo': lo, 'hi': lo + 80})
        out.append({'kind': 'derivs', 'lo': lo, 'hi': lo + 80})
    for s in irspace.shards(TERM_PROFILES[tier], NPARTS[tier]):
        s['kind'] = 'terms'
        out.append(s)
    return out


def cfgname(c):
    return 's{:d}o{:d}c{:d}{}p{}'.format(c['simplify'], c['optimize'], c['cache'], 'L' if c['stats'] else '-', c['maxprocs'])


def _same_structure(v, r):
    if isinstance(r, tuple):
        return isinstance(v, tuple) and len(v) == len(r) and all(_same_structure(a, b) for a, b in zip(v, r))
    return not isinstance(v, (tuple, list))


def _compare(v, r, prog):
    'first difference between value nest v and reference nest r, or None'
    if isinstance(r, tuple):
        for i, (a, b, p) in enumerate(zip(v, r, prog)):
            d = _compare(a, b, p)
            if d:
                return 'output {}: {}'.format(i, d)
        return None
    shape, kind = T.typeof(prog)
    v = numpy.asarray(v)
    if v.shape != r.shape:
        return 'shape {} instead of {}'.format(v.shape, r.shape)
    if irtools.kind_of(v) != kind:
        return 'dtype {} instead of kind {}'.format(v.dtype, kind)
    if not irtools.close(v, r, kind):
        return 'value {} instead of {}'.format(irtools.describe(v), irtools.describe(r))
    return None


def run_config(prog, node, cfg, envs_refs):
    'compile under cfg and compare with the reference on every valuation; returns None or (kind, what)'
    from nutils import evaluable, parallel
    import contextlib
    ctx = parallel.maxprocs(cfg['maxprocs']) if cfg['maxprocs'] > 1 else contextlib.nullcontext()
    with (core.fork_token() if cfg['maxprocs'] > 1 else contextlib.nullcontext()), ctx:
        try:
            f = evaluable.compile(node, _simplify=cfg['simplify'], _optimize=cfg['optimize'], cache_const_intermediates=cfg['cache'], stats=cfg['stats'])
        except Exception as e:
            return ('compile-exception', 'compile raised {!r}'.format(e)[:400])
        for env, r in (envs_refs[:1] if cfg.get('first_valuation_only') else envs_refs):
            for call in range(2 if cfg['cache'] else 1):
                try:
                    with numpy.errstate(all='ignore'):
                        v = f(env)
                except Exception as e:
                    return ('eval-exception', 'call {} raised {!r}'.format(call, e)[:400])
                if not _same_structure(v, r):
                    return ('structure', 'returned nest {} does not match the program nest'.format(type(v).__name__))
                d = _compare(v, r, prog)
                if d:
                    return ('value' if 'value' in d else 'shape' if 'shape' in d else 'dtype', '{}{} at {}'.format('second call: ' if call else '', d, {k: numpy.asarray(x).tolist() for k, x in env.items()}))
    return None


def check_program(prog, configs, nsets=2, res=None):
    'returns None or (cfgname, kind, what)'
    try:
        node = LS.build(prog)
    except Exception as e:
        return ('-', 'build', 'constructor raised {!r}'.format(e)[:300])
    if not irtools.simplifies(node):
        if res is not None:
            res.count('skipped_simplifier_fails_see_C01')
        return None
    envs_refs = []
    for env in T.valuations(LS.arguments(prog), nsets=nsets):
        try:
            r = LS.ref(prog, env)
        except T.OutOfDomain:
            if res is not None:
                res.count('out_of_domain')
            continue
        if not all(numpy.isfinite(x).all() for x in _flat(r)):
            continue
        envs_refs.append((env, r))
    if not envs_refs:
        if res is not None:
            res.count('no_in_domain_valuation')
        return None
    for cfg in configs:
        fail = run_config(prog, node, cfg, envs_refs)
        if res is not None:
            res.count('evaluations', len(envs_refs) * (2 if cfg['cache'] else 1))
            res.distinct('distinct_nontrivial', LS.show(prog) + cfgname(cfg))
        if fail:
            return (cfgname(cfg),) + fail
    return None


def _flat(r):
    if isinstance(r, tuple):
        for x in r:
            yield from _flat(x)
    else:
        yield r


def abstract_prog(prog):
    from .c01 import abstract
    if LS.is_term(prog):
        return abstract(prog)
    return '(' + ','.join(abstract_prog(p) for p in prog) + ')'


def _key(prog, fail):
    cfg, kind, what = fail
    # configuration class instead of the exact configuration: which passes are needed for the failure is the root cause
    return '{}:{}:{}'.format(kind, cfg, abstract_prog(prog))[:400]


def minimise_configs(prog, fail):
    'the failing configuration with the fewest passes switched on (smallest explanation)'
    order = sorted(ALL_CONFIGS, key=lambda c: (c['maxprocs'], c['stats'] is not None, c['cache'], c['optimize'], c['simplify']))
    for cfg in order:
        f = check_program(prog, [cfg])
        if f and f[1] == fail[1]:
            return f
    return fail


def run_shard(spec, tier, seed):
    irtools.quiet()
    res = core.ShardResult()
    if spec['kind'] == 'loops':
        progs = LS.programs(tier)[spec['lo']:spec['hi']]
        for k, (fam, prog) in enumerate(progs):
            # every program: the 8 serial pass combinations and the two stats='log' variants of the default passes; nested loops, tuples
            # and loop sums into arrays whose shape comes out of another loop: all 16 serial configurations.  Forking configurations
            # (maxprocs=2) are expensive on this box (a fork costs 30 ms alone and 250 ms when 16 workers fork at once), so quick runs
            # one of them, on the first valuation, for nested loops and loop-shaped sums, every 4th tuple and every 32nd other program; thorough runs all 32 on
            # those families, 16 serial ones on the rest (see below).  The schedules of the forked code are C16's subject, not C02's.
            sh = LS.show(prog)
            full = fam in ('p4', 'tuples') or ('ragged' in sh and 'loopsum' in sh)
            if tier == 'thorough':
                # all 16 serial configurations everywhere; all 16 forking ones for nested loops, tuples and loop-shaped sums, one for every
                # 8th other program (61 k programs x 16 forking configurations would be 3 M forks at ~15 forks/s machine-wide)
                cfgs = ALL_CONFIGS if full else SERIAL_CONFIGS + ([PAR_ONE] if (spec['lo'] + k) % 8 == 0 else [])
            else:
                cfgs = SERIAL_CONFIGS if full else BASE_CONFIGS
                if (spec['lo'] + k) % (1 if fam == 'p4' or full and fam != 'tuples' else 4 if full else 32) == 0:
                    cfgs = cfgs + [PAR_ONE]
            _one(prog, cfgs, res, fam)
        res.sample({'loop_program': LS.show(progs[0][1]), 'family': progs[0][0], 'configs': {'base': [cfgname(c) for c in BASE_CONFIGS], 'nested/tuples/loop-shaped': [cfgname(c) for c in SERIAL_CONFIGS + [PAR_ONE]]}})
    elif spec['kind'] == 'derivs':
        for fam, term in XS.terms(tier)[spec['lo']:spec['hi']]:
            _deriv(term, res)
        res.sample({'derivative_programs_of': 'structured families', 'configs': [cfgname(c) for c in PRINCIPAL]})
    elif spec['kind'] == 'extra':
        ts = XS.terms(tier)[spec['lo']:spec['hi']]
        for fam, term in ts:
            _one(term, SERIAL_CONFIGS, res, fam)
        if ts:
            res.sample({'structured_family_term': T.show(ts[0][1])})
    else:
        cfgs = SERIAL_CONFIGS if spec['level'] == 1 else PRINCIPAL
        last = None
        for term in irspace.shard_terms(spec['profile'], spec['level'], spec['part'], spec['nparts']):
            _one(term, cfgs, res, spec['profile']['name'])
            last = term
        if spec['part'] == 0 and last is not None:
            res.sample({'term': T.show(last), 'configs': [cfgname(c) for c in cfgs]})
    return res


def _one(prog, cfgs, res, fam):
    res.count('programs')
    try:
        fail = check_program(prog, cfgs, res=res)
    except T.IllTyped:
        res.count('illtyped')
        return
    if fail is None:
        return
    if fail[1] == 'build':
        res.count('build_errors')
        res.distinct('build_error_kinds', fail[2][:60])
        return
    fail = minimise_configs(prog, fail)
    res.violation(_key(prog, fail), '[{}] {} :: config {} {}: {}'.format(fam, LS.show(prog), fail[0], fail[1], fail[2]), {'program': LS.to_json(prog), 'config': fail[0]})


def check_derivative(term):
    '''the derivative of a term to each float argument is a program without a hand-written meaning: all principal configurations must
    agree with the unsimplified, unoptimised evaluation (pure differential oracle). Returns None or (cfg, kind, what)'''
    from nutils import evaluable
    try:
        node = T.build(term)
    except Exception:
        return None
    args = T.arguments(term)
    envs = T.valuations(args, nsets=1, exhaustive_int=False)[:1]
    for name, (shape, kind) in sorted(args.items()):
        if kind != 'f':
            continue
        var = evaluable.Argument(name, tuple(evaluable.constant(n) for n in shape), float)
        try:
            d = evaluable.derivative(node, var)
        except Exception:
            continue
        if not irtools.simplifies(d):
            continue
        try:
            base = [evaluable.compile(d, _simplify=False, _optimize=False, cache_const_intermediates=False)(env) for env in envs]
        except Exception:
            continue
        if not all(numpy.isfinite(b).all() for b in base):
            continue
        for cfg in PRINCIPAL[1:] if not (PRINCIPAL[0]['simplify'] or PRINCIPAL[0]['optimize']) else PRINCIPAL:
            if not cfg['simplify'] and not cfg['optimize']:
                continue
            try:
                f = evaluable.compile(d, _simplify=cfg['simplify'], _optimize=cfg['optimize'], cache_const_intermediates=False)
                vals = [f(env) for env in envs]
            except Exception as e:
                return (cfgname(cfg), 'eval-exception', 'd/d{} of the term: configuration raised {!r} while the plain evaluation works'.format(name, e)[:300])
            for v, b in zip(vals, base):
                if v.shape != b.shape or not irtools.close(v, b, 'f'):
                    return (cfgname(cfg), 'value', 'd/d{} of the term: configuration gives {} but the plain evaluation {}'.format(name, irtools.describe(v), irtools.describe(b)))
    return None


def _deriv(term, res):
    res.count('programs')
    try:
        fail = check_derivative(term)
    except T.IllTyped:
        return
    res.count('evaluations')
    res.distinct('distinct_nontrivial', 'deriv' + T.show(term))
    if fail:
        msg = fail[2].split('raised ')[-1].split(' while')[0][:60] if fail[1] == 'eval-exception' else ''
        res.violation('derivative-program:{}:{}:{}'.format(fail[1], fail[0], msg), '{} :: {}'.format(T.show(term), fail[2]), {'derivative_of': T.to_json(term)})


def replay(w):
    irtools.quiet()
    if 'derivative_of' in w:
        fail = check_derivative(T.from_json(w['derivative_of']))
        return None if fail is None else 'config {} {}: {}'.format(*fail)
    prog = LS.from_json(w['program'])
    cfgs = [c for c in ALL_CONFIGS if cfgname(c) == w.get('config')] or ALL_CONFIGS
    fail = check_program(prog, cfgs)
    if fail is None or fail[1] == 'build':
        return None
    return 'config {} {}: {}'.format(*fail)


def finalize(cov, tier):
    cov['configurations'] = [cfgname(c) for c in ALL_CONFIGS]
    cov['term_profiles'] = TERM_PROFILES[tier]
    cov['loop_program_families'] = {}
    for fam, p in LS.programs(tier):
        cov['loop_program_families'][fam] = cov['loop_program_families'].get(fam, 0) + 1
