'''C08 - differential-geometric operators obey their defining identities.

Bounded exhaustive exploration of the finite product

  topology x refinement x polynomial geometry map x sample kind x operator/field

on the real nutils code.  Every geometry is x = G(x0) with x0 the (piecewise
affine) coordinate of the mesh generator and G a polynomial map with small
integer / dyadic coefficients whose Jacobian determinant is bounded away from
zero, every field is a monomial of total degree <= 2 in the PHYSICAL
coordinates (and vector fields built from those).  All identities are then
exact up to round-off and the reference (vmc/c08_model.py) is plain numpy:
hand-written derivatives p'(x), p''(x); G and dG/dx0 from explicit coefficient
tables; element frames, outward normals and measures from the x0 vertex
coordinates of the elements; volumes and divergence integrals by hand-written
Gauss-Legendre / Duffy quadrature in x0 space.

Because every reference value depends only on the physical point (and, for
normals, on the element that the facet belongs to), agreement with the
reference on every refinement / parametrisation is the differential
"same point, same value" requirement across refinements and meshes.
'''

import json
from .. import core
from .. import c08_model as model
from .. import c08_cases as cases

LEVEL = 'exploration'
RULE = ('full product of topologies {line(2), rectilinear 2x1, 2x2, periodic 2x2, unitsquare triangle and mixed (n=2), box 1x1x1 and 2x1x1, 6 tetrahedra '
        '(mesh.simplex, Kuhn cube), manifolds: line in R^2, rectilinear 2x1 and 2 triangles in R^3, product line(2) x line(2) with spaces= operators} '
        'x refinements {none, uniform, every refined_by subset of <= 4 base elements (quick: single elements only for the meshes with > 4 elements; product: factor-wise '
        'none/uniform/hierarchical, quick 6 of the 25 combinations), thorough adds every two-level refinement refined_by([i]).refined_by([child j of i])} '
        'x polynomial maps {identity, shear, rotation-scale, quadratic bend, orientation reversing affine map; thorough: second bend; manifolds: the same maps '
        'restricted to a hyperplane plus a cubic arc with polynomial measure} '
        'x sample kinds {interior gauss, boundary gauss, interfaces gauss on both sides, exact integrals, fixed physical points located on refined and unrefined topology, per-space} '
        'x operators {grad, laplace, div, symgrad, curl, J, normal, tangent, dotnorm, ngrad, nsymgrad, surface grad/div/symgrad/laplace, exterior normal} '
        'applied to all monomials of degree <= 2 in the physical coordinates and 12/20 vector fields built from them. '
        'A case = (topology, refinement, map, sample kind, operator) compared at every sample point with the numpy reference, tolerance 1e-10 x magnitude. '
        'non-trivial/distinct = distinct case whose expected values are not identically zero and that compared >= 1 point')
ASSUMPTIONS = ['the mesh generator coordinate x0 (piecewise affine) and element indices f_index evaluated on a sample are taken from nutils (covered by C11/C12); everything differential is recomputed by hand',
               'quadrature weights of the reference elements are taken from nutils.points (C09); Gauss degree 6 is exact for every integrand (degree <= 6), inexact-scheme warnings are turned into errors',
               'geometry maps have |det| >= 0.75 on the domains used, so the tolerance 1e-10 x magnitude is four orders above round-off',
               'the orientation of the exterior normal of a manifold (normal(geom, refgeom)) is only required to be consistent over the topology and its refinements, not to follow a particular handedness',
               'curvature() and surface laplace on curved manifolds are not checked (no polynomial closed form)']
BUDGET_S = {'quick': 900, 'thorough': 3600}     # wall-clock guard only (VERIF_BUDGET_S overrides); ~110 s / ~12 min on 16 idle cores

# measured CPU seconds per (refinement, map) over all sample kinds (used only to cut shards of similar cost)
COST = {'line2': .9, 'rect21': 2.4, 'rect22': 2.5, 'per22': 2.5, 'tri2': 2.7, 'mix2': 2.8, 'box111': 3.8, 'box211': 3.9, 'tets6': 3.7,
        'curve': .9, 'surf': 3.4, 'surftri': 3.4, 'prod': 9.8}


def _refs(name, tier):
    refs = cases.refinements(name, tier)
    if tier == 'quick':
        if cases.NELEMS.get(name, 0) > 4:
            refs = [r for r in refs if r[0] != 'by' or len(r[1]) <= 1]
        if name == 'prod':
            keepx = (['none'], ['uniform'], ['by', [0]])
            keepy = (['none'], ['by', [1]])
            refs = [r for r in refs if r[1] in keepx and r[2] in keepy]
    return refs


def shards(tier, seed):
    target = 16. if tier == 'quick' else 70.
    out = []
    for name in cases.TOPOS:
        refs = _refs(name, tier)
        per = max(1, int(target / COST[name]))
        nchunks = -(-len(refs) // per)
        size = -(-len(refs) // nchunks)
        for mp in cases.map_names(name, tier):
            for i in range(0, len(refs), size):
                out.append({'topo': name, 'map': mp, 'refs': refs[i:i + size]})
    return out


def _refclass(ref):
    if ref[0] == 'prod':
        return 'prod-' + _refclass(ref[1]) + '-' + _refclass(ref[2])
    return {'none': 'none', 'uniform': 'uniform', 'by': 'hier', 'by2': 'hier2'}[ref[0]]


def _key(cfg, op):
    return '{}:{}:{}:{}'.format(op, cfg['kind'], cases.FAMILY[cfg['topo']], _refclass(cfg['ref']))


def run_shard(spec, tier, seed):
    res = core.ShardResult()
    model.selfcheck()
    name = spec['topo']
    for ref in spec['refs']:
        for kind in cases.kinds_for(name):
            cfg = {'topo': name, 'ref': ref, 'map': spec['map'], 'kind': kind}
            results = cases.run_config(cfg)
            res.count('configurations')
            nok = 0
            for op, status, detail in results:
                res.count('evaluations')
                if status == 'fail':
                    res.violation(_key(cfg, op), '{} | {}'.format(json.dumps(cfg), detail), dict(cfg, op=op))
                elif status == 'ok':
                    nok += 1
                    res.distinct('distinct_nontrivial', json.dumps([name, ref, spec['map'], kind, op]))
                    res.distinct('distinct_operator_cases', json.dumps([cases.FAMILY[name], kind, op]))
                else:
                    res.count('trivial_cases')
            res.count('cases_' + kind, nok)
            res.sample({'config': cfg, 'operators_checked': [op for op, status, detail in results if status == 'ok']})
    return res


def replay(w):
    cfg = {k: w[k] for k in ('topo', 'ref', 'map', 'kind')}
    results = cases.run_config(cfg, only=w.get('op'))
    for op, status, detail in results:
        if status == 'fail':
            return detail
    return None


def finalize(cov, tier):
    cov['explanation'] = ('every case evaluates the real nutils operators on a real sample of the (refined) topology and compares all points with the numpy model; '
                          'distinct_operator_cases counts distinct (topology family, sample kind, operator) triples')
    cov['tolerance'] = cases.TOL
