'''C17 - structural identity and hashing are injective and stable.

Part 1 (exploration): a bounded-exhaustive corpus of immutable values, each
described by a JSON spec with a hand-written structural canon (vmc/c17_corpus.py,
vmc/c17_values.py).  Every value is built by every construction route; all
routes must give ONE nutils_hash of 20 bytes (stability, incl. pickle round
trip and child interpreters under PYTHONHASHSEED 0/1/12345) and two values
with different canons must never share a hash (injectivity, all pairs).

Part 2 (model checking): interning as a history state space
(vmc/c17_intern.py): all event sequences create/drop/gc/pickle up to a depth
over a few values x routes per interned class, including Python-equal but
type-different parameters (1, 1.0, True); identity and history independence
invariants are checked on the real classes after every event.
'''

import os, sys, json, subprocess
from .. import core
from .. import c17_corpus as cc, c17_values as cv, c17_objects as co, c17_intern as ci

LEVEL = 'model_checking'
RULE = ('corpus: atoms (None, Ellipsis, bools, ints to 2**64 and 10**30, floats incl. -0.0/nan/inf/subnormal, complex, str, bytes, type objects incl. same-named classes), '
        'numpy scalars of every signed/float/complex width as routes of the Python atom, containers of depth<=2 and size<=2 (tuple, list, set, frozenset, dict) incl. nesting-boundary pairs, '
        'ndarrays over 25 dtype/byte-order combinations x 13 shapes (0-d, zero-size, 1..3-d) x 3 data patterns in 6 memory layouts, arraydata (4 kinds x shapes x patterns; sources list/int8..int64/uint8..uint64/'
        'float16/32/longdouble/complex64/big-endian/strided/read-only/reshape), frozendict, frozenmultiset (multiplicities to 11), hashable_function, util.function, BytesIO, SI quantities, '
        'user Immutable/Singleton/DataClass classes (positional/keyword/defaulted), dataclass and namedtuple instances incl. same-named classes, bound methods, evaluable terms of depth<=2 over 5 leaves / 9 unary / 6 binary '
        'constructors plus root-only nodes (commutative nodes in both operand orders and through add()/+), transform items, references, points, reference/points/transform sequences, solver method objects, '
        'and objects derived from 13 small topologies and 7 solver Systems (references, transforms, opposites, samples, points sequences, lowered integrals). '
        'Every value x every route (variants, pickle, child process per hash seed) is one evaluation; injectivity is decided for ALL pairs of values through a hash join. '
        'non-trivial = distinct value that has >= 2 routes, or a distinct interning history. interning: all histories over create(value, route)/drop/gc/pickle of depth<=4 (thorough: 5 over 2 routes, 4 over all routes) '
        'for 11 subjects of 3-4 values x 2-4 routes; states = distinct (live slot values, dropped-not-collected values)')
ASSUMPTIONS = ['same(v,w) is the hand-written canon of the spec language: type exact, numpy scalars identified with the Python scalar of equal value (documented normalisation), NaN == NaN, -0.0 != 0.0, '
               'containers by structure, sets/dicts/multisets unordered, ndarrays by (dtype incl. byte order, shape, elements) irrespective of memory layout, constructor calls by class and full parameter list',
               'unsigned and non-numeric numpy scalars, numpy scalars that are not exactly representable as a Python scalar (longdouble excess precision), object/structured arrays and '
               'metaclass-typed classes are outside the supported domain of nutils_hash (loud TypeError/KeyError) and not in the corpus',
               'pickle is not a route for big-endian ndarrays (numpy itself normalises the byte order for protocol < 5), for functions and for classes that cannot be imported by name',
               'objects derived from meshes and Systems are compared among themselves only where a behavioural description through public attributes differs; they are not compared with constructor terms',
               'every hash is computed with no other corpus object alive, so that the interning defect (part 2) cannot leak into the corpus verdicts']
BUDGET_S = {'quick': 1800, 'thorough': 3600}   # wall-clock guards only (the box is shared); CPU: quick ~8 min, thorough ~25 min summed over all workers
SEEDS = (0, 1, 12345)


def shards(tier, seed):
    out = []
    for name in ci.subjects(tier):
        for i in range(ci.nfirst(name, tier)):
            out.append({'kind': 'intern', 'subject': name, 'first': i})
    nb = len(cv.blocks(tier))
    for i in range(nb):
        out.append({'kind': 'corpus', 'block': i})
    for i in range(nb):
        for s in SEEDS:
            out.append({'kind': 'child', 'block': i, 'seed': s})
    return out


# ------------------------------------------------------------------ hashing helpers

def hash_of(spec, route):
    '''build by the route, hash, drop the object; returns ('ok', bytes) / ('bad', description) / ('raise', exception name);
    construction errors come back as ('build', exception name)'''
    from nutils import types
    try:
        obj = cc.build_route(spec, route)
    except Exception as e:
        return ('build', '{}: {}'.format(type(e).__name__, str(e)[:200]))
    if route != 'pickle' and spec[0] not in ('arraydata', 'frozendict', 'frozenmultiset'):
        # self check of the builder on plain Python / numpy values (nutils' own containers are judged by their hashes only)
        try:
            vc = cc.vcanon(obj)
        except Exception:
            vc = None  # a nutils container nested in a plain one could not be read back
        if vc is not None and cc._jkey(vc) != cc.ckey(spec):
            raise core.HarnessError('route {} of {} built {}'.format(route, cc.expr(spec), vc))
    try:
        h = types.nutils_hash(obj)
    except Exception as e:
        return ('raise', type(e).__name__)
    finally:
        obj = None
    if not isinstance(h, bytes) or len(h) != 20:
        return ('bad', '{} of length {}'.format(type(h).__name__, len(h) if hasattr(h, '__len__') else '?'))
    return ('ok', h)


_V0 = {}


def v0_table(tier, block):
    key = tier, block
    if key not in _V0:
        vals = cv.corpus(tier)
        _V0[key] = [hash_of(vals[vid]['spec'], 'v0') for vid in cv.blocks(tier)[block][1]]
    return _V0[key]


def nodename(s):
    return '{}:{}'.format(s[0], s[1]) if s[0] in ('obj', 'inst') else s[0]


def minimal_unstable(s, route):
    'descend to the smallest sub-spec whose route hash differs from its v0 hash'
    for c in cc._children(s):
        if route == 'pickle' and not cc.pickle_ok(c):
            continue
        a, b = hash_of(c, 'v0'), hash_of(c, route)
        if a != b:
            return minimal_unstable(c, route)
    return s


# ------------------------------------------------------------------ collision classification

def first_difference(a, b):
    'innermost pair of differing sub-canons and a label for the kind of difference'
    if a[0] != b[0]:
        return '~'.join(sorted([a[0], b[0]])), a, b
    t = a[0]
    if t in ('tuple', 'list', 'set', 'frozenset', 'frozenmultiset', 'dict', 'frozendict'):
        if len(a[1]) != len(b[1]):
            return t + ':length', a, b
        for x, y in zip(a[1], b[1]):
            if x != y:
                if t in ('dict', 'frozendict'):
                    return first_difference(x[0], y[0]) if x[0] != y[0] else first_difference(x[1], y[1])
                return first_difference(x, y)
    if t == 'ndarray':
        return 'ndarray:' + ('dtype' if a[1] != b[1] else 'shape' if a[2] != b[2] else 'data'), a, b
    if t == 'arraydata':
        return 'arraydata:' + ('dtype' if a[1] != b[1] else 'shape' if a[2] != b[2] else 'data'), a, b
    if t in ('obj', 'inst'):
        if a[1] != b[1]:
            return t + ':class', a, b
        if [p for p, x in a[2]] != [p for p, x in b[2]]:
            return t + ':fields', a, b
        for (p, x), (q, y) in zip(a[2], b[2]):
            if x != y:
                return first_difference(x, y)
    if t in ('hfunc', 'method') and a[1] != b[1]:
        return first_difference(a[1], b[1])
    return t + ':value', a, b


_DELEGATES = {'hashable_function': ('hfunc', None), 'Direct': ('obj', 'solver.Direct'), 'Newton': ('obj', 'solver.Newton'), 'ReuseNewton': ('obj', 'solver.ReuseNewton'),
              'LinesearchNewton': ('obj', 'solver.LinesearchNewton'), 'Minimize': ('obj', 'solver.Minimize'), 'Pseudotime': ('obj', 'solver.Pseudotime')}


def collision_key(sa, sb):
    label, a, b = first_difference(cc.canon(sa), cc.canon(sb))
    if a[0] == b[0] == 'type':
        ta, tb = cc._types()[a[1]], cc._types()[b[1]]
        if ta is not tb and ta.__name__ == tb.__name__:
            return 'collision:type-identified-by-__name__'
    if a[0] == b[0] == 'inst' and a[1] != b[1]:
        ca, cb = cc._inst_classes()[a[1]], cc._inst_classes()[b[1]]
        if ca.__name__ == cb.__name__:
            return 'collision:instance-class-identified-by-__name__'
    for x, y in ((a, b), (b, a)):
        if x[0] == 'tuple' and x[1] and x[1][0][0] == 'str' and x[1][0][1] in _DELEGATES:
            t, ctor = _DELEGATES[x[1][0][1]]
            if y[0] == t and (ctor is None or y[1] == ctor):
                return 'collision:object-hash-is-hash-of-plain-tuple:{}'.format('hashable_function' if t == 'hfunc' else 'solver-method')
    return 'collision:' + label


def undecidable(va, vb):
    'pairs for which the harness has no independent verdict on structural difference'
    ma, mb = va['spec'][0] == 'mesh', vb['spec'][0] == 'mesh'
    if ma and mb:
        return _observe(va['spec']) == _observe(vb['spec'])
    if ma or mb:
        other = vb if ma else va
        return other['fam'] in ('geometry', 'eval1', 'eval2', 'solver', 'class')
    return False


_OBS = {}


def _observe(spec):
    k = spec[1]
    if k not in _OBS:
        _OBS[k] = json.dumps(co.observe(cc.build(spec, 0)))
    return _OBS[k]


# ------------------------------------------------------------------ shards

def run_shard(spec, tier, seed):
    res = core.ShardResult()
    if spec['kind'] == 'intern':
        ci.run_shard(spec, tier, res)
    elif spec['kind'] == 'corpus':
        _run_corpus(spec, tier, res)
    else:
        _run_child(spec, tier, res)
    return res


def _judge_single(v, route, out, res):
    'violations that concern one value on one route; returns the hash or None'
    s = v['spec']
    if out[0] == 'ok':
        return out[1]
    w = {'kind': 'single', 'spec': s, 'route': route}
    if out[0] == 'build':
        res.violation('route-raises:{}:{}'.format(nodename(s), out[1].split(':')[0]), 'building {} by route {} raises {}'.format(cc.expr(s), route, out[1]), w)
    elif out[0] == 'raise':
        res.violation('hash-raises:{}:{}'.format(nodename(s), out[1]), 'nutils_hash({}) [route {}] raises {}'.format(cc.expr(s), route, out[1]), w)
    else:
        res.violation('badhash:{}'.format(nodename(s)), 'nutils_hash({}) [route {}] is {}, not 20 bytes'.format(cc.expr(s), route, out[1]), w)
    return None


def _run_corpus(spec, tier, res):
    vals = cv.corpus(tier)
    blocks = cv.blocks(tier)
    i = spec['block']
    ids = blocks[i][1]
    own = v0_table(tier, i)
    # (1) stability over the in-process routes
    for vid, out0 in zip(ids, own):
        v = vals[vid]
        s = v['spec']
        routes = cc.routes(s)
        res.count('evaluations', len(routes))
        res.distinct('routes_used', nodename(s) + routes[-1] + str(len(routes)))
        h0 = _judge_single(v, 'v0', out0, res)
        if len(routes) > 1:
            res.distinct('distinct_nontrivial', v['key'])
        if len(res.samples) < 3 and len(routes) > 3:
            res.sample({'value': cc.expr(s)[:200], 'routes': routes, 'hash': h0.hex() if h0 else None})
        for route in routes[1:]:
            h = _judge_single(v, route, hash_of(s, route), res)
            if h is not None and h0 is not None and h != h0:
                m = minimal_unstable(s, route)
                res.violation('unstable:{}:{}'.format(nodename(m), cc.variant_label(m, route)), 'nutils_hash of {} depends on the construction route: v0 -> {}, {} -> {} (smallest unstable part: {})'.format(
                    cc.expr(s)[:300], h0.hex(), route, h.hex(), cc.expr(m)[:300]), {'kind': 'unstable', 'spec': m, 'routes': ['v0', route]})
    # (2) injectivity: own block against every block j >= i, joined on the hash
    index = {}
    for vid, out in zip(ids, own):
        if out[0] == 'ok':
            index.setdefault(out[1], []).append(vid)
    for j in range(i, len(blocks)):
        other_ids = blocks[j][1]
        other = own if j == i else v0_table(tier, j)
        res.count('pairs_compared', len(ids) * (len(ids) - 1) // 2 if j == i else len(ids) * len(other_ids))
        for vid, out in zip(other_ids, other):
            if out[0] != 'ok':
                continue
            for a in index.get(out[1], ()):
                if a >= vid:
                    continue
                va, vb = vals[a], vals[vid]
                if undecidable(va, vb):
                    res.count('pairs_without_independent_verdict')
                    continue
                res.violation(collision_key(va['spec'], vb['spec']), 'nutils_hash collision: {} and {} are structurally different and both hash to {}'.format(
                    cc.expr(va['spec'])[:400], cc.expr(vb['spec'])[:400], out[1].hex()), {'kind': 'collision', 'a': va['spec'], 'b': vb['spec']})
    # adversarial near-pairs inside this block (vacuity guard): Python-equal but structurally different values
    groups = {}
    for vid in ids:
        groups.setdefault(cc._jkey(ci._pykey(cc.canon(vals[vid]['spec']))), []).append(vid)
    for g in groups.values():
        if len(g) > 1:
            res.count('python_equal_type_different_pairs', len(g) * (len(g) - 1) // 2)
            res.distinct('distinct_nontrivial', 'peq' + vals[g[0]]['key'])


def child_hashes(specs, routes, seed):
    'hashes of the specs computed in a fresh interpreter with the given PYTHONHASHSEED; list of [tag, hex or text] per spec and route'
    env = dict(os.environ, PYTHONHASHSEED=str(seed))
    p = subprocess.run([sys.executable, '-W', 'ignore', '-c', 'from vmc.checks import c17; c17.child_main()'], input=json.dumps({'specs': specs, 'routes': routes}),
                       capture_output=True, text=True, env=env, cwd=core.HERE, timeout=1500)
    if p.returncode != 0:
        raise core.HarnessError('child interpreter failed: {}'.format(p.stderr[-1500:]))
    out = json.loads(p.stdout.strip().splitlines()[-1])
    if out['hashseed'] != str(seed):
        raise core.HarnessError('child ran with PYTHONHASHSEED={}'.format(out['hashseed']))
    return out['hashes']


def child_main():
    req = json.load(sys.stdin)
    out = []
    for s in req['specs']:
        row = []
        for r in req['routes']:
            if r == 'pickle' and not cc.pickle_ok(s):
                row.append(['skip', ''])
                continue
            o = hash_of(s, r)
            row.append([o[0], o[1].hex() if o[0] == 'ok' else o[1]])
        out.append(row)
    print(json.dumps({'hashseed': os.environ.get('PYTHONHASHSEED'), 'hashes': out}))


CHILD_ROUTES = ['v0', 'v1', 'pickle']


def _run_child(spec, tier, res):
    vals = cv.corpus(tier)
    ids = cv.blocks(tier)[spec['block']][1]
    own = v0_table(tier, spec['block'])
    rows = child_hashes([vals[vid]['spec'] for vid in ids], CHILD_ROUTES, spec['seed'])
    if len(rows) != len(ids):
        raise core.HarnessError('child returned {} rows for {} values'.format(len(rows), len(ids)))
    for vid, out0, row in zip(ids, own, rows):
        v = vals[vid]
        s = v['spec']
        for route, (tag, text) in zip(CHILD_ROUTES, row):
            if tag == 'skip':
                continue
            res.count('evaluations')
            res.count('child_process_evaluations')
            res.distinct('distinct_nontrivial', v['key'])
            if out0[0] != 'ok':
                continue  # reported by the corpus shard
            if tag != 'ok' or text != out0[1].hex():
                res.violation('unstable:{}:child-process'.format(nodename(s)), 'nutils_hash of {} is {} in this process and {} {} in a child interpreter (route {}, PYTHONHASHSEED={})'.format(
                    cc.expr(s)[:300], out0[1].hex(), tag, text, route, spec['seed']), {'kind': 'child', 'spec': s, 'route': route, 'seed': spec['seed']})
    res.sample({'child_process': {'PYTHONHASHSEED': spec['seed'], 'block': cv.blocks(tier)[spec['block']][0], 'values': len(ids), 'routes': CHILD_ROUTES}})


# ------------------------------------------------------------------ replay

def replay(w):
    kind = w['kind']
    if kind == 'history':
        return ci.replay(w)
    if kind == 'single':
        out = hash_of(w['spec'], w['route'])
        return None if out[0] == 'ok' else '{} [route {}]: {} {}'.format(cc.expr(w['spec'])[:400], w['route'], out[0], out[1])
    if kind == 'unstable':
        outs = [hash_of(w['spec'], r) for r in w['routes']]
        if all(o[0] == 'ok' for o in outs) and len(set(o[1] for o in outs)) == 1:
            return None
        return 'nutils_hash of {} by routes {}: {}'.format(cc.expr(w['spec'])[:400], w['routes'], [o[1].hex() if o[0] == 'ok' else o for o in outs])
    if kind == 'collision':
        a, b = hash_of(w['a'], 'v0'), hash_of(w['b'], 'v0')
        if cc.ckey(w['a']) == cc.ckey(w['b']):
            raise core.HarnessError('witness values are structurally equal')
        if a[0] == 'ok' and b[0] == 'ok' and a[1] == b[1]:
            return 'nutils_hash({}) == nutils_hash({}) == {}'.format(cc.expr(w['a'])[:400], cc.expr(w['b'])[:400], a[1].hex())
        return None
    if kind == 'child':
        here = hash_of(w['spec'], 'v0')
        tag, text = child_hashes([w['spec']], [w['route']], w['seed'])[0][0]
        if here[0] == 'ok' and tag == 'ok' and text == here[1].hex():
            return None
        return 'nutils_hash of {}: {} here, {} {} in a child interpreter with PYTHONHASHSEED={} (route {})'.format(
            cc.expr(w['spec'])[:400], here[1].hex() if here[0] == 'ok' else here, tag, text, w['seed'], w['route'])
    raise core.HarnessError('unknown witness kind {!r}'.format(kind))


def finalize(cov, tier):
    cov['states'] = cov.get('distinct_states', 0)
    cov.setdefault('transitions', 0)
    cov.setdefault('traces_validated_against_impl', cov.get('transitions', 0))
    cov['corpus_values'] = len(cv.corpus(tier))
    cov['explanation'] = ('states/transitions/traces refer to the interning histories (every history is executed on the real classes); evaluations = hash computations '
                          '(value x route, in process and in child interpreters) + history executions; pairs_compared = pairs of distinct values decided by the hash join')
