'''C14 - solvers return a certified solution or raise.

Bounded exhaustive enumeration of solver requests on the real code, each judged
by an independent dense numpy recomputation:

 (a) lin   Matrix.solve: every small matrix x constraint pattern x rhs x lhs0 x
           solver x preconditioner x tolerance; ordered pairs of solves on one
           matrix object (submatrix / preconditioner caches)      -> vmc/c14_lin.py
 (b) nl    System.solve and the legacy wrappers over a finite residual family
           x method x tol x maxiter x miniter x initial guess x constraints
 (c) step  all sequences of <= 3 System.step calls (timestep x maxretry) with
           every internal solve recorded and validated (bisection retries)
                                                                   -> vmc/c14_nl.py
 (d) cons  System.solve_constraints / optimize(droptol) / Topology.project over
           small functionals x droptol x constraints               -> vmc/c14_cons.py
'''

import numpy
from .. import core
from .. import c14_lin as lin
from .. import c14_nl as nl
from .. import c14_cons as cons

LEVEL = 'exploration'
RULE = ('(a) Matrix.solve, numpy and scipy backends: ALL 1x1 and 2x2 matrices over {0,1,-1,2} (thorough: {0,1,-1,2,1/2}) plus 17 named 3x3, 14 ill-conditioned/extreme-scale and 6 '
        'rectangular matrices (thorough adds all symmetric, upper-triangular and cyclic-tridiagonal 3x3 matrices over {0,1,-1,2}); requests = {no constraint, every boolean mask, '
        'every NaN-float pattern} x rhs {None, e_0, ones, 2-column (thorough: all e_i, zeros)} x lhs0 {None, fixed, ones (thorough: zeros)} x every solver/preconditioner pair of '
        'the backend (5 numpy, 15-18 scipy, 3 invalid) x (atol,rtol) in 6 pairs (thorough: {0,1e-10,1e-3,10}^2); quick tier = union of two full products (all constraints x all '
        'rhs x all lhs0 x 2 solvers x 2 tolerances; 3 constraints x 2 rhs x 2 lhs0 x all solvers x all tolerances), thorough = one full product; one fresh matrix object per '
        'request, plus ALL ordered pairs of (constrain, rconstrain) selections and of solver configurations on ONE object (submatrix / preconditioner caches). '
        '(b) System.solve on 22 residual/energy problems (linear regular/singular, u^2-a, coupled quadratic, exp, log, sqrt, arctan, cycling cubic, convex and non-convex '
        'energies) x 10 methods x tol {0,1e-10,1e-3} x maxiter {1,3,25} x miniter {0,2} x 1-4 initial guesses x {no constraint, every boolean mask, every NaN-float pattern}; '
        'legacy solve_linear/newton/minimize/pseudotime/optimize/solve_withinfo on a slice (thorough: everything). (c) every sequence of <=3 (thorough 4) System.step calls over '
        '3 timesteps x maxretry {0,1,2} for 6 scalar ODEs x 3 solve settings, every internal solve recorded and validated against the retry-tree model. (d) solve_constraints for '
        'all 64 weight vectors over {1,1e-4,1e-14,0} x 3 couplings x droptol {0,1e-12,1e-3,10} x 15 constraint patterns x 2 initial guesses, optimize(droptol) on a slice, '
        'Topology.project (lsqr, convolute) over sub-domains x {0,1,x} x geometry scales x droptol x pre-existing constraints. non-trivial = distinct request with >=1 free dof '
        'and non-zero reduced right-hand side (a), distinct supported request with >=1 free dof (b), distinct validated step sequence (c), distinct request with >=1 free dof (d)')
ASSUMPTIONS = ['dense numpy arithmetic (matmul, norm, cond, inv) is the reference; residuals of the nonlinear family are re-evaluated by hand-written numpy formulas',
               'a requested tolerance t is accepted as met when the recomputed residual <= t*(1+1e-9) + 1e-12*(|A||x|+|b|)',
               'with atol=rtol=0 a residual <= 1e-7*(|A|(|x|+|x0|)+|b|) is demanded only when the reduced matrix has condition number < 1e6',
               'backends: numpy always, scipy when importable from /verif/.deps (MKL not installed)',
               'matrices / answers whose residual norm (a sum of squares) is not representable (|A||x|+|b| >= 1e150, or <= 1e-150 for the lhs0 comparison) are only checked for finiteness and constraints',
               'a request that runs longer than 60 s is counted as a timeout, not judged (hangs are not this property)',
               'miniter > 1 is not requested from the finite-stage Arnoldi method; complex-valued systems, rconstrain without constrain and rconstrain combined with float constraints (rejected by an assert) are not enumerated']
BUDGET_S = {'quick': 1500, 'thorough': 6000}

_quiet = None


def quiet():
    'silence treelog in this process (keep the context manager alive: finalising it would restore the old log)'
    global _quiet
    if _quiet is None:
        import treelog
        _quiet = treelog.set(treelog.NullLog())
        _quiet.__enter__()


def _chunks(seq, n):
    seq = list(seq)
    k = max(1, -(-len(seq) // n))
    return [seq[i:i + k] for i in range(0, len(seq), k)]


def _lin_family(name, tier):
    if name == 'small':
        return list(lin.small_matrices(lin.ALPHA if tier == 'thorough' else lin.ALPHA[:4]))
    if name == 'small-hist':
        return list(lin.small_matrices(lin.ALPHA[:4] if tier == 'thorough' else [0., 1., 2.]))
    if name == 'f3':
        return list(lin.F3.values())
    if name == 'f3-hist':
        return [lin.F3[k] for k in ('spd-tridiag', 'nonsym-dense', 'singular-block', 'upper')] if tier == 'quick' else list(lin.F3.values())
    if name == 'ill':
        return list(lin.ILL.values())
    if name == 'rect':
        return list(lin.RECT.values())
    alpha = [0., 1., -1., 2.]
    if name == 'sym3':
        return list(lin.sym3(alpha))
    if name == 'sym3-small':
        return list(lin.sym3(alpha[:3]))
    if name == 'upper3':
        return list(lin.upper3(alpha))
    if name == 'cyc3':
        return list(lin.cyc3(alpha))
    raise core.HarnessError(name)


def _lin_shards(tier):
    out = []

    def add(mode, backend, family, n):
        for i in range(n):
            out.append({'part': 'lin', 'mode': mode, 'backend': backend, 'family': family, 'chunk': [i, n]})
    th = tier == 'thorough'
    for backend in lin.backends():
        sp = backend == 'scipy'
        add('product', backend, 'small', (12 if sp else 8) * (8 if th else 1))
        add('history', backend, 'small-hist', 4 * (4 if th else 1))
        add('product', backend, 'f3', 3 * (4 if th else 1))
        add('product', backend, 'ill', 2 * (4 if th else 1))
        add('history', backend, 'f3-hist', 4 if th else 1)
        add('history', backend, 'rect', 2)
        add('invalid', backend, 'small', 1)
        if th:
            for fam in (('sym3', 'upper3', 'cyc3') if not sp else ('sym3-small',)):
                add('product', backend, fam, 48 if not sp else 24)
    return out


NL_BUCKETS = {'A': ['default', 'direct', 'newton', 'reuse', 'arnoldi'], 'B': ['ls-norm', 'ls-median', 'pseudo1', 'pseudo100'], 'C': ['minimize'], 'L': []}


def _nl_shards(tier):
    out = []
    for i, (spec, guesses) in enumerate(nl.problems(tier)):
        prob = nl.Problem(spec)
        for bucket in NL_BUCKETS:
            if bucket == 'C' and not prob.functional:
                continue
            out.append({'part': 'nl', 'problem': i, 'fam': spec['fam'], 'bucket': bucket})
    return out


def _step_shards(tier):
    out = []
    for name, ode in nl.ODES.items():
        for mname in nl.STEP_METHODS:
            out.append({'part': 'step', 'ode': name, 'method': mname})
    return out


def _cons_shards(tier):
    out = [{'part': 'cons', 'chunk': [i, 8]} for i in range(8)]
    for n in ((2,) if tier == 'quick' else (1, 2, 3)):
        for sub in cons.SUBS:
            out.append({'part': 'project', 'n': n, 'sub': sub})
    return out


def shards(tier, seed):
    # simplest first: linear solves, constraint projection, nonlinear solves, time steps
    return _lin_shards(tier) + _cons_shards(tier) + _nl_shards(tier) + _step_shards(tier)


def run_shard(spec, tier, seed):
    quiet()
    res = core.ShardResult()
    part = spec['part']
    if part == 'lin':
        mats = _lin_family(spec['family'], tier)
        i, n = spec['chunk']
        mats = mats[i::n]
        if spec['mode'] == 'product':
            lin.explore_products(res, spec['backend'], mats, tier, spec['family'])
        elif spec['mode'] == 'history':
            lin.explore_histories(res, spec['backend'], mats, tier)
        else:
            lin.explore_invalid(res, spec['backend'], mats, tier)
    elif part == 'nl':
        pspec, guesses = nl.problems(tier)[spec['problem']]
        bucket = spec['bucket']
        methods = NL_BUCKETS[bucket] + (['minimize'] if bucket == 'B' and not nl.Problem(pspec).functional else [])
        nl.explore(res, pspec, guesses, tier, methods, nl.LEGACY if bucket == 'L' else [])
    elif part == 'step':
        for depth in (1, 3 if tier == 'quick' else 4):  # single steps first so that the shortest witness of a defect is among the first recorded
            for T in nl.ODES[spec['ode']]['steps']:
                for K in (0, 1, 2):
                    nl.explore_steps(res, spec['ode'], spec['method'], tier, [T, K], depth=depth)
    elif part == 'cons':
        cons.explore_functionals(res, spec['chunk'], tier)
    elif part == 'project':
        cons.explore_project(res, spec['n'], spec['sub'], tier)
    else:
        raise core.HarnessError('unknown shard {}'.format(spec))
    return res


def replay(w):
    quiet()
    part = w['part']
    if part == 'lin':
        return lin.replay(w)
    if part == 'nl':
        return nl.replay(w)
    if part == 'step':
        return nl.replay_step(w)
    if part == 'cons':
        return cons.replay_functional(w)
    if part == 'project':
        return cons.replay_project(w)
    raise core.HarnessError('unknown witness {}'.format(w))


def finalize(cov, tier):
    cov.setdefault('states', 0)
    cov.setdefault('transitions', 0)
    cov.setdefault('traces_validated_against_impl', 0)
    cov['backends'] = lin.backends()
    cov['explanation'] = ('every request is executed on the real nutils objects; evaluations = requests judged, transitions = solves executed (incl. the internal solves of '
                          'time steps), traces_validated_against_impl = requests / step sequences whose complete outcome satisfied the oracle')
