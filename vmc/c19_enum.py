'''C19: bounded-exhaustive enumeration of abstract syntax trees.

A *template* is a tree whose index positions are '#' placeholders and whose
leaves may be shape-class placeholders.  Templates are all trees with at most
`maxops` semantic operators (parentheses that precedence requires are inserted
automatically and are not counted; redundant parentheses are an operator).
Every template is instantiated with every assignment of its index positions:
letters up to renaming (restricted growth strings) and numerals, and kept if
the typing rules of c19_ast accept it.
'''

import itertools
from . import c19_ast as A
from . import c19_ns as NS

LETTERS = 'ijklmn'

# shape classes -> variable names, used round-robin by order of occurrence in multi-operator templates
CLASSES = {'@S': ['a', 'c'], '@V2': ['u', 'w'], '@V3': ['v'], '@M22': ['A'], '@M23': ['B'], '@T': ['T']}
NDIM = {'@S': 0, '@V2': 1, '@V3': 1, '@M22': 2, '@M23': 2, '@T': 3}


def wrap(node, maxlevel):
    return node if A.level(node) <= maxlevel else ('scope', node)


def var(name):
    nd = NDIM[name] if name in NDIM else (1 if name in ('x', 'n') else len(NS.SHAPES[name]))
    return ('var', name, '#' * nd)


# ------------------------------------------------------------------ operators

def unary_ops(version, tier):
    ops = []
    ops.append(('neg', lambda X: ('add', ['-'], [wrap(X, 3)])))
    ops.append(('scope', lambda X: ('scope', X)))
    ops.append(('jump', lambda X: ('jump', X)))
    ops.append(('mean', lambda X: ('mean', X)))
    ops.append(('f', lambda X: ('call', 'f', '', '', [X])))
    ops.append(('g', lambda X: ('call', 'g', '#', '', [X])))
    ops.append(('h', lambda X: ('call', 'h', '##', '', [X])))
    ops.append(('pow2', lambda X: ('pow', wrap(X, 0), ('int', '2'))))
    ops.append(('pow-1', lambda X: ('pow', wrap(X, 0), ('int', '-1'))))
    if version == 2:
        ops.append(('D', lambda X: ('call', 'D', '#', '', [X])))
    else:
        def gradop(kind):
            def op(X):
                item = X if X[0] in ('var', 'scope') else ('scope', X)
                if item[0] == 'var' and item[1] in ('n',):
                    return None
                return ('grad', item, kind, '#')
            return op
        ops.append(('grad', gradop(',')))
        ops.append(('surfgrad', gradop(';')))
        ops.append(('sumc', lambda X: ('call', 'sum', '', '#', [X])))

        def subsop(subs):
            def op(X):
                item = X if X[0] in ('var', 'arg', 'scope') else ('scope', X)
                return ('subs', item, subs)
            return op
        ops.append(('subs-p', subsop([['p', '', ('var', 'c', '')]])))
        ops.append(('subs-q', subsop([['q', '#', ('var', 'w', '#')]])))
        ops.append(('subs-pq', subsop([['p', '', ('mul', [('num', '2'), ('var', 'c', '')])], ['q', '#', ('var', 'w', '#')]])))
    return ops


def binary_ops(version, tier):
    ops = []
    for signs in (['', '+'], ['', '-'], ['-', '+'], ['-', '-']):
        ops.append(('add' + ''.join(s or '0' for s in signs), (lambda signs: lambda X, Y: ('add', list(signs), [wrap(X, 3), wrap(Y, 3)]))(signs)))

    def mul(X, Y):
        if _numlike(Y):
            return None
        return ('mul', [wrap(X, 1), wrap(Y, 1)])
    ops.append(('mul', mul))
    ops.append(('frac', lambda X, Y: ('frac', wrap(X, 2), wrap(Y, 2))))
    ops.append(('powx', lambda X, Y: ('pow', wrap(X, 0), ('scope', Y))))
    if version == 1:
        ops.append(('stack', lambda X, Y: ('stack', [X, Y], '#')))
        ops.append(('m', lambda X, Y: ('call', 'm', '', '', [X, Y])))
    return ops


def ternary_ops(version, tier):
    ops = []
    combos = [['', '+', '+'], ['', '+', '-'], ['', '-', '+'], ['-', '-', '-']] if tier == 'quick' else \
        [[a, b, c] for a in ('', '-') for b in '+-' for c in '+-']
    for signs in combos:
        ops.append(('add3' + ''.join(s or '0' for s in signs), (lambda signs: lambda X, Y, Z: ('add', list(signs), [wrap(X, 3), wrap(Y, 3), wrap(Z, 3)]))(signs)))

    def mul3(X, Y, Z):
        if _numlike(Y) or _numlike(Z):
            return None
        return ('mul', [wrap(X, 1), wrap(Y, 1), wrap(Z, 1)])
    ops.append(('mul3', mul3))
    return ops


def _numlike(node):
    return node[0] == 'num' or (node[0] == 'pow' and node[1][0] == 'num')


# ------------------------------------------------------------------ leaves

def leaves_named(version):
    'every variable by name (templates with at most one operator)'
    out = [var(n) for n in ('a', 'c', 'u', 'v', 'w', 'A', 'B', 'T')]
    out += [('num', '2'), ('num', '0.5'), ('num', '.25'), ('num', '10'), var('x')]
    if version == 2:
        out.append(var('n'))
    else:
        out += [('normal', '#'), ('eye', '$', '##'), ('eye', 'δ', '##'), ('arg', 'p', ''), ('arg', 'q', '#'), ('arg', 'r', '##'), ('jac',)]
        out += [('call', 'sum', '', '', [('omit', n)]) for n in ('u', 'v', 'A', 'B', 'T')]
    return out


def leaves_class(version):
    'one placeholder per shape class (templates with two or more operators)'
    out = [var(c) for c in ('@S', '@V2', '@V3', '@M22', '@M23', '@T')] + [('num', '2')]
    if version == 1:
        out += [('normal', '#'), ('eye', '$', '##'), ('arg', 'p', ''), ('arg', 'q', '#')]
    return out


# ------------------------------------------------------------------ templates

def maxops_of(tier):
    return 2 if tier == 'quick' else 3


def templates(version, tier, want='all', part=0, of=1):
    '''yield (ops, template): ops = number of semantic operators.
    Templates with <=1 operator ('low') use named leaves (plus the three-operand
    sums and products over shape-class leaves); deeper ones ('high') shape-class
    leaves.  Only templates whose running number is part modulo of are built.'''
    maxops = maxops_of(tier)
    U = unary_ops(version, tier)
    B = binary_ops(version, tier)
    T3 = ternary_ops(version, tier)
    LC = leaves_class(version)
    counter = [0]

    def mine():
        counter[0] += 1
        return (counter[0] - 1) % of == part

    if want == 'corrupt':
        # small strings over shape-class leaves: the bases of the single-character corruptions in the quick tier
        for l in LC:
            if mine():
                yield 0, l
        for n, op in U:
            for l in LC:
                if mine():
                    t = op(l)
                    if t is not None:
                        yield 1, t
        for n, op in B:
            for x in LC:
                for y in LC:
                    if mine():
                        t = op(x, y)
                        if t is not None:
                            yield 1, t
        return
    if want in ('all', 'low', 'corrupt_full'):
        L1 = leaves_named(version)
        for l in L1:
            if mine():
                yield 0, l
        for n, op in U:
            for l in L1:
                if mine():
                    t = op(l)
                    if t is not None:
                        yield 1, t
        for n, op in B:
            for x in L1:
                for y in L1:
                    if mine():
                        t = op(x, y)
                        if t is not None:
                            yield 1, t
        if want == 'corrupt_full':
            return
        for n, op in T3:
            for x in LC:
                for y in LC:
                    for z in LC:
                        if mine():
                            t = op(x, y, z)
                            if t is not None:
                                yield 1, t
    if want == 'low':
        return
    # trees over class leaves by number of operators; level k = list of (template, nleaves)
    if tier == 'quick':
        # the twins of operators that stay (jump, ^2, gradient, single substitution) are exercised in the trees with one operator only
        U = [(n, op) for n, op in U if n not in ('mean', 'pow-1', 'surfgrad', 'subs-pq')]
    byops = {0: [(l, 1) for l in LC]}
    for nops in range(1, maxops + 1):
        maxleaves = 3 if nops <= 2 else 2     # trees with three operators (thorough tier) are chains over at most two leaves
        last = nops == maxops
        emit = nops >= 2
        cur = []

        def handle(t, nl):
            if t is not None and last and tier == 'quick' and nl >= 3 and has_space(t):
                return False    # quick tier: mesh dependent constructs (expensive to evaluate) only in trees with <=2 leaves
            if t is not None and opdepth(t) <= 3:
                if not last:
                    cur.append((t, nl))
                return True
            return False
        for n, op in U:
            for x, nl in byops[nops - 1]:
                if not last or mine():
                    t = op(x)
                    if handle(t, nl) and emit and (last or mine()):
                        yield nops, t
        for n, op in B:
            for i in range(nops):
                j = nops - 1 - i
                for x, nlx in byops[i]:
                    for y, nly in byops[j]:
                        if nlx + nly > maxleaves:
                            continue
                        if not last or mine():
                            t = op(x, y)
                            if handle(t, nlx + nly) and emit and (last or mine()):
                                yield nops, t
        for n, op in T3:
            if version == 1 and tier == 'quick' and nops >= 2:
                break
            for i in range(nops):
                for j in range(nops - i):
                    k = nops - 1 - i - j
                    for x, nlx in byops[i]:
                        for y, nly in byops[j]:
                            if nlx + nly + 1 > maxleaves:
                                continue
                            for z, nlz in byops[k]:
                                if nlx + nly + nlz > maxleaves:
                                    continue
                                if nops == 1:
                                    # the plain three-operand forms are emitted with the 'low' templates
                                    t = op(x, y, z)
                                    handle(t, nlx + nly + nlz)
                                    continue
                                if not last or mine():
                                    t = op(x, y, z)
                                    if handle(t, nlx + nly + nlz) and emit and (last or mine()):
                                        yield nops, t
        byops[nops] = cur


SPACE_KINDS = ('jump', 'mean', 'grad', 'normal', 'jac')


def has_space(node):
    'does the tree involve the mesh (gradient, jump, mean, normal, geometry)?'
    k = node[0]
    if k in SPACE_KINDS or (k == 'call' and node[1] == 'D') or (k == 'var' and node[1] in ('x', 'n')):
        return True
    return any(has_space(c) for c in children(node))


def opdepth(node):
    'depth in semantic operators + 1 (automatic parentheses do not count, a leaf has depth 1)'
    k = node[0]
    if k in ('num', 'var', 'arg', 'normal', 'eye', 'jac', 'omit', 'int'):
        return 1
    if k == 'call' and node[4] and node[4][0][0] == 'omit':
        return 1
    kids = children(node)
    d = max(opdepth(c) for c in kids)
    return 1 + d


def children(node):
    k = node[0]
    if k in ('scope', 'jump', 'mean'):
        return [node[1]]
    if k == 'call':
        return list(node[4])
    if k == 'grad':
        return [node[1]]
    if k == 'subs':
        return [node[1]] + [s[2] for s in node[2]]
    if k == 'stack':
        return list(node[1])
    if k == 'pow':
        return [node[1]] + ([node[2][1]] if node[2][0] == 'scope' else [])
    if k == 'mul':
        return list(node[1])
    if k == 'frac':
        return [node[1], node[2]]
    if k == 'add':
        return list(node[2])
    return []


# ------------------------------------------------------------------ instantiation

def count_slots(node):
    k = node[0]
    n = 0
    if k == 'var':
        n += node[2].count('#')
    elif k == 'arg':
        n += node[2].count('#')
    elif k == 'normal':
        n += node[1].count('#')
    elif k == 'eye':
        n += node[2].count('#')
    elif k == 'call':
        n += node[2].count('#') + node[3].count('#')
    elif k == 'grad':
        n += node[3].count('#')
    elif k == 'subs':
        for name, idx, e in node[2]:
            n += idx.count('#')
    elif k == 'stack':
        n += node[2].count('#')
    for c in children(node):
        n += count_slots(c)
    return n


class _Filler:
    def __init__(self, chars):
        self.chars = chars
        self.i = 0
        self.classcount = {}

    def fill(self, s):
        out = []
        for ch in s:
            if ch == '#':
                out.append(self.chars[self.i])
                self.i += 1
            else:
                out.append(ch)
        return ''.join(out)

    def name(self, n):
        if n in CLASSES:
            k = self.classcount.get(n, 0)
            self.classcount[n] = k + 1
            return CLASSES[n][k % len(CLASSES[n])]
        return n


def instantiate(node, chars):
    'fill the index placeholders in the order in which they appear in the rendered string'
    return _inst(node, _Filler(chars))


def _inst(node, f):
    k = node[0]
    if k in ('num', 'int', 'jac', 'omit'):
        return tuple(node)
    if k == 'var':
        name = f.name(node[1])
        return ('var', name, f.fill(node[2]))
    if k == 'arg':
        return ('arg', node[1], f.fill(node[2]))
    if k == 'normal':
        return ('normal', f.fill(node[1]))
    if k == 'eye':
        return ('eye', node[1], f.fill(node[2]))
    if k in ('scope', 'jump', 'mean'):
        return (k, _inst(node[1], f))
    if k == 'call':
        gen = f.fill(node[2])
        cons = f.fill(node[3])
        return ('call', node[1], gen, cons, [_inst(a, f) for a in node[4]])
    if k == 'grad':
        item = _inst(node[1], f)
        return ('grad', item, node[2], f.fill(node[3]))
    if k == 'subs':
        item = _inst(node[1], f)
        subs = []
        for name, idx, e in node[2]:
            i2 = f.fill(idx)
            subs.append([name, i2, _inst(e, f)])
        return ('subs', item, subs)
    if k == 'stack':
        args = [_inst(a, f) for a in node[1]]
        return ('stack', args, f.fill(node[2]))
    if k == 'pow':
        base = _inst(node[1], f)
        e = node[2]
        return ('pow', base, ('int', e[1]) if e[0] == 'int' else ('scope', _inst(e[1], f)))
    if k == 'mul':
        return ('mul', [_inst(a, f) for a in node[1]])
    if k == 'frac':
        return ('frac', _inst(node[1], f), _inst(node[2], f))
    if k == 'add':
        return ('add', list(node[1]), [_inst(a, f) for a in node[2]])
    raise ValueError(k)


def growth_strings(n, maxblocks):
    'restricted growth strings of length n: every set partition once, blocks numbered by first occurrence'
    def rec(prefix, nb):
        if len(prefix) == n:
            yield tuple(prefix)
            return
        for b in range(min(nb + 1, maxblocks)):
            yield from rec(prefix + [b], max(nb, b + 1))
    yield from rec([], 0)


def assignments(nslots, maxnum, maxletters):
    'index characters for the slots: numerals 0..2 in at most maxnum positions, letters up to renaming elsewhere'
    for nn in range(min(maxnum, nslots) + 1):
        for numpos in itertools.combinations(range(nslots), nn):
            rest = [i for i in range(nslots) if i not in numpos]
            for nums in itertools.product('012', repeat=nn):
                for rg in growth_strings(len(rest), maxletters):
                    chars = [None] * nslots
                    for p, d in zip(numpos, nums):
                        chars[p] = d
                    for p, b in zip(rest, rg):
                        chars[p] = LETTERS[b]
                    yield ''.join(chars)


def instances(version, tier, want='all', part=0, of=1, maxops=None):
    '''yield (ops, ast) for every valid instance of the templates number part modulo of.'''
    maxletters = 3 if tier == 'quick' else 4
    for ops, t in templates(version, tier, want, part, of):
        if maxops is not None and ops > maxops:
            continue
        ns = count_slots(t)
        nleaves = count_leaves(t)
        if want == 'corrupt':
            maxnum, cap = (1, 5) if nleaves <= 1 else (0, 4)
        elif want == 'corrupt_full':
            maxnum, cap = bounds('quick', ops, nleaves, ns, version)
        else:
            maxnum, cap = bounds(tier, ops, nleaves, ns, version)
            if version == 1 and tier == 'quick' and ops >= 2 and nleaves >= 2 and has_space(t):
                cap = 3     # quick tier: mesh dependent strings are expensive to evaluate
        if ns > cap:
            continue
        for chars in assignments(ns, maxnum, maxletters + (1 if nleaves <= 1 else 0)):
            node = instantiate(t, chars)
            try:
                A.check(node, version)
            except A.Reject:
                continue
            yield ops, node


def bounds(tier, ops, nleaves, ns, version=2):
    'maximal number of numerals among the index positions, and maximal number of index positions'
    q = tier == 'quick'
    if nleaves <= 1:
        return (ns if ops <= 1 else (1 if q else 2)), 99
    if ops <= 1 and nleaves == 2:
        return (1 if q else 2), 6
    if version == 1 and nleaves >= 3 and ops >= 2:
        return 0, 3    # v1 has many more constructs; its three-leaf trees are kept to three index positions
    if q:
        return 0, 4
    return (1 if ops <= 2 else 0), 4


def count_leaves(node):
    k = node[0]
    if k in ('num', 'var', 'arg', 'normal', 'eye', 'jac', 'omit'):
        return 1
    if k == 'call' and node[4] and node[4][0][0] == 'omit':
        return 1
    return sum(count_leaves(c) for c in children(node))


def relabelings(node, version, labels, reverse_only=False):
    '''the same tree with the index letters renamed by every non-identity
    permutation (the alphabetical order of the letters matters for `@` in v2)'''
    used = sorted(A._letters(node))
    if len(used) < 2 or len(labels) < 2:
        return
    perms = list(itertools.permutations(used))
    if len(used) > 3 or reverse_only:
        perms = [tuple(used), tuple(reversed(used))]
    for p in perms:
        if list(p) == used:
            continue
        m = dict(zip(used, p))
        yield rename(node, m)


def rename(node, m):
    def r(s):
        return ''.join(m.get(ch, ch) for ch in s)
    k = node[0]
    if k in ('num', 'int', 'jac', 'omit'):
        return tuple(node)
    if k == 'var':
        return ('var', node[1], r(node[2]))
    if k == 'arg':
        return ('arg', node[1], r(node[2]))
    if k == 'normal':
        return ('normal', r(node[1]))
    if k == 'eye':
        return ('eye', node[1], r(node[2]))
    if k in ('scope', 'jump', 'mean'):
        return (k, rename(node[1], m))
    if k == 'call':
        return ('call', node[1], r(node[2]), r(node[3]), [rename(a, m) for a in node[4]])
    if k == 'grad':
        return ('grad', rename(node[1], m), node[2], r(node[3]))
    if k == 'subs':
        return ('subs', rename(node[1], m), [[n, r(i), rename(e, m)] for n, i, e in node[2]])
    if k == 'stack':
        return ('stack', [rename(a, m) for a in node[1]], r(node[2]))
    if k == 'pow':
        e = node[2]
        return ('pow', rename(node[1], m), ('int', e[1]) if e[0] == 'int' else ('scope', rename(e[1], m)))
    if k == 'mul':
        return ('mul', [rename(a, m) for a in node[1]])
    if k == 'frac':
        return ('frac', rename(node[1], m), rename(node[2], m))
    if k == 'add':
        return ('add', list(node[1]), [rename(a, m) for a in node[2]])
    raise ValueError(k)
