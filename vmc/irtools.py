'''Evaluation helpers around nutils.evaluable shared by the IR checks (C01-C06).'''

import numpy, contextlib
from . import terms, core


class Diverged(Exception):
    pass


_counter = {'n': 0, 'max': 0, 'budget': None, 'trace': None}


def install_step_counter():
    'count every application of a per-node rewrite (a transition of the rewrite system) from outside'
    from nutils import evaluable
    prop = evaluable.Evaluable.__dict__['simplified']
    if getattr(prop, '_vmc_wrapped', False):
        return
    orig = prop.func

    def counted(obj):
        c = _counter
        c['n'] += 1
        if c['budget'] is not None and c['n'] > c['budget']:
            raise Diverged('more than {} rewrite steps'.format(c['budget']))
        r = orig(obj)
        if c['trace'] is not None and r is not obj and len(c['trace']) < 400:
            c['trace'].append((type(obj).__name__, type(r).__name__))
        return r
    prop.func = counted
    prop._vmc_wrapped = True


@contextlib.contextmanager
def rewrite_budget(budget, trace=False):
    install_step_counter()
    c = _counter
    c['n'] = 0
    c['budget'] = budget
    c['trace'] = [] if trace else None
    try:
        yield c
    finally:
        c['budget'] = None


_quiet = []


def quiet():
    'silence treelog for this process (the setter must stay referenced or the previous log is restored)'
    import treelog
    if not _quiet:
        setter = treelog.set(treelog.NullLog())
        setter.__enter__()
        _quiet.append(setter)


def compile_(node, simplify=True, optimize=True, cache=False, stats=None):
    from nutils import evaluable
    return evaluable.compile(node, _simplify=simplify, _optimize=optimize, cache_const_intermediates=cache, stats=stats)


def close(x, y, kind):
    'bit-exact for bool/int; relative 1e-9 for float/complex'
    x = numpy.asarray(x)
    y = numpy.asarray(y)
    if x.shape != y.shape:
        return False
    if kind in 'bi':
        return bool((x == y).all())
    if not (numpy.isfinite(x).all() and numpy.isfinite(y).all()):
        return bool((numpy.isfinite(x) == numpy.isfinite(y)).all() and numpy.allclose(x[numpy.isfinite(x)], y[numpy.isfinite(y)], rtol=1e-9, atol=1e-9))
    scale = 1. + (abs(y).max() if y.size else 0.)
    return bool((abs(x - y) <= 1e-9 * scale).all())


def kind_of(arr):
    k = numpy.asarray(arr).dtype.kind
    return {'b': 'b', 'i': 'i', 'u': 'i', 'f': 'f', 'c': 'c'}.get(k, '?')


def describe(x):
    x = numpy.asarray(x)
    return '{}{}{}'.format(kind_of(x), list(x.shape), numpy.round(x, 6).tolist() if x.size <= 12 else '...')


class _SimplifyAlarm(Exception):
    pass


def simplifies(node, budget=5000, seconds=8):
    '''True iff the simplifier terminates normally on this node (or nest of nodes).  Non-termination / rewrite cycles are C01's
    subject; the other IR checks skip such programs (counted) instead of hanging in a compile that simplifies internally.'''
    import signal
    nodes = list(_flatten(node))

    def on_alarm(signum, frame):
        raise _SimplifyAlarm()
    old = signal.signal(signal.SIGALRM, on_alarm)
    signal.alarm(seconds)
    try:
        with rewrite_budget(budget):
            for n in nodes:
                n.simplified
        return True
    except (_SimplifyAlarm, Diverged, RecursionError, MemoryError):
        return False
    except Exception:
        return False
    finally:
        signal.alarm(0)
        signal.signal(signal.SIGALRM, old)


def _flatten(node):
    if isinstance(node, (tuple, list)):
        for n in node:
            yield from _flatten(n)
    else:
        yield node
