'''C13 term space: function-level expressions over named arguments with three
independent interpretations

  build(t, ctx)   -> the real nutils.function.Array (with the requested spelling
                     of every argument specification)
  ref(t, env)     -> numpy value, by a boring interpreter (environment passing for
                     replace, complex-step / Richardson differences for derivatives,
                     hand-written Gauss quadrature for integrals); no nutils code
  model(t)        -> static facts: shape, dtype, bound-to-space, the syntactic
                     argument table, or Rejected(reason) when the documented
                     contract says the construction must be refused

A term is a JSON list.  Nodes

  ['a', name]                      argument from the ARGS table (abstract name)
  ['ax', name, shape, dtype]       argument with explicit (possibly wrong) shape/dtype
  ['k', value, dtype]              constant
  ['neg'|'sq'|'sin', x]  ['add'|'mul', x, y]  ['sum', x]  ['dot', x, y]  ['get', x, i]
  ['x']                            coordinate of the 2-element line (bound to the space)
  ['fld', basis, x]                basis @ x  (basis in BASES, bound to the space)
  ['int', x]                       integral over the line, Gauss degree 4
  ['bind', x]                      sample.bind on the Gauss sample (loop concatenate)
  ['replace', f, entries, spelling]
  ['lin', f, entries, spelling]
  ['der', f, key, how]             how in name | obj | method
  ['fac', f]

entries = [[key, value], ...]; key is an abstract name or an ['ax', ...] node
(explicit Argument object); value is ['name', x] (a bare argument, spellable as
a string) or a term.  spelling = [container, keykind, valkind].
'''

import itertools
import numpy

ARGS = {'u': ((2,), 'float'), 'v': ((2,), 'float'), 'w': ((2,), 'float'), 'z': ((2,), 'float'),
        'p': ((), 'float'), 'q': ((), 'float'), 'n': ((), 'int'), 'm': ((), 'int')}

# concrete names; in 'nest' every name is a substring of another one and of the typical specification strings
SCHEMES = {
    'plain': {a: a for a in ARGS},
    'nest': {'u': 'a', 'v': 'aa', 'w': 'ab', 'z': 'aaa', 'p': 'b', 'q': 'ba', 'n': 'bb', 'm': 'abb'},
}

VALUATIONS = [
    {'u': [.3, -.7], 'v': [1.1, .4], 'w': [-.2, .6], 'z': [.8, .15], 'p': .9, 'q': -.45, 'n': 3, 'm': -2},
    {'u': [-1.2, .25], 'v': [.35, -.9], 'w': [.7, 1.3], 'z': [-.6, .45], 'p': -.55, 'q': 1.2, 'n': -1, 'm': 4},
    {'u': [.65, 1.05], 'v': [-.45, .2], 'w': [1.4, -.85], 'z': [.1, -1.1], 'p': 1.35, 'q': .3, 'n': 2, 'm': 5},
]

VERTS = [0., 1., 3.]
GAUSS_DEGREE = 4
BASES = ('lin0', 'lin1', 'd0')

DT = {'float': float, 'int': int, 'bool': bool}


class Rejected(Exception):
    'the documented contract says this construction must be refused'

    def __init__(self, reason):
        super().__init__(reason)
        self.reason = reason


class RefUndefined(Exception):
    pass


class TermError(Exception):
    'malformed term: a harness error'


class Infeasible(Exception):
    'the requested spelling cannot express the entries (an enumeration matter, never a finding)'


def valuation(i):
    return {k: numpy.array(v, dtype=DT[ARGS[k][1]]) for k, v in VALUATIONS[i].items()}


# ------------------------------------------------------------------ quadrature (reference side)

def quad_points():
    'list of dicts, element by element then point by point: x, w (incl. jacobian), basis values'
    n = GAUSS_DEGREE // 2 + 1
    xi, wi = numpy.polynomial.legendre.leggauss(n)
    xi = (xi + 1) / 2
    wi = wi / 2
    pts = []
    for e in range(2):
        a, b = VERTS[e], VERTS[e + 1]
        for s, wt in zip(xi, wi):
            hat = numpy.zeros(3)
            hat[e] = 1 - s
            hat[e + 1] = s
            d0 = numpy.zeros(2)
            d0[e] = 1.
            pts.append({'x': numpy.array(a + s * (b - a)), 'w': wt * (b - a), 'lin0': hat[:2], 'lin1': hat[1:], 'd0': d0})
    return pts


_PTS = None


def pts():
    global _PTS
    if _PTS is None:
        _PTS = quad_points()
    return _PTS


# ------------------------------------------------------------------ helpers on entries

def key_name(key):
    return key if isinstance(key, str) else key[1]


def value_term(key, val):
    'the term denoted by a replacement value; a bare name takes shape and dtype of the key'
    if val[0] == 'name':
        shape, dtype = key_type(key)
        return ['ax', val[1], list(shape), dtype]
    return val


def key_type(key):
    if isinstance(key, str):
        return ARGS[key]
    return tuple(key[2]), key[3]


def has_diff(t):
    if not isinstance(t, list):
        return False
    if t and t[0] in ('der', 'lin'):
        return True
    return any(has_diff(c) for c in t)


def count_nodes(t):
    if not isinstance(t, list) or not t or not isinstance(t[0], str):
        return sum(count_nodes(c) for c in t) if isinstance(t, list) else 0
    return 1 + sum(count_nodes(c) for c in t[1:])


# ------------------------------------------------------------------ static model

class Facts:
    __slots__ = 'shape', 'dtype', 'spatial', 'args'

    def __init__(self, shape, dtype, spatial, args):
        self.shape = tuple(shape)
        self.dtype = dtype
        self.spatial = spatial
        self.args = args  # name -> (shape, dtype)


def join(*tables):
    out = {}
    for tab in tables:
        for name, sd in tab.items():
            sd = (tuple(sd[0]), sd[1])
            if name in out and out[name] != sd:
                raise Rejected('argument-conflict')
            out[name] = sd
    return out


def _promote(a, b):
    order = ['bool', 'int', 'float']
    return order[max(order.index(a), order.index(b))]


NPTS = 2 * (GAUSS_DEGREE // 2 + 1)


def model(t):
    '''static facts of t by the documented semantics; raises Rejected when the
    contract demands a refusal (the innermost / first reason wins)'''
    op = t[0]
    if op == 'a':
        shape, dtype = ARGS[t[1]]
        return Facts(shape, dtype, False, {t[1]: (shape, dtype)})
    if op == 'ax':
        return Facts(tuple(t[2]), t[3], False, {t[1]: (tuple(t[2]), t[3])})
    if op == 'k':
        return Facts(numpy.shape(t[1]), t[2], False, {})
    if op == 'x':
        return Facts((), 'float', True, {})
    if op in ('neg', 'sq'):
        return model(t[1])
    if op == 'sin':
        f = model(t[1])
        return Facts(f.shape, 'float', f.spatial, f.args)
    if op in ('add', 'mul'):
        a, b = model(t[1]), model(t[2])
        return Facts(numpy.broadcast_shapes(a.shape, b.shape), _promote(a.dtype, b.dtype), a.spatial or b.spatial, join(a.args, b.args))
    if op == 'sum':
        f = model(t[1])
        return Facts(f.shape[:-1], f.dtype, f.spatial, f.args)
    if op == 'dot':
        a, b = model(t[1]), model(t[2])
        return Facts((), _promote(a.dtype, b.dtype), a.spatial or b.spatial, join(a.args, b.args))
    if op == 'get':
        f = model(t[1])
        return Facts(f.shape[1:], f.dtype, f.spatial, f.args)
    if op == 'fld':
        f = model(t[2])
        return Facts(f.shape[1:], 'float', True, f.args)
    if op == 'int':
        f = model(t[1])
        return Facts(f.shape, 'float', False, f.args)
    if op == 'bind':
        f = model(t[1])
        return Facts((NPTS,) + f.shape, f.dtype, False, f.args)
    if op in ('replace', 'lin'):
        f = model(t[1])
        used = {}
        tables = []
        for key, val in t[2]:
            name = key_name(key)
            if name not in f.args:
                continue  # documented: keys that are not arguments of the array are ignored
            kshape, kdtype = key_type(key)
            if (tuple(kshape), kdtype) != f.args[name]:
                raise Rejected('key-wrong-shape-or-dtype')
            g = model(value_term(key, val))
            if g.shape != tuple(kshape):
                raise Rejected('value-wrong-shape')
            if g.dtype != kdtype:
                raise Rejected('value-wrong-dtype')
            if g.spatial and op == 'replace':
                raise Rejected('value-bound-to-space')
            used[name] = g
            tables.append(g.args)
        if op == 'replace':
            rest = {name: sd for name, sd in f.args.items() if name not in used}
            return Facts(f.shape, f.dtype, f.spatial, join(rest, *tables))
        return Facts(f.shape, f.dtype, f.spatial or any(g.spatial for g in used.values()), join(f.args, *tables))
    if op == 'der':
        f = model(t[1])
        kshape, kdtype = key_type(t[2])
        name = key_name(t[2])
        if name in f.args and f.args[name] != (tuple(kshape), kdtype):
            raise Rejected('key-wrong-shape-or-dtype')
        return Facts(f.shape + tuple(kshape), f.dtype, f.spatial, join(f.args, {name: (tuple(kshape), kdtype)}))
    if op == 'fac':
        f = model(t[1])
        if degree(subst(t[1])) is None:
            raise Rejected('factor-nonpolynomial')
        if any(dtype != 'float' for shape, dtype in f.args.values()):
            raise Rejected('factor-int-argument')  # factor differentiates to every argument: refusing is fine, a wrong value is not
        return Facts(f.shape, f.dtype, False, f.args)
    raise TermError('unknown node {!r}'.format(t))


def subst(t, env=None):
    'eliminate replace nodes by simultaneous syntactic substitution (used for the polynomial degree only)'
    env = env or {}
    op = t[0]
    if op in ('a', 'ax'):
        return env.get(t[1], t)
    if op in ('k', 'x'):
        return t
    if op == 'replace':
        fargs = model(t[1]).args
        env2 = dict(env)
        for key, val in t[2]:
            if key_name(key) in fargs:
                env2[key_name(key)] = subst(value_term(key, val), env)
        return subst(t[1], env2)
    if op in ('lin', 'der'):
        return [op, subst(t[1], env)] + t[2:]
    if op == 'fld':
        return [op, t[1], subst(t[2], env)]
    if op == 'get':
        return [op, subst(t[1], env), t[2]]
    return [op] + [subst(c, env) for c in t[1:]]


def degree(t):
    'total polynomial degree in the float arguments of a replace-free term; None = not polynomial'
    op = t[0]
    if op in ('a', 'ax'):
        return 1
    if op in ('k', 'x'):
        return 0
    if op in ('neg', 'sum', 'get', 'int', 'bind', 'fac'):
        return degree(t[1])
    if op == 'fld':
        return degree(t[2])
    if op == 'sq':
        d = degree(t[1])
        return None if d is None else 2 * d
    if op == 'sin':
        d = degree(t[1])
        return 0 if d == 0 else None
    if op == 'add':
        a, b = degree(t[1]), degree(t[2])
        return None if a is None or b is None else max(a, b)
    if op in ('mul', 'dot'):
        a, b = degree(t[1]), degree(t[2])
        return None if a is None or b is None else a + b
    if op == 'der':
        d = degree(t[1])
        return None if d is None else max(d - 1, 0)
    if op == 'lin':
        d = degree(t[1])
        return None if d is None else d  # directions are fresh arguments of degree one
    raise TermError('degree of {!r}'.format(t))


# ------------------------------------------------------------------ reference interpreter

def ref(t, env, pt=None):
    op = t[0]
    if op in ('a', 'ax'):
        return env[t[1]]
    if op == 'k':
        return numpy.array(t[1], dtype=DT[t[2]])
    if op == 'x':
        if pt is None:
            raise RefUndefined('coordinate outside an integral')
        return pt['x']
    if op == 'neg':
        return -ref(t[1], env, pt)
    if op == 'sq':
        a = ref(t[1], env, pt)
        return a * a
    if op == 'sin':
        return numpy.sin(ref(t[1], env, pt))
    if op == 'add':
        return ref(t[1], env, pt) + ref(t[2], env, pt)
    if op == 'mul':
        return ref(t[1], env, pt) * ref(t[2], env, pt)
    if op == 'sum':
        return ref(t[1], env, pt).sum(-1)
    if op == 'dot':
        return (ref(t[1], env, pt) * ref(t[2], env, pt)).sum(-1)
    if op == 'get':
        return ref(t[1], env, pt)[t[2]]
    if op == 'fld':
        if pt is None:
            raise RefUndefined('field outside an integral')
        c = ref(t[2], env, pt)
        return numpy.tensordot(pt[t[1]], c, axes=(0, 0))
    if op == 'int':
        return sum(p['w'] * ref(t[1], env, p) for p in pts())
    if op == 'bind':
        return numpy.stack([ref(t[1], env, p) for p in pts()], axis=0)
    if op == 'replace':
        fargs = model(t[1]).args
        env2 = dict(env)
        for key, val in t[2]:
            if key_name(key) in fargs:
                env2[key_name(key)] = ref(value_term(key, val), env, None)  # all values in the OUTER environment
        return ref(t[1], env2, pt)
    if op == 'fac':
        return ref(t[1], env, pt)
    if op == 'der':
        name = key_name(t[2])
        shape, dtype = key_type(t[2])
        base = numpy.asarray(ref(t[1], env, pt))
        out = numpy.zeros(base.shape + tuple(shape), dtype=float)
        if name not in model(t[1]).args:
            return out
        for idx in numpy.ndindex(*shape):
            e = numpy.zeros(shape)
            e[idx] = 1.
            out[(Ellipsis,) + idx] = _directional(t[1], env, pt, {name: e})
        return out
    if op == 'lin':
        fargs = model(t[1]).args
        dirs = {}
        for key, val in t[2]:
            if key_name(key) in fargs:
                dirs[key_name(key)] = ref(value_term(key, val), env, pt)
        if not dirs:
            raise RefUndefined('linearize without any matching argument')
        return _directional(t[1], env, pt, dirs)
    raise TermError('unknown node {!r}'.format(t))


def _directional(f, env, pt, dirs):
    'd/de f(env + e dirs) at e=0'
    if not has_diff(f) and not any(numpy.iscomplexobj(v) for v in env.values()) and not any(numpy.iscomplexobj(d) for d in dirs.values()):
        h = 1e-30
        env2 = dict(env)
        for name, d in dirs.items():
            env2[name] = env[name] + 1j * h * d
        return numpy.imag(ref(f, env2, pt)) / h

    def at(e):
        env2 = dict(env)
        for name, d in dirs.items():
            env2[name] = env[name] + e * d
        return ref(f, env2, pt)
    h = 2e-3
    return (8 * (at(h) - at(-h)) - (at(2 * h) - at(-2 * h))) / (12 * h)


def tolerance(t):
    return 1e-6 if _nested_diff(t, False) else 1e-9


def _nested_diff(t, inside):
    if not isinstance(t, list) or not t or not isinstance(t[0], str):
        return any(_nested_diff(c, inside) for c in t) if isinstance(t, list) else False
    if t[0] in ('der', 'lin'):
        if inside:
            return True
        return any(_nested_diff(c, True) for c in t[1:])
    return any(_nested_diff(c, inside) for c in t[1:])


# ------------------------------------------------------------------ nutils side

class Ctx:
    def __init__(self, scheme):
        from nutils import mesh, function
        self.names = SCHEMES[scheme]
        self.dom, self.geom = mesh.line(numpy.array(VERTS), space='X')
        B = self.dom.basis('std', degree=1)
        self.bases = {'lin0': B[:2], 'lin1': B[1:], 'd0': self.dom.basis('discont', degree=0)}
        self.J = function.J(self.geom)
        self.smp = self.dom.sample('gauss', GAUSS_DEGREE)

    def arg(self, name, shape=None, dtype=None):
        from nutils import function
        if shape is None:
            shape, dtype = ARGS[name]
        return function.Argument(self.names.get(name, name), tuple(shape), DT[dtype])


def _key_obj(key, ctx):
    if isinstance(key, str):
        return ctx.arg(key)
    return ctx.arg(key[1], key[2], key[3])


def _const(t, how):
    from nutils import function
    if how == 's':  # plain python
        return t[1]
    a = numpy.array(t[1], dtype=DT[t[2]])
    if how == 'np':
        return a
    return function.asarray(a)


def spell(entries, spelling, ctx):
    '''the python object passed as argument specification.  valkind: s = bare names as strings, constants as
    plain python; A = names as Argument objects, constants as function Arrays; np = like A with numpy constants;
    alt = alternate A/s per entry.  keykind: s | A | alt (alternating s/A).  Raises Infeasible
    when the requested spelling cannot express the entries.'''
    container, kk, vk = spelling
    items = []
    for i, (key, val) in enumerate(entries):
        kkind = kk if kk != 'alt' else 'sA'[i % 2]
        vkind = vk if vk != 'alt' else 'As'[i % 2]
        if container in ('str', 'tuple-str', 'list-str') or container == 'mixed0' and i % 2 == 0 or container == 'mixed1' and i % 2 == 1:
            if val[0] != 'name' or not isinstance(key, str):
                raise Infeasible()
            items.append('{}:{}'.format(ctx.names[key], ctx.names.get(val[1], val[1])))
            continue
        if container in ('mixed0', 'mixed1'):
            kkind, vkind = 'A', ('A' if vk == 'alt' else vk)
        if container == 'dict' and (kkind != 's'):
            raise Infeasible()
        if kkind == 's':
            if not isinstance(key, str):
                raise Infeasible()
            k = ctx.names[key]
        else:
            k = _key_obj(key, ctx)
        if val[0] == 'name':
            if vkind == 's':
                v = ctx.names.get(val[1], val[1])
            else:
                kshape, kdtype = key_type(key)
                v = ctx.arg(val[1], kshape, kdtype)
        elif val[0] == 'k':
            v = _const(val, vkind)
        else:
            v = build(val, ctx)
        items.append((k, v))
    if container == 'dict':
        return dict(items)
    if container == 'str':
        return ','.join(items)
    if container in ('tuple-str', 'tuple-pairs'):
        return tuple(items)
    return list(items)


def build(t, ctx):
    from nutils import function
    op = t[0]
    if op == 'a':
        return ctx.arg(t[1])
    if op == 'ax':
        return ctx.arg(t[1], t[2], t[3])
    if op == 'k':
        return function.asarray(numpy.array(t[1], dtype=DT[t[2]]))
    if op == 'x':
        return ctx.geom if ctx.geom.ndim == 0 else ctx.geom[0]
    if op == 'neg':
        return -build(t[1], ctx)
    if op == 'sq':
        return build(t[1], ctx)**2
    if op == 'sin':
        return numpy.sin(build(t[1], ctx))
    if op == 'add':
        return build(t[1], ctx) + build(t[2], ctx)
    if op == 'mul':
        return build(t[1], ctx) * build(t[2], ctx)
    if op == 'sum':
        return numpy.sum(build(t[1], ctx), -1)
    if op == 'dot':
        return build(t[1], ctx) @ build(t[2], ctx)
    if op == 'get':
        return build(t[1], ctx)[t[2]]
    if op == 'fld':
        return ctx.bases[t[1]] @ build(t[2], ctx)
    if op == 'int':
        return ctx.dom.integral(build(t[1], ctx) * ctx.J, degree=GAUSS_DEGREE)
    if op == 'bind':
        return ctx.smp.bind(build(t[1], ctx))
    if op == 'replace':
        return function.replace_arguments(build(t[1], ctx), spell(t[2], t[3], ctx))
    if op == 'lin':
        return function.linearize(build(t[1], ctx), spell(t[2], t[3], ctx))
    if op == 'der':
        f = build(t[1], ctx)
        how = t[3]
        if how == 'name':
            return function.derivative(f, ctx.names[key_name(t[2])])
        if how == 'method':
            return f.derivative(ctx.names[key_name(t[2])])
        if how == 'methodobj':
            return f.derivative(_key_obj(t[2], ctx))
        return function.derivative(f, _key_obj(t[2], ctx))
    if op == 'fac':
        return function.factor(build(t[1], ctx))
    raise TermError('unknown node {!r}'.format(t))


# ------------------------------------------------------------------ spellings

CONTAINER_CLASS = {'dict': 'dict', 'str': 'str', 'tuple-str': 'strs', 'list-str': 'strs', 'list-pairs': 'pairs', 'tuple-pairs': 'pairs',
                   'mixed0': 'mixed', 'mixed1': 'mixed'}


def all_spellings():
    out = []
    for vk in ('s', 'A', 'np', 'alt'):
        out.append(['dict', 's', vk])
    out += [['str', 's', 's'], ['tuple-str', 's', 's'], ['list-str', 's', 's']]
    for kk in ('s', 'A', 'alt'):
        for vk in ('s', 'A', 'np', 'alt'):
            out.append(['list-pairs', kk, vk])
    for kk, vk in (('s', 's'), ('A', 'A'), ('A', 's'), ('s', 'A')):
        out.append(['tuple-pairs', kk, vk])
    for c in ('mixed0', 'mixed1'):
        for vk in ('s', 'A'):
            out.append([c, 'A', vk])
    return out


def spellings_for(entries):
    'all spellings that can express the entries, deduplicated on the concrete object they produce'
    out = []
    seen = set()
    for sp in all_spellings():
        try:
            sig = _signature(entries, sp)
        except Infeasible:
            continue
        if sig in seen:
            continue
        seen.add(sig)
        out.append(sp)
    return out


def _signature(entries, spelling):
    container, kk, vk = spelling
    sig = [CONTAINER_CLASS[container] if container not in ('tuple-str', 'list-str', 'list-pairs', 'tuple-pairs') else container]
    for i, (key, val) in enumerate(entries):
        kkind = kk if kk != 'alt' else 'sA'[i % 2]
        vkind = vk if vk != 'alt' else 'As'[i % 2]
        if container in ('str', 'tuple-str', 'list-str') or container == 'mixed0' and i % 2 == 0 or container == 'mixed1' and i % 2 == 1:
            if val[0] != 'name' or not isinstance(key, str):
                raise Infeasible()
            sig.append('S')
            continue
        if container in ('mixed0', 'mixed1'):
            kkind, vkind = 'A', ('A' if vk == 'alt' else vk)
        if container == 'dict' and kkind != 's':
            raise Infeasible()
        if kkind == 's' and not isinstance(key, str):
            raise Infeasible()
        if val[0] == 'name':
            v = 's' if vkind == 's' else 'A'
        elif val[0] == 'k':
            v = vkind
        else:
            v = 'T'
        sig.append(kkind + v)
    return tuple(sig)


def term_signature(t):
    'signature of all specification spellings in a term; raises Infeasible'
    if not isinstance(t, list) or not t:
        return ()
    sig = ()
    if t[0] in ('replace', 'lin'):
        sig += (_signature(t[2], t[3]),)
        sig += term_signature(t[1])
        for key, val in t[2]:
            if val[0] not in ('name', 'k'):
                sig += term_signature(val)
        return sig
    for c in t[1:]:
        if isinstance(c, list):
            sig += term_signature(c)
    return sig


def spelling_class(spelling, entries):
    'root-cause oriented label: Argument objects used as keys, else the container class'
    container, kk, vk = spelling
    cls = CONTAINER_CLASS[container]
    anyA = cls == 'mixed' or kk == 'A' or (kk == 'alt' and len(entries) > 1)
    return 'key=A' if anyA and cls in ('pairs', 'mixed') else cls


def container_class(spelling):
    return CONTAINER_CLASS[spelling[0]]


# ------------------------------------------------------------------ enumeration of bodies

def A(name):
    return ['a', name]


CV = ['k', [.5, -1.5], 'float']
CS = ['k', 1.5, 'float']
CI = ['k', 2, 'int']

UNARY = ('neg', 'sq', 'sin')


def _shape(t):
    return model(t).shape


def alg_leaves():
    return [A('u'), A('v'), A('w'), A('p'), CV]


def _combine(pool_a, pool_b, symmetric_with_same_pool):
    out = []
    for op in ('add', 'mul'):
        for i, a in enumerate(pool_a):
            for j, b in enumerate(pool_b):
                if symmetric_with_same_pool and j < i:
                    continue
                out.append([op, a, b])
    for i, a in enumerate(pool_a):
        for j, b in enumerate(pool_b):
            if symmetric_with_same_pool and j < i:
                continue
            if _shape(a) == (2,) and _shape(b) == (2,):
                out.append(['dot', a, b])
    return out


def _unaries(pool):
    out = []
    for a in pool:
        for op in UNARY:
            out.append([op, a])
        if _shape(a) == (2,):
            out.append(['sum', a])
    return out


def _has_args(t):
    return bool(model(t).args)


def alg_terms(depth, pruned=False):
    '''algebraic bodies of exactly the given depth that contain at least one argument.
    pruned (for the deepest level): binary nodes take one leaf operand.'''
    leaves = alg_leaves()
    if depth == 0:
        return [t for t in leaves if _has_args(t)]
    d1 = _unaries(leaves) + _combine(leaves, leaves, True)
    if depth == 1:
        return [t for t in d1 if _has_args(t)]
    if depth == 2:
        out = _unaries(d1) + _combine(d1, leaves, False)
        if not pruned:
            out += _combine(d1, d1, True)
        return [t for t in out if _has_args(t)]
    if depth == 3:
        d2 = _unaries(d1) + _combine(d1, leaves, False)
        out = _unaries(d2) + _combine(d2, leaves, False)
        return [t for t in out if _has_args(t)]
    raise ValueError(depth)


def spat_leaves():
    return [['fld', 'lin0', A('u')], ['fld', 'd0', A('v')], ['fld', 'lin1', A('w')], A('p'), ['x']]


def spat_terms(depth, pruned=False):
    'scalar integrands of exactly the given depth'
    leaves = spat_leaves()
    if depth == 0:
        return leaves[:3]

    def un(pool):
        return [[op, a] for a in pool for op in UNARY]

    def bi(pa, pb, sym):
        return [[op, a, b] for op in ('add', 'mul') for i, a in enumerate(pa) for j, b in enumerate(pb) if not (sym and j < i)]
    d1 = un(leaves) + bi(leaves, leaves, True)
    if depth == 1:
        return [t for t in d1 if _has_args(t)]
    if depth == 2:
        out = un(d1) + bi(d1, leaves, False)
        if not pruned:
            out += bi(d1, d1, True)
        return [t for t in out if _has_args(t)]
    raise ValueError(depth)


def int_terms():
    'bodies with the integer argument n'
    n, m, u, p = A('n'), A('m'), A('u'), A('p')
    out = [n, ['mul', n, u], ['add', n, p], ['mul', n, n], ['sq', n], ['neg', n], ['add', n, CI], ['mul', n, CI],
           ['add', ['mul', n, u], A('v')], ['mul', ['add', n, CI], p], ['sin', ['mul', n, p]], ['mul', ['sq', n], u], ['add', n, m], ['mul', ['add', n, m], u]]
    return out
