'''C19: abstract syntax of the documented expression grammars (v1 and v2),
its rendering to strings (with the whitespace slots the grammar leaves free),
its typing rules (index bookkeeping; the five rejection rules the property
lists) and its reference semantics (index notation over c19_ref jets).

Abstract syntax (plain tuples / lists, JSON-able):

  item level
    ('num', text)
    ('var', name, idx)                 idx: string of index letters and numerals
    ('scope', e)  ('jump', e)  ('mean', e)
    ('call', name, gen, cons, [e...])  name_gen:cons(e, ...)   (v2: one argument, no cons)
    ('omit', name)                     v1 only, argument of a call: a variable with omitted indices (sum(u))
    ('arg', name, idx)                 v1  ?name_idx
    ('normal', idx)                    v1  n_idx
    ('eye', sym, idx)                  v1  sym in {'$', 'δ'}
    ('jac',)                           v1  d:x
    ('grad', item, kind, idx)          v1  item is var or scope; kind ',' or ';'
    ('subs', item, [[name, idx, e]...])  v1  item(name_idx = e, ...)
    ('stack', [e...], idx)             v1  <e, e>_i
  ('pow', item, exponent)              exponent: ('int', text) or ('scope', e)
  ('mul', [power-level ...])           >= 2 factors; only the first may be a number
  ('frac', term-level, term-level)
  ('add', signs, [fraction-level ...]) signs[0] in ('', '-'), signs[k>0] in ('+', '-')
'''

import numpy
from . import c19_ref as R
from . import c19_ns as NS


class Reject(Exception):
    '''the tree / string is not derivable; rule is one of
    R1 index used more than twice, R2 mismatching lengths or index sets,
    R3 unknown name, R4 misplaced number or whitespace, R5 unbalanced brackets,
    other (not derivable, but none of the listed rules certainly applies)'''

    def __init__(self, rule, detail=''):
        self.rule = rule
        self.detail = detail
        super().__init__('{}: {}'.format(rule, detail))


ITEM_KINDS = ('num', 'var', 'scope', 'jump', 'mean', 'call', 'arg', 'normal', 'eye', 'jac', 'grad', 'subs', 'stack')
V1_ONLY = ('arg', 'normal', 'eye', 'jac', 'grad', 'subs', 'stack', 'omit')

LEVEL = {'add': 4, 'frac': 3, 'mul': 2, 'pow': 1}


def level(node):
    return LEVEL.get(node[0], 0)


def tolist(node):
    'deep copy with tuples turned into lists (JSON form)'
    if isinstance(node, (tuple, list)):
        return [tolist(n) for n in node]
    return node


def depth(node):
    k = node[0]
    if k in ('num', 'var', 'arg', 'normal', 'eye', 'jac', 'omit', 'int'):
        return 1
    if k in ('scope', 'jump', 'mean'):
        return 1 + depth(node[1])
    if k == 'call':
        return 1 + max(depth(a) for a in node[4])
    if k == 'grad':
        return len(node[3]) + depth(node[1])
    if k == 'subs':
        return 1 + max([depth(node[1])] + [depth(s[2]) for s in node[2]])
    if k == 'stack':
        return 1 + max(depth(a) for a in node[1])
    if k == 'pow':
        e = node[2]
        return 1 + max(depth(node[1]), depth(e[1]) if e[0] == 'scope' else 1)
    if k == 'mul':
        return 1 + max(depth(a) for a in node[1])
    if k == 'frac':
        return 1 + max(depth(node[1]), depth(node[2]))
    if k == 'add':
        return 1 + max(depth(a) for a in node[2])
    raise ValueError(k)


# ------------------------------------------------------------------ rendering

class Slot:
    '''a position where the grammar leaves the amount of whitespace free;
    options[0] spaces in the canonical rendering, the other options are the variants'''
    __slots__ = 'kind', 'options'

    OPTIONS = {'edge': (0, 1), 'in': (0, 1), 'sep': (1, 2), 'op': (1, 2), 'comma': (1, 2), 'eq': (1, 0)}

    def __init__(self, kind):
        self.kind = kind
        self.options = self.OPTIONS[kind]


def pieces(node, version, top=True):
    'list of str and Slot'
    out = []
    if top:
        out.append(Slot('edge'))
    _pieces(node, version, out)
    if top:
        out.append(Slot('edge'))
    return out


def _pieces(node, version, out):
    k = node[0]
    if k == 'num' or k == 'int':
        out.append(node[1])
    elif k == 'var':
        out.append(node[1] + ('_' + node[2] if node[2] else ''))
    elif k == 'omit':
        out.append(node[1])
    elif k == 'arg':
        out.append('?' + node[1] + ('_' + node[2] if node[2] else ''))
    elif k == 'normal':
        out.append('n' + ('_' + node[1] if node[1] else ''))
    elif k == 'eye':
        out.append(node[1] + ('_' + node[2] if node[2] else ''))
    elif k == 'jac':
        out.append('d:x')
    elif k in ('scope', 'jump', 'mean'):
        o, c = {'scope': '()', 'jump': '[]', 'mean': '{}'}[k]
        out.append(o)
        out.append(Slot('in'))
        _pieces(node[1], version, out)
        out.append(Slot('in'))
        out.append(c)
    elif k == 'call':
        name, gen, cons, args = node[1:]
        out.append(name + ('_' + gen if gen else '') + (':' + cons if cons else '') + '(')
        out.append(Slot('in'))
        for i, a in enumerate(args):
            if i:
                out.append(',')
                out.append(Slot('comma'))
            _pieces(a, version, out)
        out.append(Slot('in'))
        out.append(')')
    elif k == 'grad':
        item, kind, idx = node[1:]
        if item[0] == 'var':
            out.append(item[1] + '_' + item[2] + kind + idx)
        else:
            _pieces(item, version, out)
            out.append('_' + kind + idx)
    elif k == 'subs':
        _pieces(node[1], version, out)
        out.append('(')
        out.append(Slot('in'))
        for i, (name, idx, e) in enumerate(node[2]):
            if i:
                out.append(',')
                out.append(Slot('comma'))
            out.append(name + ('_' + idx if idx else ''))
            out.append(Slot('eq'))
            out.append('=')
            out.append(Slot('eq'))
            _pieces(e, version, out)
        out.append(Slot('in'))
        out.append(')')
    elif k == 'stack':
        out.append('<')
        out.append(Slot('in'))
        for i, a in enumerate(node[1]):
            if i:
                out.append(',')
                out.append(Slot('comma'))
            _pieces(a, version, out)
        out.append(Slot('in'))
        out.append('>_' + node[2])
    elif k == 'pow':
        _pieces(node[1], version, out)
        out.append('^')
        e = node[2]
        if e[0] == 'int':
            out.append(e[1])
        else:
            out.append('(')
            out.append(Slot('in'))
            _pieces(e[1], version, out)
            out.append(Slot('in'))
            out.append(')')
    elif k == 'mul':
        for i, f in enumerate(node[1]):
            if i:
                out.append(Slot('sep'))
            _pieces(f, version, out)
    elif k == 'frac':
        _pieces(node[1], version, out)
        out.append(Slot('op'))
        out.append('/')
        out.append(Slot('op'))
        _pieces(node[2], version, out)
    elif k == 'add':
        signs, terms = node[1], node[2]
        for i, (s, t) in enumerate(zip(signs, terms)):
            if i == 0:
                if s == '-':
                    out.append('-')
            else:
                out.append(Slot('op'))
                out.append(s)
                out.append(Slot('op'))
            _pieces(t, version, out)
    else:
        raise ValueError('cannot render {!r}'.format(node))


def render(node, version, choice=None):
    '''canonical string (choice None), or the whitespace variant in which slot k
    takes option choice[k] (an index into Slot.options; missing = canonical)'''
    out = []
    islot = 0
    for p in pieces(node, version):
        if isinstance(p, Slot):
            o = 0 if choice is None else choice.get(islot, 0) if isinstance(choice, dict) else choice[islot]
            out.append(' ' * p.options[o])
            islot += 1
        else:
            out.append(p)
    return ''.join(out)


def slots(node, version):
    return [p for p in pieces(node, version) if isinstance(p, Slot)]


# ------------------------------------------------------------------ typing

class LVar:
    'a length that has to be deduced from the expression (v1: dirac, arguments, generated axes)'
    __slots__ = 'origin', 'parent', 'value', 'tainted'

    def __init__(self, origin):
        self.origin = origin
        self.parent = None
        self.value = None
        self.tainted = origin == 'gen'

    def find(self):
        r = self
        while r.parent is not None:
            r = r.parent
        return r


class Ctx:
    def __init__(self, version):
        self.version = version
        self.args = {}       # v1: argument name -> tuple of lengths (LVar)
        self.lvars = []
        self.notes = {}      # path -> data needed at evaluation time

    def newlen(self, origin):
        v = LVar(origin)
        self.lvars.append(v)
        return v

    def resolve(self, l):
        if isinstance(l, LVar):
            r = l.find()
            return r.value if r.value is not None else r
        return l

    def unify(self, a, b, what):
        a = self.resolve(a)
        b = self.resolve(b)
        if a is b:
            return
        ia, ib = not isinstance(a, LVar), not isinstance(b, LVar)
        if ia and ib:
            if a != b:
                raise Reject('R2', '{}: lengths {} and {}'.format(what, a, b))
            return
        if ia:
            a, b = b, a
            ia, ib = ib, ia
        # a is an unresolved root
        if ib:
            a.value = b
        else:
            b.parent = a
            a.tainted = a.tainted or b.tainted

    def unify_soft(self, a, b, what):
        'like unify, but a conflict that involves the (undocumented) inference of generated axes is not a listed rule'
        taint = any(isinstance(x, LVar) and x.find().tainted for x in (a, b))
        try:
            self.unify(a, b, what)
        except Reject as e:
            if taint:
                raise Reject('other', e.detail)
            raise


class Ty:
    __slots__ = 'labels', 'lens', 'summed'

    def __init__(self, labels, lens, summed):
        assert len(labels) == len(lens)
        self.labels = labels
        self.lens = tuple(lens)
        self.summed = frozenset(summed)


class TNode:
    'typed tree'
    __slots__ = 'node', 'kids', 'ty', 'extra'

    def __init__(self, node, kids, ty, extra=None):
        self.node = node
        self.kids = kids
        self.ty = ty
        self.extra = extra


FUNCS = {'f': (), 'g': (2,), 'h': (2, 3)}       # generated shapes
FUNCS_V2 = dict(FUNCS, D=(2,))
FUNCS_V1 = dict(FUNCS, m=(), sum=())
# names that exist in the namespaces but are outside the modelled grammar (never "unknown", never derivable)
BUILTIN_FUNCS = ('opposite', 'sin', 'cos', 'tan', 'sinh', 'cosh', 'tanh', 'arcsin', 'arccos', 'arctan', 'arctan2', 'arctanh', 'exp', 'abs', 'ln', 'log',
                 'log2', 'log10', 'sqrt', 'sign', 'conj', 'real', 'imag', 'd', 'surfgrad', 'n', 'norm2', 'J')
GEOMLEN = 2
SPACEDEP = set(NS.SPACEDEP)


def isletter(ch):
    return 'a' <= ch <= 'z'


def isdigit(ch):
    return '0' <= ch <= '9'


def _apply_indices(ctx, idx, lens, summed, what, start=0, lenrule='R2'):
    '''the documented treatment of an index string attached to an array whose
    axes have lengths `lens`: numerals select, a letter that occurs twice is
    traced, more than twice is invalid.  Returns labels, lens, summed and the
    plan (list of operations on axes) for the evaluator.  Letters in `summed`
    were summed inside the array already and may not be reused.'''
    assert len(idx) == len(lens)
    for ch in idx:
        if not (isletter(ch) or isdigit(ch)):
            raise Reject('other', '{}: symbol {!r} is not an index'.format(what, ch))
    for ch in sorted(set(idx)):
        if isletter(ch) and (idx.count(ch) > 2 or (ch in summed)):
            raise Reject('R1', '{}: index {} used more than twice'.format(what, ch))
    labels = []
    outlens = []
    plan = []
    newsummed = set(summed)
    for pos, (ch, ln) in enumerate(zip(idx, lens)):
        if isdigit(ch):
            l = ctx.resolve(ln)
            if not isinstance(l, LVar) and int(ch) >= l:
                raise Reject('other', '{}: numeral {} out of range {}'.format(what, ch, l))
            if isinstance(l, LVar):
                raise Reject('other', '{}: numeral on an axis of deduced length'.format(what))
            plan.append(('take', len(labels), int(ch)))
        elif ch in labels:
            j = labels.index(ch)
            ctx.unify_soft(outlens[j], ln, '{}: index {}'.format(what, ch))
            plan.append(('trace', j, len(labels)))
            del labels[j]
            del outlens[j]
            newsummed.add(ch)
        else:
            labels.append(ch)
            outlens.append(ln)
            plan.append(('keep',))
    return ''.join(labels), tuple(outlens), frozenset(newsummed), plan


def typecheck(node, version, ctx=None, path=()):
    'returns a TNode or raises Reject'
    if ctx is None:
        ctx = Ctx(version)
    k = node[0]
    if version == 2 and k in V1_ONLY:
        raise Reject('other', 'v1 construct')
    if k == 'num':
        return TNode(node, [], Ty('', (), ()))
    if k == 'var':
        name, idx = node[1], node[2]
        if version == 2 and name == 'n':
            shape = (GEOMLEN,)
        elif name == 'x':
            shape = (GEOMLEN,)
        elif name in NS.SHAPES:
            shape = NS.SHAPES[name]
        elif name in (FUNCS_V2 if version == 2 else FUNCS_V1) or name in BUILTIN_FUNCS:
            # a function used as a variable: v2 documents functions and variables as distinct things; not a listed rule
            raise Reject('R3' if name in ('f', 'g', 'h', 'D', 'm') else 'other', 'function {} used as a variable'.format(name))
        else:
            raise Reject('R3', 'unknown variable {}'.format(name))
        if len(idx) != len(shape):
            raise Reject('other', 'variable {} has {} axes, got {} indices'.format(name, len(shape), len(idx)))
        labels, lens, summed, plan = _apply_indices(ctx, idx, shape, frozenset(), name)
        return TNode(node, [], Ty(labels, lens, summed), plan)
    if k in ('scope', 'jump', 'mean'):
        t = typecheck(node[1], version, ctx, path + (0,))
        return TNode(node, [t], Ty(t.ty.labels, t.ty.lens, t.ty.summed))
    if k == 'call':
        return _type_call(node, version, ctx, path)
    if k == 'pow':
        b = typecheck(node[1], version, ctx, path + (0,))
        e = node[2]
        if e[0] == 'int':
            et = TNode(e, [], Ty('', (), ()))
        else:
            et = typecheck(e[1], version, ctx, path + (1,))
        if et.ty.labels:
            raise Reject('other', 'exponent is not a scalar')
        summed = _merge_summed([b.ty.summed, et.ty.summed], b.ty.labels)
        return TNode(node, [b, et], Ty(b.ty.labels, b.ty.lens, summed))
    if k == 'mul':
        kids = [typecheck(f, version, ctx, path + (i,)) for i, f in enumerate(node[1])]
        for i, f in enumerate(node[1]):
            if i and (f[0] == 'num' or (f[0] == 'pow' and f[1][0] == 'num')):
                raise Reject('R4', 'number in a non-leading position of a term')
        summed = _merge_summed([t.ty.summed for t in kids], '')
        idx = ''.join(t.ty.labels for t in kids)
        lens = sum((t.ty.lens for t in kids), ())
        labels, lens, summed, plan = _apply_indices(ctx, idx, lens, summed, 'term')
        return TNode(node, kids, Ty(labels, lens, summed), plan)
    if k == 'frac':
        n = typecheck(node[1], version, ctx, path + (0,))
        d = typecheck(node[2], version, ctx, path + (1,))
        if d.ty.labels:
            raise Reject('other', 'denominator is not a scalar')
        summed = _merge_summed([n.ty.summed, d.ty.summed], n.ty.labels)
        return TNode(node, [n, d], Ty(n.ty.labels, n.ty.lens, summed))
    if k == 'add':
        signs, terms = node[1], node[2]
        kids = [typecheck(t, version, ctx, path + (i,)) for i, t in enumerate(terms)]
        first = kids[0].ty
        for t in kids[1:]:
            if set(t.ty.labels) != set(first.labels):
                raise Reject('R2', 'index sets of added terms differ: {!r} and {!r}'.format(first.labels, t.ty.labels))
        for t in kids[1:]:
            for lab, ln in zip(first.labels, first.lens):
                ctx.unify_soft(ln, t.ty.lens[t.ty.labels.index(lab)], 'index {} of added terms'.format(lab))
        summed = frozenset().union(*[t.ty.summed for t in kids])
        return TNode(node, kids, Ty(first.labels, first.lens, summed))
    if version == 1:
        return _type_v1(node, ctx, path)
    raise Reject('other', 'unknown node {}'.format(k))


def _merge_summed(parts, labels):
    merged = set()
    for p in parts:
        if merged & p:
            raise Reject('R1', 'index {} used more than twice'.format(sorted(merged & p)[0]))
        merged |= p
    for ch in labels:
        if ch in merged:
            raise Reject('R1', 'index {} used more than twice'.format(ch))
    return frozenset(merged)


def _type_call(node, version, ctx, path):
    name, gen, cons, args = node[1:]
    funcs = FUNCS_V2 if version == 2 else FUNCS_V1
    if name not in funcs:
        if name in BUILTIN_FUNCS:
            raise Reject('other', 'function {} is outside the modelled grammar'.format(name))
        if version == 1 and name in NS.SHAPES:
            raise Reject('other', 'variable called as a function')
        raise Reject('R3', 'unknown function {}'.format(name))
    if version == 2:
        if cons or len(args) != 1:
            raise Reject('other', 'v2 functions take one argument and consume nothing')
    genshape = funcs[name]
    if name == 'm':
        if len(args) != 2:
            raise Reject('other', 'm takes two arguments')
    elif len(args) != 1:
        raise Reject('other', '{} takes one argument'.format(name))
    if name == 'sum':
        if gen:
            raise Reject('other', 'sum generates no axes')
        if args[0][0] == 'omit':
            if cons:
                raise Reject('other', 'omitted indices together with consumed indices')
            vname = args[0][1]
            if vname not in NS.SHAPES:
                raise Reject('R3' if vname not in funcs and vname not in BUILTIN_FUNCS and vname not in ('n', 'x') else 'other', 'unknown variable {}'.format(vname))
            if not NS.SHAPES[vname]:
                raise Reject('other', 'sum of a scalar')
            return TNode(node, [], Ty('', (), ()), ('sumomit', vname))
        if not cons:
            raise Reject('other', 'sum must consume at least one axis')
    elif cons:
        raise Reject('other', 'only sum consumes axes in the modelled grammar')
    for a in args:
        if a[0] == 'omit':
            raise Reject('other', 'omitted indices')
    if len(gen) != len(genshape):
        raise Reject('other', 'function {} generates {} axes, got {} indices'.format(name, len(genshape), len(gen)))
    kids = [typecheck(a, version, ctx, path + (i,)) for i, a in enumerate(args)]
    if cons:
        for ch in cons:
            if not isletter(ch) or cons.count(ch) > 1:
                raise Reject('other', 'bad consumed indices')
        t = kids[0].ty
        if not set(cons) <= set(t.labels):
            raise Reject('other', 'consumed axes must be present in the argument')
        keep = [i for i, ch in enumerate(t.labels) if ch not in cons]
        labels = ''.join(t.labels[i] for i in keep)
        lens = tuple(t.lens[i] for i in keep)
        order = keep + [t.labels.index(ch) for ch in cons]
        summed = frozenset(t.summed | set(cons))
        return TNode(node, kids, Ty(labels, lens, summed), ('consume', order, len(cons)))
    if version == 2:
        genlens = genshape
    else:
        # v1 deduces the length of generated axes from the expression
        genlens = tuple(ctx.newlen('gen') for n in genshape)
        for ch in gen:
            if isdigit(ch):
                raise Reject('other', 'numeral on a generated axis (v1)')
        ctx.notes[path] = (genlens, genshape)
    try:
        summed = _merge_summed([t.ty.summed for t in kids], '')
    except Reject as e:
        raise Reject('other', 'summed indices shared between function arguments')
    idx = ''.join(t.ty.labels for t in kids) + gen
    lens = sum((t.ty.lens for t in kids), ()) + tuple(genlens)
    labels, lens, summed, plan = _apply_indices(ctx, idx, lens, summed, 'call of ' + name)
    return TNode(node, kids, Ty(labels, lens, summed), ('plain', plan))


CONST_OK = set(NS.CONSTANT)


def _is_constant_expr(node):
    'v1 substitution values: the function module only accepts replacements that do not depend on the mesh'
    k = node[0]
    if k in ('num', 'int'):
        return True
    if k == 'var':
        return node[1] in CONST_OK
    if k in ('scope',):
        return _is_constant_expr(node[1])
    if k == 'pow':
        return _is_constant_expr(node[1]) and (node[2][0] == 'int' or _is_constant_expr(node[2][1]))
    if k == 'mul':
        return all(_is_constant_expr(f) for f in node[1])
    if k == 'frac':
        return _is_constant_expr(node[1]) and _is_constant_expr(node[2])
    if k == 'add':
        return all(_is_constant_expr(f) for f in node[2])
    if k == 'call':
        return node[1] in ('f', 'g', 'h', 'm') and all(_is_constant_expr(a) for a in node[4])
    if k == 'stack':
        return all(_is_constant_expr(a) for a in node[1])
    return False


def _letters(node, acc=None):
    'all index letters that occur anywhere in the subtree'
    if acc is None:
        acc = set()
    k = node[0]
    if k == 'var':
        acc.update(ch for ch in node[2] if isletter(ch))
    elif k == 'arg':
        acc.update(ch for ch in node[2] if isletter(ch))
    elif k == 'normal':
        acc.update(ch for ch in node[1] if isletter(ch))
    elif k == 'eye':
        acc.update(ch for ch in node[2] if isletter(ch))
    elif k in ('scope', 'jump', 'mean'):
        _letters(node[1], acc)
    elif k == 'call':
        acc.update(ch for ch in node[2] + node[3] if isletter(ch))
        for a in node[4]:
            _letters(a, acc)
    elif k == 'grad':
        acc.update(ch for ch in node[3] if isletter(ch))
        _letters(node[1], acc)
    elif k == 'subs':
        _letters(node[1], acc)
        for name, idx, e in node[2]:
            acc.update(ch for ch in idx if isletter(ch))
            _letters(e, acc)
    elif k == 'stack':
        acc.update(ch for ch in node[2] if isletter(ch))
        for a in node[1]:
            _letters(a, acc)
    elif k == 'pow':
        _letters(node[1], acc)
        if node[2][0] == 'scope':
            _letters(node[2][1], acc)
    elif k == 'mul':
        for f in node[1]:
            _letters(f, acc)
    elif k == 'frac':
        _letters(node[1], acc)
        _letters(node[2], acc)
    elif k == 'add':
        for f in node[2]:
            _letters(f, acc)
    return acc


def _type_v1(node, ctx, path):
    k = node[0]
    if k == 'arg':
        name, idx = node[1], node[2]
        if name in ctx.args:
            lens = ctx.args[name]
            if len(lens) != len(idx):
                raise Reject('other', 'argument {} used with different numbers of axes'.format(name))
        else:
            lens = tuple(ctx.newlen('arg') for ch in idx)
            ctx.args[name] = lens
        labels, lens2, summed, plan = _apply_indices(ctx, idx, lens, frozenset(), '?' + name)
        return TNode(node, [], Ty(labels, lens2, summed), plan)
    if k == 'normal':
        idx = node[1]
        if len(idx) != 1:
            raise Reject('other', 'normal takes one index')
        labels, lens, summed, plan = _apply_indices(ctx, idx, (GEOMLEN,), frozenset(), 'normal')
        return TNode(node, [], Ty(labels, lens, summed), plan)
    if k == 'eye':
        idx = node[2]
        if len(idx) != 2:
            raise Reject('other', 'dirac takes two indices')
        if any(isdigit(ch) for ch in idx):
            raise Reject('other', 'numeral on the dirac')
        l = ctx.newlen('eye')
        ctx.notes[path] = l
        labels, lens, summed, plan = _apply_indices(ctx, idx, (l, l), frozenset(), 'dirac')
        return TNode(node, [], Ty(labels, lens, summed), plan)
    if k == 'jac':
        return TNode(node, [], Ty('', (), ()))
    if k == 'grad':
        item, kind, idx = node[1:]
        if item[0] not in ('var', 'scope'):
            raise Reject('other', 'gradient of something else than a variable or a compound')
        if item[0] == 'var' and item[1] not in NS.SHAPES and item[1] != 'x':
            pass
        if not idx:
            raise Reject('other', 'gradient without index')
        t = typecheck(item, 1, ctx, path + (0,))
        labels, lens, summed = t.ty.labels, t.ty.lens, t.ty.summed
        plans = []
        for ch in idx:
            n = len(labels)
            # only the new index is processed; it may coincide with a free index (trace) but not with a summed one
            if not (isletter(ch) or isdigit(ch)):
                raise Reject('other', 'bad gradient index')
            if isletter(ch) and ch in summed:
                raise Reject('R1', 'gradient index {} used more than twice'.format(ch))
            if isdigit(ch):
                if int(ch) >= GEOMLEN:
                    raise Reject('other', 'gradient numeral out of range')
                plans.append(('take', n, int(ch)))
            elif ch in labels:
                j = labels.index(ch)
                ctx.unify_soft(lens[j], GEOMLEN, 'gradient index {}'.format(ch))
                plans.append(('trace', j, n))
                labels = labels[:j] + labels[j + 1:]
                lens = lens[:j] + lens[j + 1:]
                summed = summed | {ch}
            else:
                labels += ch
                lens += (GEOMLEN,)
                plans.append(('keep',))
        return TNode(node, [t], Ty(labels, lens, summed), plans)
    if k == 'subs':
        item, subs = node[1], node[2]
        if item[0] not in ('var', 'arg', 'scope'):
            raise Reject('other', 'substitution applied to something else than a variable or a compound')
        if not subs:
            raise Reject('other', 'zero substitutions')
        t = typecheck(item, 1, ctx, path + (0,))
        outer = _letters(item)
        kids = [t]
        seen = set()
        for i, (name, idx, e) in enumerate(subs):
            if name in seen:
                raise Reject('other', 'argument substituted twice')
            seen.add(name)
            if any(not isletter(ch) for ch in idx) or len(set(idx)) != len(idx):
                raise Reject('other', 'bad indices on the left hand side of a substitution')
            if not _is_constant_expr(e):
                raise Reject('other', 'substitution value depends on the mesh (function module limitation)')
            if (_letters(e) | set(idx)) & outer:
                raise Reject('other', 'substitution reuses index letters of the enclosing expression')
            if name in ctx.args:
                lens = ctx.args[name]
                if len(lens) != len(idx):
                    raise Reject('other', 'argument {} used with different numbers of axes'.format(name))
            else:
                lens = tuple(ctx.newlen('arg') for ch in idx)
                ctx.args[name] = lens
            et = typecheck(e, 1, ctx, path + (i + 1,))
            if set(et.ty.labels) != set(idx):
                raise Reject('other', 'left and right hand side of a substitution have different indices')
            for ch, ln in zip(idx, lens):
                ctx.unify_soft(ln, et.ty.lens[et.ty.labels.index(ch)], 'substitution index {}'.format(ch))
            kids.append(et)
        return TNode(node, kids, Ty(t.ty.labels, t.ty.lens, t.ty.summed))
    if k == 'stack':
        args, idx = node[1], node[2]
        if len(idx) != 1 or not isletter(idx):
            raise Reject('other', 'stack takes one non-numeric index')
        if len(args) < 2:
            raise Reject('other', 'stack of fewer than two arrays')
        kids = [typecheck(a, 1, ctx, path + (i,)) for i, a in enumerate(args)]
        first = kids[0].ty
        for t in kids[1:]:
            if set(t.ty.labels) != set(first.labels):
                raise Reject('other', 'stacked arrays have different indices')
        for t in kids:
            if idx in t.ty.labels or idx in t.ty.summed:
                raise Reject('other', 'stack index occurs in a stacked array')
        for t in kids[1:]:
            for lab, ln in zip(first.labels, first.lens):
                ctx.unify_soft(ln, t.ty.lens[t.ty.labels.index(lab)], 'index {} of stacked arrays'.format(lab))
        summed = frozenset().union(*[t.ty.summed for t in kids])
        return TNode(node, kids, Ty(idx + first.labels, (len(args),) + first.lens, summed))
    if k == 'omit':
        raise Reject('other', 'omitted indices outside sum()')
    raise Reject('other', 'unknown node {}'.format(k))


def check(node, version):
    '''type check a complete expression.  Returns (tnode, ctx).  In v1 every
    deduced length must be determined by the expression, and the deduced length
    of a generated axis must be the length the function really generates.'''
    ctx = Ctx(version)
    t = typecheck(node, version, ctx)
    for v in ctx.lvars:
        if isinstance(ctx.resolve(v), LVar):
            raise Reject('other', 'length of an axis cannot be deduced from the expression')
    for path, note in ctx.notes.items():
        if isinstance(note, tuple):
            genlens, genshape = note
            for l, n in zip(genlens, genshape):
                if ctx.resolve(l) != n:
                    raise Reject('other', 'deduced length of a generated axis differs from the generated length')
    return t, ctx


# ------------------------------------------------------------------ reference semantics

def argvalue(name, shape):
    'the value bound to argument ?name at evaluation time (deterministic in name and shape)'
    n = int(numpy.prod(shape, dtype=int))
    base = .75 + .5 * (sum(ord(ch) for ch in name) % 5)
    return (base + .375 * numpy.arange(n)).reshape(shape)


def _run_plan(val, plan):
    for op in plan:
        if op[0] == 'take':
            val = R.take(val, op[1], op[2])
        elif op[0] == 'trace':
            val = R.trace(val, op[1], op[2])
    return val


def _outer_all(vals):
    r = vals[0]
    for v in vals[1:]:
        r = R.outer(r, v)
    return r


def _align(val, labels, target):
    return R.transpose(val, tuple(labels.index(ch) for ch in target))


def evaluate(t, ctx, env=None, path=()):
    '''reference value of a typed tree: the index-notation reading.  Returns a
    c19_ref.Val whose axes are t.ty.labels.  env maps v1 argument names to
    Vals (substitutions); unbound arguments take argvalue().'''
    node = t.node
    k = node[0]
    env = env or {}
    version = ctx.version
    V = NS.refvars()
    if k == 'num':
        return R.const(float(node[1]))
    if k == 'int':
        return R.const(float(int(node[1])))
    if k == 'var':
        name = node[1]
        base = R.normal() if (version == 2 and name == 'n') else V[name]
        return _run_plan(base, t.extra)
    if k == 'scope':
        return evaluate(t.kids[0], ctx, env, path + (0,))
    if k == 'jump':
        return R.jump(evaluate(t.kids[0], ctx, env, path + (0,)))
    if k == 'mean':
        return R.mean(evaluate(t.kids[0], ctx, env, path + (0,)))
    if k == 'call':
        name = node[1]
        mode = t.extra
        if mode[0] == 'sumomit':
            v = V[mode[1]]
            return R.sum_last(v, v.ndim)
        args = [evaluate(kid, ctx, env, path + (i,)) for i, kid in enumerate(t.kids)]
        if mode[0] == 'consume':
            v = R.transpose(args[0], tuple(mode[1]))
            return R.sum_last(v, mode[2])
        if name == 'm':
            r = R.outer(args[0], args[1])
        elif name == 'f':
            r = NS.ref_f(args[0])
        elif name == 'g':
            r = NS.ref_g(args[0])
        elif name == 'h':
            r = NS.ref_h(args[0])
        elif name == 'D':
            r = R.grad(args[0])
        else:
            raise AssertionError(name)
        return _run_plan(r, mode[1])
    if k == 'pow':
        b = evaluate(t.kids[0], ctx, env, path + (0,))
        e = t.kids[1]
        ev = R.const(float(int(e.node[1]))) if e.node[0] == 'int' else evaluate(e, ctx, env, path + (1,))
        return R.power(b, ev)
    if k == 'mul':
        vals = [evaluate(kid, ctx, env, path + (i,)) for i, kid in enumerate(t.kids)]
        return _run_plan(_outer_all(vals), t.extra)
    if k == 'frac':
        n = evaluate(t.kids[0], ctx, env, path + (0,))
        d = evaluate(t.kids[1], ctx, env, path + (1,))
        return R.divide(n, d)
    if k == 'add':
        signs = node[1]
        first = t.kids[0].ty.labels
        r = None
        for i, (s, kid) in enumerate(zip(signs, t.kids)):
            v = _align(evaluate(kid, ctx, env, path + (i,)), kid.ty.labels, first)
            if r is None:
                r = R.neg(v) if s == '-' else v
            else:
                r = R.sub(r, v) if s == '-' else R.add(r, v)
        return r
    # ---- v1
    if k == 'arg':
        name = node[1]
        if name in env:
            base = env[name]
        else:
            shape = tuple(ctx.resolve(l) for l in ctx.args[name])
            base = R.const(argvalue(name, shape))
        return _run_plan(base, t.extra)
    if k == 'normal':
        return _run_plan(R.normal(), t.extra)
    if k == 'eye':
        n = ctx.resolve(ctx.notes[path])
        return _run_plan(R.const(numpy.eye(n)), t.extra)
    if k == 'jac':
        return R.const(NS.JAC)
    if k == 'grad':
        v = evaluate(t.kids[0], ctx, env, path + (0,))
        kind = node[2]
        for op in t.extra:
            v = R.grad(v) if kind == ',' else R.surfgrad(v)
            v = _run_plan(v, [op])
        return v
    if k == 'subs':
        env2 = dict(env)
        for i, (name, idx, e) in enumerate(node[2]):
            et = t.kids[i + 1]
            ev = evaluate(et, ctx, env, path + (i + 1,))
            env2[name] = _align(ev, et.ty.labels, idx)
        return evaluate(t.kids[0], ctx, env2, path + (0,))
    if k == 'stack':
        first = t.kids[0].ty.labels
        vals = [_align(evaluate(kid, ctx, env, path + (i,)), kid.ty.labels, first) for i, kid in enumerate(t.kids)]
        return R.stack(vals)
    raise AssertionError('cannot evaluate {}'.format(k))


def free_args(t, ctx, bound=frozenset()):
    'v1: names of arguments that are not substituted away (they need a value at evaluation time)'
    node = t.node
    k = node[0]
    if k == 'arg':
        return set() if node[1] in bound else {node[1]}
    if k == 'subs':
        out = set()
        for kid in t.kids[1:]:
            out |= free_args(kid, ctx, bound)
        return out | free_args(t.kids[0], ctx, bound | {s[0] for s in node[2]})
    out = set()
    for kid in t.kids:
        out |= free_args(kid, ctx, bound)
    return out


def meaning(node, version):
    '''type check and evaluate: returns dict(labels, summed, val, args) or raises Reject / R.Undefined'''
    t, ctx = check(node, version)
    val = evaluate(t, ctx)
    lens = tuple(ctx.resolve(l) for l in t.ty.lens)
    if val.shape != lens:
        raise AssertionError('reference shape {} != typed shape {} for {!r}'.format(val.shape, lens, node))
    if not R.finite(val):
        raise R.Undefined('non-finite reference value')
    args = {}
    if version == 1:
        for name in sorted(free_args(t, ctx)):
            args[name] = argvalue(name, tuple(ctx.resolve(l) for l in ctx.args[name]))
    return {'labels': t.ty.labels, 'summed': t.ty.summed, 'val': val, 'args': args, 'shape': lens}
