'''C11 part (d2): locate as a HISTORY.  One topology object and one geometry object whose position depends on Arguments
(scale, shift) receive every sequence of <= 3 locate calls over a menu of argument valuations; after every call the located
points must map (with THAT call's arguments) within tol of the targets, in input order, inside their elements.  The
topologies keep per-object state between calls (StructuredTopology memoises an affine fit of the geometry), so the second
and third call are where a stale cache shows.  Added after an independently seeded change (cache keyed without the
arguments) was missed by the single-call enumeration.'''

import itertools, json
import numpy

TOPOS = ['rect', 'rect-refined', 'line', 'tri', 'hier']
ARGSETS = [{'scale': 1., 'shift': 0.}, {'scale': 2., 'shift': 0.}, {'scale': .5, 'shift': 1.25}, {'scale': 1., 'shift': -3.}]
GEOMS = ['scaled', 'scaled-const', 'nonlinear']


def build(name):
    from nutils import mesh
    if name == 'rect':
        return mesh.rectilinear([3, 2])
    if name == 'rect-refined':
        d, g = mesh.rectilinear([2, 2])
        return d.refined, g
    if name == 'line':
        return mesh.rectilinear([4])
    if name == 'tri':
        return mesh.unitsquare(2, 'triangle')
    d, g = mesh.rectilinear([2, 2])
    return d.refined_by([0]), g


def geometry(x, gname):
    from nutils import function
    s = function.Argument('scale', ())
    t = function.Argument('shift', ())
    if gname == 'scaled':
        return x * s + t
    if gname == 'scaled-const':
        return x * 2. + 1.            # no arguments: the memo may be used
    return x * s + t + .1 * x * x * s  # not affine: Newton path


def targets(topo, geom, args):
    'images of fixed local points of a few elements under the CURRENT arguments (computed with sample.eval: the forward map is not under test)'
    smp = topo.sample('bezier', 3)
    pts = smp.eval(geom, **args) if False else smp.eval(geom, arguments=args)
    keep = numpy.linspace(0, len(pts) - 1, 7).astype(int)
    # interior-ish points: average with the element centroid sample to stay off element boundaries
    cen = topo.sample('gauss', 1).eval(geom, arguments=args)
    return .75 * pts[keep] + .25 * cen[numpy.minimum(keep * len(cen) // len(pts), len(cen) - 1)]


def run_history(tname, gname, hist, tol=1e-9):
    'returns None or (key, what)'
    import treelog
    from nutils import function
    with treelog.set(treelog.NullLog()):
        topo, x = build(tname)
        geom = geometry(x, gname)
        for k, ia in enumerate(hist):
            args = ARGSETS[ia] if gname != 'scaled-const' else {}
            tg = targets(topo, geom, args)
            try:
                located = topo.locate(geom, tg, tol=tol, eps=1e-12, arguments=args)
            except Exception as e:
                return ('locate-history:raised:' + type(e).__name__, 'call {} of history {} (arguments {}) raised {!r} for targets that are images of points of the topology'.format(k, hist, args, e))
            got = located.eval(geom, arguments=args)
            if got.shape != tg.shape or not (numpy.linalg.norm(got - tg, axis=1) <= 1e-6).all():
                return ('locate-history:tolerance', 'call {} of history {} on {}/{}: located points map to {} instead of the targets {} (arguments {})'.format(
                    k, hist, tname, gname, numpy.round(got, 6).tolist(), numpy.round(tg, 6).tolist(), args))
    return None


def shards(tier):
    return [{'kind': 'lochist', 'topo': t, 'geom': g} for t in TOPOS for g in GEOMS]


def run(spec, tier, res):
    depth = 2 if tier == 'quick' else 3
    n = len(ARGSETS) if spec['geom'] != 'scaled-const' else 1
    for d in range(1, depth + 1):
        for hist in itertools.product(range(n), repeat=d):
            w = {'kind': 'lochist', 'topo': spec['topo'], 'geom': spec['geom'], 'hist': list(hist)}
            r = run_history(spec['topo'], spec['geom'], list(hist))
            res.count('evaluations', d)
            res.count('locate_calls', d)
            res.count('transitions', d)
            res.count('states')
            res.count('traces_validated_against_impl')
            if r:
                res.violation(r[0] + ':' + spec['geom'], r[1], w)
            elif len(set(hist)) > 1:
                res.distinct('distinct_nontrivial', json.dumps(w))
    res.sample({'part': 'locate-history', 'topo': spec['topo'], 'geom': spec['geom'], 'argument_sets': ARGSETS, 'depth': depth})


def replay(w):
    r = run_history(w['topo'], w['geom'], w['hist'])
    return None if r is None else '{}: {}'.format(*r)
