'''C20 helper: cases that do not fit the generic "call and compare" scheme:
item assignment (mutation + rejection leaves the target unchanged), Topology.locate
(keyword operands), q / 'unit string', the Dimension algebra, non-table methods.'''

import itertools, json, pickle, operator
from fractions import Fraction as F
import numpy
from . import core
from . import c20_model as M
from . import c20_dispatch as D

SPECIAL = {}
REPLAY = {}


def _report(res, w, viol, keyprefix):
    'viol: None or (kind, msg)'
    res.count('evaluations')
    if viol:
        res.count('cases_violation')
        res.violation('{}:{}'.format(viol[0], keyprefix), '{}: {}'.format(keyprefix, viol[1]), w)
    else:
        res.count('cases_ok')
        res.distinct('distinct_nontrivial', json.dumps(w, sort_keys=True))
    return 1


# ------------------------------------------------------------------ operator.setitem

SETFORMS = {
    'v[0]=s': ('v', 's', 0), 'v[:]=v': ('v', 'v', slice(None)), 'v[...]=s': ('v', 's', Ellipsis), 'v[1]=n': ('v', 'n', 1),
    'M[0]=v': ('M', 'v', 0), 'M[1,0]=s': ('M', 's', (1, 0)), 'M[:,1]=v': ('M', 'v', (slice(None), 1)),
}


def case_setitem(w):
    from nutils import SI
    f = D.fx()
    tk, vk, idx = SETFORMS[w['form']]
    dt, dv = [M.dec(d) for d in w['dims']]
    if not M.clean(dt) and not M.clean(dv):
        return 'trivial'
    target_raw = f.raw(tk, 0)
    before = target_raw.copy()
    target = D.wrap(dt, target_raw)
    value = D.wrap(dv, f.raw(vk, 1))
    expect = before.copy()
    expect[idx] = f.raw(vk, 1)
    try:
        operator.setitem(target, idx, value)
    except Exception as e:
        if M.clean(dt) == M.clean(dv):
            return 'raised:' + type(e).__name__, 'assigning a quantity of the same dimension raised {!r}'.format(e)
        if not numpy.array_equal(target_raw, before):
            return 'rejected-but-modified', 'the rejected assignment modified the target: {} -> {}'.format(before.tolist(), target_raw.tolist())
        return None
    if M.clean(dt) != M.clean(dv):
        return 'accepted-mismatch', 'assigned [{}] into an array of [{}]; target now {}'.format(M.dkey(dv), M.dkey(dt), target_raw.tolist())
    rd, rv = D.split(target)
    if rd != M.clean(dt):
        return 'wrong-dimension', 'target dimension changed to [{}]'.format(M.dkey(rd))
    if rv is not target_raw or not numpy.allclose(target_raw, expect, rtol=1e-12):
        return 'wrong-value', 'target holds {} expected {}'.format(numpy.asarray(rv).tolist(), expect.tolist())
    return None


def run_setitem(name, fn, res, tier):
    n = 0
    for form in SETFORMS:
        for dims in itertools.product(M.DIMS7, repeat=2):
            w = {'part': 'setitem', 'form': form, 'dims': [M.enc(d) for d in dims]}
            v = case_setitem(w)
            if v == 'trivial':
                res.count('cases_trivial')
                continue
            n += _report(res, w, v, name + ':' + form)
    return n


SPECIAL['_operator.setitem'] = run_setitem
REPLAY['setitem'] = lambda w: (lambda v: None if v in (None, 'trivial') else '{}: {}'.format(*v))(case_setitem(w))


# ------------------------------------------------------------------ q / 'unit'

SCALED = {'L': ('km', 1e3), 'T': ('min', 60.), 'M': ('g', 1e-3)}


def scaled_ustr(d):
    'a unit string of dimension d with a scale different from one, and that scale'
    d = M.clean(d)
    scale = 1.
    num, den = [], []
    for k, v in sorted(d.items()):
        u, s = SCALED[k]
        scale *= s ** float(v)
        (num if v > 0 else den).append(u + M._pstr(v))
    return '*'.join(num) + ''.join('/' + x for x in den), scale


def case_bystr(w):
    f = D.fx()
    dq, ds = [M.dec(d) for d in w['dims']]
    raw = f.raw(w['kind'], 0)
    q = D.wrap(dq, f.raw(w['kind'], 0))
    ustr, scale = scaled_ustr(ds) if w['scaled'] else (M.ustr(ds), 1.)
    t = D.T('bystr', [w['kind']], None, 'div', smp='smp')
    try:
        r = q / ustr
    except Exception as e:
        if M.clean(dq) == M.clean(ds):
            return 'raised:' + type(e).__name__, 'q[{}] / {!r} raised {!r}'.format(M.dkey(dq), ustr, e)
        return None
    if M.clean(dq) != M.clean(ds):
        return 'accepted-mismatch', 'q[{}] / {!r} returned {!r}'.format(M.dkey(dq), ustr, r)[:300]
    if D.has_quantity(r):
        return 'wrong-dimension', 'q / {!r} is still a Quantity'.format(ustr)
    d = D.same(D.norm(r, t), D.norm(raw / scale, t))
    if d:
        return 'wrong-value', 'q / {!r}: {}'.format(ustr, d)
    return None


def run_bystr(name, fn, res, tier):
    n = 0
    dims = [d for d in M.DIMS7 if d]
    for kind in ('s', 'n', 'v', 'g'):
        for dq in dims:
            for ds in dims:
                for scaled in (False, True):
                    w = {'part': 'bystr', 'kind': kind, 'dims': [M.enc(dq), M.enc(ds)], 'scaled': scaled}
                    n += _report(res, w, case_bystr(w), name + ':q/str')
    return n


SPECIAL['_operator.truediv'] = run_bystr
REPLAY['bystr'] = lambda w: (lambda v: None if v is None else '{}: {}'.format(*v))(case_bystr(w))


# ------------------------------------------------------------------ Topology.locate

def case_locate(w):
    '''geom, coords: dimension each; tol, maxdist: None (omitted) or a dimension.
    returns None / 'trivial' / 'unjudged' / (kind, msg)'''
    f = D.fx()
    dg, dc = M.dec(w['geom']), M.dec(w['coords'])
    dt = None if w['tol'] is None else M.dec(w['tol'])
    dm = None if w['maxdist'] is None else M.dec(w['maxdist'])
    if not any(M.clean(d) for d in (dg, dc, dt or {}, dm or {})):
        return 'trivial'
    if dt is None:
        return 'unjudged'   # locate needs tol or eps; with tol omitted the implementation insists on a dimensional tol (false rejection, not a soundness issue)
    kwargs = {'tol': D.wrap(dt, 1e-10)}
    if dm is not None:
        kwargs['maxdist'] = D.wrap(dm, 10.)
    geom = D.wrap(dg, f.x)
    coords = D.wrap(dc, f.raw('c2', 0))
    valid = M.clean(dg) == M.clean(dc) == M.clean(dt) and (dm is None or M.clean(dm) == M.clean(dg))
    try:
        smp = f.topo.locate(geom, coords, **kwargs)
    except Exception as e:
        if valid:
            return 'raised:' + type(e).__name__, 'dimensionally consistent locate raised {!r}'.format(e)
        return None
    if not valid:
        return 'accepted-mismatch', 'locate accepted geom[{}] coords[{}] tol[{}] maxdist[{}]'.format(M.dkey(dg), M.dkey(dc), M.dkey(dt), 'omitted' if dm is None else M.dkey(dm))
    if D.has_quantity(smp):
        return 'wrong-dimension', 'locate returned a Quantity'
    got = numpy.asarray(smp.eval(f.x))
    if got.shape != (2, 2) or not numpy.allclose(got, f.raw('c2', 0), atol=1e-8):
        return 'wrong-value', 'located points {} != {}'.format(got.tolist(), f.raw('c2', 0).tolist())
    return None


def run_locate(name, fn, res, tier):
    n = 0
    opt = [None] + [M.enc(d) for d in M.DIMS7]
    for dg in M.DIMS7:
        for dc in M.DIMS7:
            for dt in opt:
                for dm in opt:
                    w = {'part': 'locate', 'geom': M.enc(dg), 'coords': M.enc(dc), 'tol': dt, 'maxdist': dm}
                    v = case_locate(w)
                    if v in ('trivial', 'unjudged'):
                        res.count('cases_' + v)
                        continue
                    n += _report(res, w, v, name)
    return n


SPECIAL['nutils.topology.Topology.locate'] = run_locate
REPLAY['locate'] = lambda w: (lambda v: None if v in (None, 'trivial', 'unjudged') else '{}: {}'.format(*v))(case_locate(w))


# ------------------------------------------------------------------ Dimension algebra

def _name_powers(name):
    'independent reading of a Dimension name such as [M*L3_2/T2]'
    assert name.startswith('[') and name.endswith(']')
    out = {}
    for i, part in enumerate(name[1:-1].split('*')):
        for j, fac in enumerate(part.split('/')):
            if not fac:
                continue
            base = fac.rstrip('0123456789_')
            p = M.parse_power(fac[len(base):])
            out[base] = out.get(base, 0) + (p if j == 0 else -p)
    return M.clean(out)


def case_dim1(w):
    from nutils import SI
    d = M.dec(w['d'])
    T = SI.Dimension.from_powers(dict(d))
    if D.powers_of(T) != d:
        return 'from-powers', 'from_powers({}) has powers {}'.format(M.dkey(d), M.dkey(D.powers_of(T)))
    if _name_powers(T.__name__) != d:
        return 'name', 'from_powers({}) is named {}'.format(M.dkey(d), T.__name__)
    if SI.Dimension.from_powers(dict(d)) is not T:
        return 'not-interned', 'from_powers({}) twice gives two types'.format(M.dkey(d))
    if getattr(SI.Quantity, T.__name__) is not T or pickle.loads(pickle.dumps(T)) is not T:
        return 'pickle', 'type {} does not survive lookup by name / pickling'.format(T.__name__)
    if bool(T) != bool(d):
        return 'bool', 'bool({}) = {}'.format(T.__name__, bool(T))
    q = T.wrap(2.5)
    if d:
        if type(q) is not T or q.unwrap() != 2.5 or T(q) is not q:
            return 'wrap', '{}.wrap(2.5) = {!r}'.format(T.__name__, q)
        q2 = pickle.loads(pickle.dumps(q))
        if type(q2) is not T or q2.unwrap() != 2.5 or hash(q2) != hash(q) or not (q2 == q):
            return 'pickle', 'quantity {!r} unpickles as {!r}'.format(q, q2)
    elif q != 2.5 or isinstance(q, SI.Quantity):
        return 'wrap', 'Dimensionless.wrap(2.5) = {!r}'.format(q)
    for e in w['exps']:
        ee = F(e[0], e[1])
        for form in (ee, float(ee)) + ((int(ee),) if ee.denominator == 1 else ()):
            try:
                P = T ** form
            except Exception as exc:
                return 'pow-raised', '{} ** {!r} raised {!r}'.format(T.__name__, form, exc)
            if D.powers_of(P) != M.dpow(d, ee):
                return 'pow', '{} ** {!r} = {}'.format(T.__name__, form, P.__name__)
    return None


def case_dim2(w):
    from nutils import SI
    a, b = M.dec(w['a']), M.dec(w['b'])
    A, B = SI.Dimension.from_powers(dict(a)), SI.Dimension.from_powers(dict(b))
    if (A is B) != (a == b) or (A == B) != (a == b):
        return 'identity', '{} is {}: {}'.format(A.__name__, B.__name__, A is B)
    if D.powers_of(A * B) != M.dmul(a, b):
        return 'mul', '{} * {} = {}'.format(A.__name__, B.__name__, (A * B).__name__)
    if D.powers_of(A / B) != M.ddiv(a, b):
        return 'div', '{} / {} = {}'.format(A.__name__, B.__name__, (A / B).__name__)
    return None


DIMEXPS = [[0, 1], [1, 1], [2, 1], [3, 1], [-1, 1], [-2, 1], [1, 2], [-1, 2], [3, 2]]


KNOWN_ATTRS = set('''__abs__ __add__ __array_function__ __array_ufunc__ __bool__ __dict__ __doc__ __eq__ __format__ __from_ags__ __ge__
    __getitem__ __getnewargs__ __gt__ __hash__ __init__ __into_ags__ __iter__ __le__ __len__ __lt__ __matmul__ __mod__ __module__ __mul__ __ne__
    __neg__ __nutils_dispatch__ __pos__ __pow__ __radd__ __repr__ __rmatmul__ __rmod__ __rmul__ __rpow__ __rsub__ __rtruediv__ __setitem__ __str__
    __sub__ __truediv__ __weakref__ unwrap __firstlineno__ __static_attributes__ __annotations__ __qualname__'''.split())


def run_dimalg(res, tier):
    from nutils import SI
    unknown = sorted(k for k in vars(SI.Quantity) if k not in KNOWN_ATTRS and not k.startswith('_Quantity__'))
    if unknown:
        res.errors.append('Quantity defines {} which the C20 catalogue does not model: add call templates for them (NOT checked)'.format(unknown))
    vecs = list(M.all_vectors())
    for d in vecs:
        w = {'part': 'dim1', 'd': M.enc(d), 'exps': DIMEXPS}
        _report(res, w, case_dim1(w), 'dimension')
    names = set()
    from nutils import SI
    for d in vecs:
        names.add(SI.Dimension.from_powers(dict(d)).__name__)
    if len(names) != len(vecs):
        res.violation('name-collision:dimension', '{} exponent vectors share {} names'.format(len(vecs), len(names)), {'part': 'dim1', 'd': [], 'exps': []})
    for a in vecs:
        for b in vecs:
            w = {'part': 'dim2', 'a': M.enc(a), 'b': M.enc(b)}
            res.count('evaluations')
            v = case_dim2(w)
            if v:
                res.violation('{}:dimension'.format(v[0]), v[1], w)
            elif len(a) + len(b) > 0:
                res.count('dimension_pairs')
    # one digest per unordered support pattern keeps the distinct set small; pairs are counted above
    res.distinct('distinct_outcomes', 'dimension-algebra')


REPLAY['dim1'] = lambda w: (lambda v: None if v is None else '{}: {}'.format(*v))(case_dim1(w)) if w['d'] or w['exps'] else None
REPLAY['dim2'] = lambda w: (lambda v: None if v is None else '{}: {}'.format(*v))(case_dim2(w))
