'''C10 supplement: intersection (common refinement) `A & B` of hierarchical refinements of one base topology.
Added after an independently seeded change (HierarchicalTopology.__and__ truncating to the shallower operand) was missed:
`&` is not in the operation menu of the main explorer.  All pairs of refinement histories of depth <= 2 (thorough 3) over a
base mesh; oracle on axis-aligned boxes (exact dyadic coordinates): A&B covers the base measure, every element of A&B is an
element of A or of B, every element of A and of B is exactly tiled by elements of A&B, and A&B == B&A.'''

import itertools, json
import numpy

BASES = ['line3', 'rect22', 'rect21']


def base(name):
    from nutils import mesh
    return {'line3': lambda: mesh.rectilinear([3]), 'rect22': lambda: mesh.rectilinear([2, 2]), 'rect21': lambda: mesh.rectilinear([2, 1])}[name]()


def histories(nbase, depth):
    'refined_by histories: each step refines one or two elements, chosen by index into the current topology'
    out = [[]]
    frontier = [[]]
    for d in range(depth):
        nxt = []
        for h in frontier:
            for sel in ([0], [-1], [0, -1], [1]):
                nxt.append(h + [sel])
        out += nxt
        frontier = nxt
    return out


def build(name, hist, start=None):
    topo, geom = start or base(name)
    for sel in hist:
        idx = sorted({i % len(topo) for i in sel})
        topo = topo.refined_by(idx)
    return topo, geom


def boxes(topo, geom):
    'exact bounding boxes of the (axis-aligned) elements'
    smp = topo.sample('bezier', 2)
    x = smp.eval(geom)
    out = []
    for i in range(len(topo)):
        p = x[smp.getindex(i)]
        out.append((tuple(p.min(0).tolist()), tuple(p.max(0).tolist())))
    return out


def vol(b):
    return float(numpy.prod(numpy.subtract(b[1], b[0])))


def inside(b, c):
    return all(c[0][k] <= b[0][k] + 1e-12 and b[1][k] <= c[1][k] + 1e-12 for k in range(len(b[0])))


def check_pair(name, h1, h2):
    import treelog
    with treelog.set(treelog.NullLog()):
        start = base(name)           # ONE base object: hierarchical topologies intersect level-wise only when they share it
        A, geom = build(name, h1, start)
        B, _ = build(name, h2, start)
        try:
            C = A & B
            D = B & A
        except Exception as e:
            return ('and:raised:' + type(e).__name__, 'A & B raised {!r} for A={} B={} on {}'.format(e, h1, h2, name))
        a, b, c, d = boxes(A, geom), boxes(B, geom), boxes(C, geom), boxes(D, geom)
    total = sum(map(vol, a))
    if abs(sum(map(vol, c)) - total) > 1e-12:
        return ('and:measure', 'A & B has measure {} but the operands cover {} (A={}, B={} on {})'.format(sum(map(vol, c)), total, h1, h2, name))
    if sorted(c) != sorted(d):
        return ('and:not-commutative', 'A & B and B & A have different elements (A={}, B={} on {})'.format(h1, h2, name))
    sa, sb = set(a), set(b)
    for e in c:
        if e not in sa and e not in sb:
            return ('and:foreign-element', 'element {} of A & B is neither an element of A nor of B (A={}, B={} on {})'.format(e, h1, h2, name))
    for e in a + b:
        if abs(sum(vol(x) for x in c if inside(x, e)) - vol(e)) > 1e-12:
            return ('and:not-a-refinement', 'element {} of an operand is not tiled by elements of A & B (A={}, B={} on {})'.format(e, h1, h2, name))
    return None


def shards(tier):
    return [{'kind': 'and', 'base': b} for b in BASES]


def run(spec, tier, res):
    hs = histories(None, 2 if tier == 'quick' else 3)
    n = 0
    for h1, h2 in itertools.combinations_with_replacement(hs, 2):
        w = {'kind': 'and', 'base': spec['base'], 'h1': h1, 'h2': h2}
        r = check_pair(spec['base'], h1, h2)
        res.count('evaluations'); res.count('states'); res.count('transitions'); res.count('traces_validated_against_impl')
        if r:
            res.violation(r[0], r[1], w)
        elif len(h1) != len(h2):
            res.distinct('distinct_nontrivial', json.dumps(w))
    res.sample({'part': 'intersection', 'base': spec['base'], 'pairs': len(hs) * (len(hs) + 1) // 2})


def replay(w):
    r = check_pair(w['base'], w['h1'], w['h2'])
    return None if r is None else '{}: {}'.format(*r)
