def shards(tier):
    return []
