'''C11 part (b): all well-formed transform chains up to a given length.

Typed alphabet: every item maps a reference type to a reference type
(P point, L line, T triangle, K tetrahedron, LL line^2, LT line x triangle), so
that only chains that can occur on a real reference are enumerated.

Oracle (numpy only): a chain denotes x -> A x + b obtained by composing the
items' .linear / .offset matrices; canonical / uppermost / promote must return a
well-formed chain with the same (A, b), the same orientation parity, and must be
idempotent; iscanonical(canonical(c)).
'''

import json
import numpy
from . import core

DIM = {'P': 0, 'L': 1, 'T': 2, 'K': 3, 'LL': 2, 'LT': 3}
VERTS = {'P': numpy.zeros((1, 0)),
         'L': numpy.array([[0.], [1.], [.5]]),
         'T': numpy.array([[0, 0], [1, 0], [0, 1], [1 / 3, 1 / 3]]),
         'K': numpy.array([[0, 0, 0], [1, 0, 0], [0, 1, 0], [0, 0, 1], [.25, .25, .25]]),
         'LL': numpy.array([[0, 0], [1, 0], [0, 1], [1, 1], [.5, .5]]),
         'LT': numpy.array([[0, 0, 0], [1, 0, 0], [0, 1, 0], [0, 0, 1], [1, 1, 0], [1, 0, 1], [.5, 1 / 3, 1 / 3]])}
STARTS = ['L', 'T', 'LL', 'K', 'LT']


def base_specs(t, inv):
    'child and edge items of reference type t as (spec, target type)'
    flips = (0, 1) if inv else (0,)
    out = []
    if t == 'P':
        out += [(['SC', 0, 0], 'P')]
    if t == 'L':
        out += [(['SC', 1, k], 'L') for k in range(2)] + [(['SE', 1, e, f], 'P') for e in range(2) for f in flips]
    if t == 'T':
        out += [(['SC', 2, k], 'T') for k in range(4)] + [(['SE', 2, e, f], 'L') for e in range(3) for f in flips]
    if t == 'K':
        out += [(['SC', 3, k], 'K') for k in range(8)] + [(['SE', 3, e, f], 'T') for e in range(4) for f in flips]
    if t == 'LL':
        out += [(['TC', ['SC', 1, a], ['SC', 1, b]], 'LL') for a in range(2) for b in range(2)]
        out += [(['TE1', ['SE', 1, e, f], 1], 'L') for e in range(2) for f in flips]
        out += [(['TE2', 1, ['SE', 1, e, f]], 'L') for e in range(2) for f in flips]
    if t == 'LT':
        out += [(['TC', ['SC', 1, a], ['SC', 2, b]], 'LT') for a in range(2) for b in range(4)]
        out += [(['TE1', ['SE', 1, e, f], 2], 'T') for e in range(2) for f in flips]
        out += [(['TE2', 1, ['SE', 2, e, f]], 'LL') for e in range(3) for f in flips]
    return out


_ALPHA = {}


def alphabet(t, inv, su=True):
    if (t, inv, su) not in _ALPHA:
        b = base_specs(t, inv)
        out = list(b)
        out.append((['ID', DIM[t]], t))
        ch = [s for s, t2 in b if t2 == t]
        ed = [(s, t2) for s, t2 in b if t2 != t]
        if su:
            out += [(['SU', c, e], t2) for c in ch for e, t2 in ed]
        _ALPHA[t, inv, su] = [(s, t2, build_item(s)) for s, t2 in out]
    return _ALPHA[t, inv, su]


def build_item(s):
    from nutils import transform as T
    k = s[0]
    if k == 'SC':
        return T.SimplexChild(s[1], s[2])
    if k == 'SE':
        return T.SimplexEdge(s[1], s[2], bool(s[3]))
    if k == 'TC':
        return T.TensorChild(build_item(s[1]), build_item(s[2]))
    if k == 'TE1':
        return T.TensorEdge1(build_item(s[1]), s[2])
    if k == 'TE2':
        return T.TensorEdge2(s[1], build_item(s[2]))
    if k == 'ID':
        return T.Identity(s[1])
    if k == 'SU':
        return T.ScaledUpdim(build_item(s[1]), build_item(s[2]))
    raise core.HarnessError('unknown item spec {}'.format(s))


def chains(t, n, inv, su=True):
    'all typed chains of exactly n items starting at reference type t: yields (specs, items, final type)'
    if n == 0:
        yield [], (), t
        return
    for s, t2, item in alphabet(t, inv, su):
        for ss, items, t3 in chains(t2, n - 1, inv, su):
            yield [s] + ss, (item,) + items, t3


def shards(tier):
    '''quick: full alphabet (no inverted edges) to length 4 for L, T, LL and to length 3 for K, LT, plus all length-4
    chains of K, LT without ScaledUpdim items; thorough: full alphabet incl. inverted edges to length 4 everywhere'''
    out = []
    if tier == 'quick':
        for t in ('L', 'T', 'LL'):
            out.append({'kind': 'chain', 'start': t, 'chunk': 0, 'nchunk': 1, 'minlen': 1, 'maxlen': 4, 'inv': 0, 'su': 1})
        for t in ('K', 'LT'):
            for k in range(2):
                out.append({'kind': 'chain', 'start': t, 'chunk': k, 'nchunk': 2, 'minlen': 1, 'maxlen': 3, 'inv': 0, 'su': 1})
            for k in range(2):
                out.append({'kind': 'chain', 'start': t, 'chunk': k, 'nchunk': 2, 'minlen': 4, 'maxlen': 4, 'inv': 0, 'su': 0})
    else:
        for t in ('L', 'T', 'LL'):
            nchunk = 1 if t == 'L' else 2
            for k in range(nchunk):
                out.append({'kind': 'chain', 'start': t, 'chunk': k, 'nchunk': nchunk, 'minlen': 1, 'maxlen': 4, 'inv': 1, 'su': 1})
        for t in ('K', 'LT'):
            for k in range(16):
                out.append({'kind': 'chain', 'start': t, 'chunk': k, 'nchunk': 16, 'minlen': 1, 'maxlen': 4, 'inv': 1, 'su': 1})
    return out


def affine(chain):
    'numpy composition of the items\' matrices: returns (A, b) with x -> A x + b'
    A = b = None
    for item in chain:
        L = numpy.asarray(item.linear, dtype=float)
        o = numpy.asarray(item.offset, dtype=float)
        if A is None:
            A, b = L, o
        else:
            A, b = A @ L, A @ o + b
    return A, b


def parity(chain):
    return sum(1 for item in chain if bool(item.isflipped)) % 2


def wellformed(chain, todims, fromdims):
    if not isinstance(chain, tuple):
        return 'result is a {} not a tuple'.format(type(chain).__name__)
    if not chain:
        return 'empty result'
    if chain[0].todims != todims or chain[-1].fromdims != fromdims:
        return 'maps {}->{} instead of {}->{}'.format(chain[-1].fromdims, chain[0].todims, fromdims, todims)
    for a, b in zip(chain, chain[1:]):
        if a.fromdims != b.todims:
            return 'dimension mismatch between {} and {}'.format(a, b)
    return None


def check_chain(c, t_final):
    '''returns (None, changed?) or ((key, what), changed)'''
    from nutils import transform
    x = VERTS[t_final]
    A, b = affine(c)
    ref = x @ A.T + b
    par = parity(c)
    todims, fromdims = c[0].todims, c[-1].fromdims
    changed = False
    try:
        got = numpy.asarray(transform.apply(c, x))
    except Exception as e:
        return ('apply:raise', 'transform.apply raised {!r}'.format(e)), changed
    if got.shape != ref.shape or not numpy.allclose(got, ref, rtol=0, atol=1e-13):
        return ('apply:map', 'transform.apply(c, vertices) = {} but composing the matrices gives {}'.format(got.tolist(), ref.tolist())), changed
    fs = [('canonical', transform.canonical), ('uppermost', transform.uppermost)] + [('promote{}'.format(n), (lambda ch, n=n: transform.promote(ch, n))) for n in range(4)]
    for name, f in fs:
        kname = name.rstrip('0123')
        try:
            d = f(c)
        except core.Timeout:
            raise
        except Exception as e:
            return ('{}:raise:{}'.format(kname, type(e).__name__), '{} raised {!r}'.format(name, e)), changed
        d = tuple(d) if isinstance(d, list) else d
        wf = wellformed(d, todims, fromdims)
        if wf:
            return ('{}:illformed'.format(kname), '{} returned {}: {}'.format(name, d, wf)), changed
        if d != c:
            changed = True
        A2, b2 = affine(d)
        if A2.shape != A.shape or not (numpy.allclose(A2, A, rtol=0, atol=1e-13) and numpy.allclose(b2, b, rtol=0, atol=1e-13)):
            return ('{}:map'.format(kname), '{} returned {} = x->{}x+{} but the chain is x->{}x+{}'.format(name, d, A2.tolist(), b2.tolist(), A.tolist(), b.tolist())), changed
        got = numpy.asarray(transform.apply(d, x))
        if got.shape != ref.shape or not numpy.allclose(got, ref, rtol=0, atol=1e-13):
            return ('{}:apply'.format(kname), 'apply({}(c), vertices) = {} != {}'.format(name, got.tolist(), ref.tolist())), changed
        if parity(d) != par:
            return ('{}:orientation'.format(kname), '{} returned {} with isflipped parity {} but the chain has parity {}'.format(name, d, parity(d), par)), changed
        try:
            dd = f(d)
        except core.Timeout:
            raise
        except Exception as e:
            return ('{}:raise2:{}'.format(kname, type(e).__name__), '{}({}(c)) raised {!r}'.format(name, name, e)), changed
        if tuple(dd) != d:
            return ('{}:idempotence'.format(kname), '{}(c) = {} but applying {} again gives {}'.format(name, d, name, dd)), changed
        if name == 'canonical' and not transform.iscanonical(d):
            return ('canonical:notcanonical', 'iscanonical(canonical(c)) is False for canonical(c) = {}'.format(d)), changed
    return None, changed


def run(spec, tier, res):
    t0 = spec['start']
    inv = bool(spec['inv'])
    su = bool(spec['su'])
    first = alphabet(t0, inv, su)
    for ifirst, (s, t2, item) in enumerate(first):
        if ifirst % spec['nchunk'] != spec['chunk']:
            continue
        for n in range(spec['minlen'] - 1, spec['maxlen']):
            for ss, items, t3 in chains(t2, n, inv, su):
                specs = [s] + ss
                c = (item,) + items
                res.count('evaluations')
                res.count('chains')
                res.count('states')
                res.count('transitions', 6)  # canonical, uppermost, promote to 0..3 dims, each executed on the real code
                res.count('traces_validated_against_impl', 6)
                try:
                    with core.alarm(30):
                        bad, changed = check_chain(c, t3)
                except core.Timeout:
                    bad, changed = ('hang', 'canonical/uppermost/promote did not return within 30 s'), False
                if bad:
                    res.violation('chain:' + bad[0], 'chain {}: {}'.format(c, bad[1]), {'kind': 'chain', 'items': specs, 'final': t3})
                    continue
                if changed:
                    res.distinct('distinct_nontrivial', json.dumps(specs))
                    res.count('chains_rewritten')
                    if len(res.samples) < 1 and len(c) == 3:
                        res.sample({'part': 'chain', 'chain': [repr(i) for i in c], 'final_reference': t3})


def replay(w):
    c = tuple(build_item(s) for s in w['items'])
    try:
        with core.alarm(30):
            bad, changed = check_chain(c, w['final'])
    except core.Timeout:
        bad = ('hang', 'canonical/uppermost/promote did not return within 30 s')
    return None if bad is None else '{}: chain {}: {}'.format(bad[0], c, bad[1])
