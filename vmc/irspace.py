'''Sharded, deterministic enumeration of the IR term space (vmc.terms) shared by C01 C02 C04 C05 C06.

A *space* is described by a JSON-able profile
  {'name':..., 'leaves': [...leaf names...], 'consts': bool, 'ops': 'all' | 'core' | [names], 'depth': d, 'binary': bool}
Level k is `grow` applied to level k-1 (level 0 = leaves); the space is the union of levels 1..d.
Shards: (profile, level, part, nparts): the worker regenerates the level-1 parents deterministically and grows one
constructor on top of the part-th contiguous chunk of them; the chunks partition the level.
'''

from . import terms as T

LEAFSETS = {
    'f5': [T.A('s', ()), T.A('a', (2,)), T.A('A', (2, 2)), T.A('B', (2, 3)), T.A('T', (2, 2, 2))],
    'f7': T.FLOAT_LEAVES,
    'sq': [T.A('a', (2,)), T.A('A', (2, 2)), T.A('T', (2, 2, 2))],
    'aA': [T.A('a', (2,)), T.A('A', (2, 2))],
    'sq3': [T.A('a', (2,)), T.A('b', (3,)), T.A('A', (2, 2)), T.A('C', (3, 3))],
    'mixed': [T.A('a', (2,)), T.A('A', (2, 2)), T.A('I', (2,), 'i'), T.A('p', (2,), 'b'), T.A('z', (2,), 'c')],
    'int': [T.A('i', (), 'i'), T.A('I', (2,), 'i'), ('range', (3,)), T.LOOP_L, ('const', (-2, 'i')), ('const', (3, 'i')), ('const', ((1, 0), 'i')),
            ('toint', (), T.A('p', (2,), 'b')), ('const', ((2, 0, 1), 'i')), ('const', ((3, 5, 2), 'i')), ('const', ((4, 1, 3), 'i'))],
    'int-small': [T.A('i', (), 'i'), T.A('I', (2,), 'i'), ('range', (3,)), T.LOOP_L, ('const', (-2, 'i')), ('const', (3, 'i')), ('const', ((3, 5, 2), 'i'))],
    'all': T.FLOAT_LEAVES + T.INT_LEAVES + T.BOOL_LEAVES + T.COMPLEX_LEAVES,
}


def leaves_of(profile):
    l = list(LEAFSETS[profile['leaves']])
    if profile.get('consts'):
        l += T.CONST_LEAVES
    return l


def ops_of(profile):
    o = profile.get('ops', 'all')
    if o == 'all':
        return None
    if o == 'core':
        return set(T.CORE)
    return set(o)


_cache = {}


def level(profile, k):
    'list of all terms of exactly level k (deterministic order, deduplicated)'
    key = (repr(sorted(profile.items())), k)
    if key in _cache:
        return _cache[key]
    leaves = leaves_of(profile)
    if k == 0:
        out = leaves
    else:
        seen = set()
        out = []
        for t in T.grow(level(profile, k - 1), leaves, ops_of(profile), binary=profile.get('binary', True)):
            if t not in seen:
                seen.add(t)
                out.append(t)
    _cache[key] = out
    return out


def shard_terms(profile, k, part, nparts):
    '''terms of level k generated from the part-th contiguous chunk of level k-1 (sibling pairs are formed inside a chunk;
    unary applications of one child are contiguous in a level, so almost all sibling pairs are kept)'''
    leaves = leaves_of(profile)
    parents = level(profile, k - 1)
    n = len(parents)
    lo, hi = part * n // nparts, (part + 1) * n // nparts
    seen = set()
    for t in T.grow(parents[lo:hi], leaves, ops_of(profile), binary=profile.get('binary', True)):
        if t not in seen:
            seen.add(t)
            yield t


def shards(profiles, nparts_per_level):
    'JSON shard specs, simplest (lowest level) first'
    out = []
    for prof in profiles:
        for k in range(1, prof['depth'] + 1):
            n = nparts_per_level.get(k, 1)
            for part in range(n):
                out.append({'profile': prof, 'level': k, 'part': part, 'nparts': n})
    out.sort(key=lambda s: s['level'])
    return out
