'''C13 oracle: compare real nutils objects built from a term (in several spellings)
with the reference interpreter and the static model of c13_terms.'''

import json
import numpy
from . import c13_terms as T

_LOG = None


def quiet():
    'silence nutils logging for this process (factor logs through treelog)'
    global _LOG
    if _LOG is None:
        import treelog
        _LOG = treelog.set(treelog.NullLog())
        _LOG.__enter__()


_CTX = {}


def ctx(scheme):
    quiet()
    if scheme not in _CTX:
        _CTX[scheme] = T.Ctx(scheme)
    return _CTX[scheme]


def leaf_types(t, out=None):
    'name -> set of (shape, dtype) over all argument leaves, keys and bare-name values of the term'
    if out is None:
        out = {}
    if not isinstance(t, list) or not t:
        return out
    op = t[0]
    if op == 'a':
        out.setdefault(t[1], set()).add((tuple(T.ARGS[t[1]][0]), T.ARGS[t[1]][1]))
        return out
    if op == 'ax':
        out.setdefault(t[1], set()).add((tuple(t[2]), t[3]))
        return out
    if op == 'k':
        return out
    if op in ('replace', 'lin'):
        leaf_types(t[1], out)
        for key, val in t[2]:
            if not isinstance(key, str):
                leaf_types(key, out)
            leaf_types(T.value_term(key, val), out)
        return out
    if op == 'der':
        leaf_types(t[1], out)
        if not isinstance(t[2], str):
            leaf_types(t[2], out)
        return out
    for c in t[1:]:
        if isinstance(c, list):
            leaf_types(c, out)
    return out


def environment(t, ival):
    '''abstract name -> value for every name of ARGS plus every name the term mentions; a name used
    with a non-default type gets a deterministic value of that type; None if a name is used with two types'''
    env = T.valuation(ival)
    for name, types in leaf_types(t).items():
        if len(types) != 1:
            return None
        (shape, dtype), = types
        if name in T.ARGS and (tuple(T.ARGS[name][0]), T.ARGS[name][1]) == (shape, dtype):
            continue
        size = int(numpy.prod(shape, dtype=int))
        base = (numpy.arange(size) * .37 + .21 + .1 * ival) * (-1) ** numpy.arange(size)
        if dtype != 'float':
            base = numpy.arange(size) + 2 + ival
        env[name] = numpy.array(base, dtype=T.DT[dtype]).reshape(shape)
    return env


def concrete(env, scheme):
    names = T.SCHEMES[scheme]
    return {names.get(k, k): v for k, v in env.items()}


def manip_path(t, out=None, top=True):
    if out is None:
        out = []
    if isinstance(t, list) and t and isinstance(t[0], str):
        if t[0] in ('replace', 'lin', 'der', 'fac', 'int', 'bind') and len(out) < 4:
            out.append(t[0])
        if t[0] in ('replace', 'lin'):
            manip_path(t[1], out, False)
            for key, val in t[2]:
                if val[0] not in ('name', 'k'):
                    manip_path(val, out, False)
        elif t[0] not in ('a', 'ax', 'k', 'x'):
            for c in t[1:]:
                if isinstance(c, list):
                    manip_path(c, out, False)
    return '/'.join(out) if top else None


def root_spelling_class(t):
    if t[0] in ('replace', 'lin'):
        return T.spelling_class(t[3], t[2])
    if t[0] == 'der':
        return 'how=' + t[3]
    for c in t[1:]:
        if isinstance(c, list) and c and isinstance(c[0], str):
            r = root_spelling_class(c)
            if r:
                return r
    return ''


def root_container_class(t):
    if t[0] in ('replace', 'lin'):
        return T.container_class(t[3])
    if t[0] == 'der':
        return 'how=' + t[3]
    for c in t[1:]:
        if isinstance(c, list) and c and isinstance(c[0], str):
            r = root_container_class(c)
            if r:
                return r
    return ''


def close(got, want, tol):
    got = numpy.asarray(got)
    want = numpy.asarray(want)
    if got.shape != want.shape:
        return False
    if got.size == 0:
        return True
    if not numpy.isfinite(got).all():
        return False
    scale = max(1., float(abs(want).max()))
    return bool((abs(got - want) <= tol * scale).all())


def fmt(a):
    return json.dumps(numpy.asarray(a).tolist()) if numpy.asarray(a).size <= 16 else 'array{}'.format(numpy.asarray(a).shape)


def _args_of(g):
    out = {}
    for name, (shape, dtype) in g.arguments.items():
        out[name] = (tuple(int(n) for n in shape), {float: 'float', int: 'int', bool: 'bool', complex: 'complex'}.get(dtype, str(dtype)))
    return out


def _witness(t, scheme, ival, label):
    return {'kind': 'term', 'term': t, 'scheme': scheme, 'val': ival, 'label': label}


class Outcome:
    'what happened for one group of variants'

    def __init__(self):
        self.findings = []     # (key, what, witness)
        self.evaluations = 0
        self.compared = 0      # values (one per variant and valuation) compared with the reference
        self.status = None     # 'value' | 'rejected' | 'skipped:<why>'
        self.semdeps = ()
        self.rejected_by = set()

    def add(self, key, what, witness):
        self.findings.append((key, what, witness))


def judge(variants, scheme, label, vals=(0,)):
    '''variants: terms with the same reference semantics (they differ in the spelling annotations only).
    Every variant is built with the real nutils, its .arguments is compared with the model, and its value
    (for every valuation in vals) with the reference interpreter.'''
    from nutils import function
    C = ctx(scheme)
    names = T.SCHEMES[scheme]
    out = Outcome()
    t0 = variants[0]
    path = manip_path(t0)
    lab = '{}[{}]'.format(path, label) if label else path

    try:
        facts = T.model(t0)
        reject = None
    except T.Rejected as r:
        facts = None
        reject = r.reason

    env = environment(t0, vals[0])
    if env is None:
        if reject is None:
            out.status = 'skipped:name-with-two-types'
            return out
        env = T.valuation(vals[0])  # any valuation will do: nothing may come back

    if reject is None:
        refs = []
        try:
            for ival in vals:
                e = environment(t0, ival)
                refs.append((e, numpy.asarray(T.ref(t0, e))))
        except T.RefUndefined as e:
            out.status = 'skipped:unspecified:' + str(e)
            return out
        if not all(numpy.isfinite(r).all() for e, r in refs):
            out.status = 'skipped:nonfinite-reference'
            return out
        # semantic dependence of the reference value on each argument of the model's table
        env0, R0 = refs[0]
        sem = []
        for name in sorted(facts.args):
            e2 = dict(env0)
            e2[name] = env0[name] + (numpy.arange(env0[name].size).reshape(env0[name].shape) + 1) * (.173 if env0[name].dtype.kind == 'f' else 1)
            e2[name] = e2[name].astype(env0[name].dtype)
            try:
                R2 = numpy.asarray(T.ref(t0, e2))
            except T.RefUndefined:
                continue
            if not close(R2, R0, 1e-7):
                sem.append(name)
        out.semdeps = tuple(sem)
        tol = T.tolerance(t0)

    built = []
    for t in variants:
        sc = root_spelling_class(t)
        try:
            g = T.build(t, C)
        except (T.Infeasible, T.TermError):
            raise
        except Exception as e:
            if reject is None:
                out.add('raises:{}:{}:{}'.format(path, type(e).__name__, sc), 'construction raised {!r} although the reference value is defined'.format(e), _witness(t, scheme, vals[0], label))
            else:
                out.rejected_by.add(type(e).__name__)
            continue
        if not isinstance(g, function.Array):
            g = function.Array.cast(g)
        built.append((t, sc, g))
        if reject is None:
            # metadata: semantic dependencies <= listed <= syntactic table of the model, with equal shape and dtype
            listed = _args_of(g)
            want = {names.get(k, k): v for k, v in facts.args.items()}
            extra = sorted(set(listed) - set(want))
            missing = sorted(names.get(k, k) for k in out.semdeps if names.get(k, k) not in listed)
            wrongtype = sorted(k for k in listed if k in want and listed[k] != want[k])
            cc = root_container_class(t)
            if extra:
                out.add('arguments-extra:{}:{}'.format(path, cc), '.arguments lists {} but the result can only depend on {}'.format(extra, sorted(want)), _witness(t, scheme, vals[0], label))
            if missing:
                out.add('arguments-missing:{}:{}'.format(path, cc), '.arguments = {} does not list {} on which the value depends'.format(sorted(listed), missing), _witness(t, scheme, vals[0], label))
            if wrongtype:
                out.add('arguments-type:{}:{}'.format(path, cc), '.arguments has {} but the model says {}'.format({k: listed[k] for k in wrongtype}, {k: want[k] for k in wrongtype}), _witness(t, scheme, vals[0], label))

    if reject is not None:
        accepted = []
        for t, sc, g in built:
            out.evaluations += 1
            try:
                v = function.eval(g, concrete(env, scheme))
            except Exception as e:
                out.rejected_by.add(type(e).__name__)
                continue
            accepted.append((t, sc, v))
        for t, sc, v in accepted:
            # a factor() that accepts a non polynomial but reproduces it exactly is harmless; everything else must have been refused
            if reject.startswith('factor-'):
                try:
                    r = T.ref(t, env)
                    if close(v, r, 1e-9):
                        continue
                except Exception:
                    pass
            out.add('accepted:{}:{}'.format(reject, path), 'must be rejected ({}) but evaluated to {}'.format(reject, fmt(v)), _witness(t, scheme, vals[0], label))
        out.status = 'rejected'
        return out

    out.status = 'value'
    mism = []
    for i, (e, R) in enumerate(refs):
        cenv = concrete(e, scheme)
        values = None
        if len(built) > 1:
            out.evaluations += 1
            try:
                values = list(function.eval([g for t, sc, g in built], cenv))
            except Exception:
                values = None
        if values is None:
            values = []
            for t, sc, g in built:
                out.evaluations += 1
                try:
                    values.append(function.eval(g, cenv))
                except Exception as ex:
                    values.append(ex)
        for (t, sc, g), v in zip(built, values):
            if isinstance(v, Exception):
                out.add('raises:{}:{}:{}'.format(path, type(v).__name__, sc), 'evaluation raised {!r} although the reference value is {}'.format(v, fmt(R)), _witness(t, scheme, vals[i], label))
                continue
            v = numpy.asarray(v)
            out.compared += 1
            if v.shape != R.shape:
                out.add('shape:{}'.format(path), 'result has shape {} but the definition gives {}'.format(v.shape, R.shape), _witness(t, scheme, vals[i], label))
            elif (v.dtype.kind in 'iu') != (facts.dtype == 'int') and facts.dtype in ('int', 'float'):
                out.add('dtype:{}'.format(path), 'result has dtype {} but the definition gives {}'.format(v.dtype, facts.dtype), _witness(t, scheme, vals[i], label))
            elif not close(v, R, tol):
                mism.append((t, sc, v, R, vals[i]))
    if mism:
        allbad = len({id(m[0]) for m in mism}) == len(built) and len(built) > 1
        for t, sc, v, R, ival in mism:
            out.add('value-mismatch:{}:{}'.format(lab, 'all-spellings' if allbad else sc), 'evaluates to {} but the definition gives {}'.format(fmt(v), fmt(R)), _witness(t, scheme, ival, label))

    # linearize == sum of derivative . direction, both computed by nutils
    if t0[0] == 'lin' and built:
        _lin_consistency(t0, C, scheme, refs[0], lab, label, vals[0], out, tol)
    return out


def _lin_consistency(t0, C, scheme, ref0, lab, label, ival, out, tol):
    from nutils import function
    env, R = ref0
    cenv = concrete(env, scheme)
    try:
        f = T.build(t0[1], C)
        fargs = T.model(t0[1]).args
        total = 0.
        for key, val in t0[2]:
            name = T.key_name(key)
            if name not in fargs:
                continue
            d = function.eval(function.derivative(f, C.names[name]), cenv)
            out.evaluations += 1
            direction = numpy.asarray(T.ref(T.value_term(key, val), env))
            total = total + numpy.tensordot(d, direction, axes=direction.ndim) if direction.ndim else total + d * direction
    except Exception as e:
        out.add('raises:lin-vs-derivative:{}:{}'.format(lab, type(e).__name__), 'sum of derivative times direction raised {!r}'.format(e), _witness(t0, scheme, ival, label))
        return
    if T.model(t0).spatial:
        return
    if not close(total, R, tol):
        out.add('value-mismatch:derivative-contraction:{}'.format(lab), 'sum of derivative times direction = {} but the directional derivative is {}'.format(fmt(total), fmt(R)), _witness(t0, scheme, ival, label))


def judge_evalvalue(f, name, value, vdtype, scheme, ival=0):
    '''evaluate f with argument `name` bound to a value of the wrong shape or dtype; returns (key, what, witness) or None.
    value is a nested list; vdtype in float|int|pyfloat|pyint (numpy array of that dtype or plain python).'''
    from nutils import function
    C = ctx(scheme)
    w = {'kind': 'evalvalue', 'term': f, 'name': name, 'value': value, 'vdtype': vdtype, 'scheme': scheme, 'val': ival}
    env = environment(f, ival)
    shape, dtype = T.model(f).args[name]
    g = T.build(f, C)
    if vdtype in ('pyfloat', 'pyint'):
        val = value
        arr = numpy.array(value, dtype=float if vdtype == 'pyfloat' else int)
    else:
        val = arr = numpy.array(value, dtype=T.DT[vdtype])
    cenv = concrete(env, scheme)
    cenv[C.names[name]] = val
    try:
        v = function.eval(g, cenv)
    except Exception as e:
        return None, 'rejected:' + type(e).__name__
    path = manip_path(f) or 'plain'
    if arr.shape != tuple(shape):
        return ('eval-accepted-wrong-shape:{}'.format(path), 'argument {!r} of shape {} was given a value of shape {} and evaluation returned {}'.format(
            name, tuple(shape), arr.shape, fmt(v)), w), 'accepted'
    # same shape, other dtype: a value-preserving conversion is tolerated, a lossy one must be refused
    e2 = dict(env)
    e2[name] = arr
    R = numpy.asarray(T.ref(f, e2))
    if close(v, R, 1e-9):
        return None, 'converted-losslessly'
    kind = '{}-for-{}'.format('float' if arr.dtype.kind == 'f' else 'int', dtype)
    return ('eval-accepted-wrong-dtype:{}:{}'.format(kind, path), 'argument {!r} of dtype {} was given {!r}; evaluation returned {} but f at the supplied value is {} (silently converted)'.format(
        name, dtype, value, fmt(v), fmt(R)), w), 'accepted'
