'''C08 case execution: build (topology, refinement, geometry map), evaluate the
nutils differential-geometric operators on interior / boundary / interface
samples and in integrals, and compare with the numpy model of c08_model.'''

import itertools, functools, operator, warnings
import numpy
from . import c08_model as model

TOL = 1e-10
QDEG = 6          # exact for every integrand here: fields deg 2 o map deg <= 2 (4) + cofactor degree <= 2; simplex schemes exist up to 6
PDEG = 2          # gauss degree of the pointwise samples (2 pts per direction / 3 per triangle / 4 per tet)


class Fail(Exception):
    pass


# ---------------------------------------------------------------- topologies

FULL = ['line2', 'rect21', 'rect22', 'per22', 'tri2', 'mix2', 'box111', 'box211', 'tets6']
MANIFOLD = ['curve', 'surf', 'surftri']
PRODUCT = ['prod']
TOPOS = FULL + MANIFOLD + PRODUCT

FAMILY = {'line2': 'line', 'rect21': 'rect', 'rect22': 'rect', 'per22': 'periodic', 'tri2': 'triangle', 'mix2': 'mixed', 'box111': 'box', 'box211': 'box',
          'tets6': 'tet', 'curve': 'curve', 'surf': 'surface', 'surftri': 'surface-tri', 'prod': 'product'}


def _tets():
    from nutils import mesh
    nodes = []
    for perm in itertools.permutations(range(3)):
        v, path = 0, [0]
        for a in perm:
            v += 1 << a
            path.append(v)
        nodes.append(path)
    nodes = numpy.array(sorted(nodes))
    coords = numpy.array([[(i >> 2) & 1, (i >> 1) & 1, i & 1] for i in range(8)], dtype=float)
    return mesh.simplex(nodes, nodes, coords, {}, {}, {})


def base(name):
    'returns (topology or (X, Y) for the product, x0, topology dimension m)'
    from nutils import mesh, function
    with warnings.catch_warnings():
        warnings.simplefilter('ignore')
        if name in ('line2', 'curve'):
            topo, x = mesh.line(2)
            return topo, numpy.stack([x]), 1
        if name in ('rect21', 'surf'):
            topo, x = mesh.rectilinear([2, 1])
            return topo, x, 2
        if name == 'rect22':
            topo, x = mesh.rectilinear([2, 2])
            return topo, x, 2
        if name == 'per22':
            topo, x = mesh.rectilinear([2, 2], periodic=[0])
            return topo, x, 2
        if name == 'tri2':
            topo, x = mesh.unitsquare(2, 'triangle')
            return topo, x, 2
        if name == 'mix2':
            topo, x = mesh.unitsquare(2, 'mixed')
            return topo, x, 2
        if name == 'surftri':
            topo, x = mesh.unitsquare(1, 'triangle')
            return topo, x, 2
        if name == 'box111':
            topo, x = mesh.rectilinear([1, 1, 1])
            return topo, x, 3
        if name == 'box211':
            topo, x = mesh.rectilinear([2, 1, 1])
            return topo, x, 3
        if name == 'tets6':
            topo, x = _tets()
            return topo, x, 3
        if name == 'prod':
            X, x = mesh.line(2, space='X')
            Y, y = mesh.line(2, space='Y')
            return (X, Y), numpy.stack([x, y]), 2
    raise ValueError(name)


# extent of the mesh generator coordinate x0 (every domain is the box [0,a_1] x ... x [0,a_m])
DOMAIN = {'line2': [2.], 'rect21': [2., 1.], 'rect22': [2., 2.], 'per22': [2., 2.], 'tri2': [1., 1.], 'mix2': [1., 1.], 'surftri': [1., 1.], 'box111': [1., 1., 1.],
          'box211': [2., 1., 1.], 'tets6': [1., 1., 1.], 'curve': [2.], 'surf': [2., 1.], 'prod': [2., 2.]}

NELEMS = {'line2': 2, 'rect21': 2, 'rect22': 4, 'per22': 4, 'tri2': 8, 'mix2': 6, 'box111': 1, 'box211': 2, 'tets6': 6, 'curve': 2, 'surf': 2, 'surftri': 2}


def refinements(name, tier):
    'none, uniform, every refined_by subset of <= 4 elements; thorough adds two-level hierarchical refinements'
    if name == 'prod':
        one = [['none'], ['uniform'], ['by', [0]], ['by', [1]], ['by', [0, 1]]]
        return [['prod', a, b] for a in one for b in one]
    n = NELEMS[name]
    out = [['none'], ['uniform']]
    for k in range(1, min(n, 4) + 1):
        for sub in itertools.combinations(range(n), k):
            out.append(['by', list(sub)])
    if tier != 'quick':
        # second level: refine element i, then child j of it (the children are the last elements of the hierarchical topology;
        # refining a coarse neighbour instead is the one-level subset {i, j} again): ['by2', i, index of the child]
        nchild = {'line2': 2, 'curve': 2, 'rect21': 4, 'rect22': 4, 'per22': 4, 'surf': 4, 'tri2': 4, 'surftri': 4, 'mix2': 4, 'box111': 8, 'box211': 8, 'tets6': 8}[name]
        for i in range(n):
            for j in range(n - 1, n - 1 + nchild):
                out.append(['by2', i, j])
    return out


def _refine1(topo, spec):
    if spec[0] == 'none':
        return topo
    if spec[0] == 'uniform':
        return topo.refined
    if spec[0] == 'by':
        return topo.refined_by(spec[1])
    if spec[0] == 'by2':
        return topo.refined_by([spec[1]]).refined_by([spec[2]])
    raise ValueError(spec)


def build(cfg):
    'returns topo, x0, m, map object, kind'
    name = cfg['topo']
    b, x0, m = base(name)
    ref = cfg['ref']
    with warnings.catch_warnings():
        warnings.simplefilter('ignore')
        if name == 'prod':
            X, Y = b
            topo = _refine1(X, ref[1]) * _refine1(Y, ref[2])
        else:
            topo = _refine1(b, ref)
    kind = 'manifold' if name in MANIFOLD else 'full'
    fam = model.embeddings(m, 'thorough') if kind == 'manifold' else model.maps(m, 'thorough')
    M, = [M for M in fam if M.name == cfg['map']]
    return topo, x0, m, M, kind


def map_names(name, tier):
    m = len(DOMAIN[name])
    fam = model.embeddings(m, tier) if name in MANIFOLD else model.maps(m, tier)
    return [M.name for M in fam]


# ---------------------------------------------------------------- nutils expressions

def poly_expr(poly, v):
    from nutils import function
    terms = []
    for e, c in sorted(poly.terms.items()):
        t = None
        for k, p in enumerate(e):
            if p:
                f = v[k]**p if p > 1 else v[k]
                t = f if t is None else t * f
        terms.append(function.Array.cast(float(c)) if t is None else (t if c == 1 else c * t))
    if not terms:
        return function.zeros(())
    return function.Array.cast(functools.reduce(operator.add, terms))


def geometry(M, x0):
    return numpy.stack([poly_expr(c, x0) for c in M.comps])


def fields(x, n):
    from nutils import function
    exps = model.monomials(n)
    P = numpy.stack([poly_expr(model.Poly(n, {e: 1.}), x) for e in exps])
    idx = model.vector_index(n)
    # V[v,i] = P[idx[v,i]] written as a contraction with a constant 0/1 selection tensor (cheaper for the nutils simplifier than nV*n takes)
    sel = numpy.zeros((len(idx), n, len(exps)))
    for v in range(len(idx)):
        for i in range(n):
            sel[v, i, idx[v, i]] = 1.
    V = numpy.einsum('vip,p->vi', sel, P)
    return exps, idx, P, V


# ---------------------------------------------------------------- comparison

class Recorder:
    def __init__(self, only=None):
        self.results = []      # (op, status, detail)
        self.only = only

    def check(self, op, got, want, where=None):
        if self.only is not None and op != self.only:
            return
        got = numpy.asarray(got, dtype=float)
        want = numpy.asarray(want, dtype=float)
        if got.shape != want.shape:
            self.results.append((op, 'fail', 'shape {} != expected {}'.format(got.shape, want.shape)))
            return
        if want.size == 0:
            self.results.append((op, 'trivial', 'empty'))
            return
        if not numpy.isfinite(want).all():
            raise model.FrameError('non-finite reference for ' + op)
        scale = max(1., float(abs(want).max()))
        err = abs(got - want)
        bad = ~(err <= TOL * scale)    # catches nan
        if bad.any():
            i = numpy.unravel_index(numpy.argmax(numpy.where(numpy.isnan(err), numpy.inf, err)), err.shape)
            loc = ''
            if where is not None and len(i):
                loc = ' at x0={}'.format(numpy.round(numpy.asarray(where)[i[0]], 6).tolist())
            self.results.append((op, 'fail', '{}: got {!r}, expected {!r} (index {}, {} of {} entries off, max err {:.3e}){}'.format(
                op, float(got[i]), float(want[i]), list(map(int, i)), int(bad.sum()), bad.size, float(numpy.nanmax(err)), loc)))
        else:
            self.results.append((op, 'ok' if abs(want).max() > 0 else 'trivial', ''))

    def fail(self, op, msg):
        if self.only is not None and op != self.only:
            return
        self.results.append((op, 'fail', msg))


def _ev(sample, funcs):
    with warnings.catch_warnings():
        warnings.simplefilter('ignore')
        vals = sample.eval(list(funcs.values()))
    return dict(zip(funcs, vals))


def _elements(topo, x0, m):
    'vertices of every element in x0 coordinates (list of (nverts, m) arrays) and centroids'
    bz = topo.sample('bezier', 2)
    X = bz.eval(x0)
    verts = [X[ind] for ind in bz.index]
    cent = numpy.array([v.mean(0) for v in verts])
    return verts, cent


def _ptan(A):
    'orthogonal projector onto span(A) for stacks A (N,n,m)'
    G = numpy.einsum('nki,nkj->nij', A, A)
    return numpy.einsum('nik,nkl,njl->nij', A, numpy.linalg.inv(G), A)


def _pointwise_fields(rec, vals, suffix, M, X0, A, exps, idx, nd, flat):
    'grad/laplace/div/symgrad/curl of the monomial fields against the hand-made derivatives; nd=0 full gradient, nd=-1 surface (projected) operators'
    Xh = M(X0)
    n = M.n
    val, gP, H = model.mono_eval(Xh, exps)
    gV, dV, sV, cV = model.vector_ops(gP, idx)
    if nd == 0:
        rec.check('grad' + suffix, vals['gradP'], gP, X0)
        rec.check('laplace' + suffix, vals['lapP'], numpy.einsum('npjj->np', H), X0)
        rec.check('gradvec' + suffix, vals['gradV'], gV, X0)
        rec.check('div' + suffix, vals['divV'], dV, X0)
        rec.check('symgrad' + suffix, vals['symV'], sV, X0)
        if n == 3:
            rec.check('curl' + suffix, vals['curlV'], cV, X0)
    else:
        P = _ptan(A)
        rec.check('surfgrad' + suffix, vals['sgradP'], numpy.einsum('npk,nkj->npj', gP, P), X0)
        sgV = numpy.einsum('nvik,nkj->nvij', gV, P)
        rec.check('surfdiv' + suffix, vals['sdivV'], numpy.einsum('nvii->nv', sgV), X0)
        rec.check('surfsymgrad' + suffix, vals['ssymV'], .5 * (sgV + sgV.transpose(0, 1, 3, 2)), X0)
        if flat:
            rec.check('surflaplace' + suffix, vals['slapP'], numpy.einsum('npjk,nkj->np', H, P), X0)


def run_interior(rec, topo, x0, m, M, kind, cfg=None):
    from nutils import function
    x = geometry(M, x0)
    exps, idx, P, V = fields(x, M.n)
    smp = topo.sample('gauss', PDEG)
    funcs = dict(x0=x0, x=x, J=function.J(x))
    if kind == 'full':
        funcs.update(gradP=function.grad(P, x), lapP=function.laplace(P, x), gradV=function.grad(V, x), divV=function.div(V, x), symV=function.symgrad(V, x))
        if M.n == 3:
            funcs['curlV'] = function.curl(V, x)
    else:
        funcs.update(sgradP=function.grad(P, x, -1), sdivV=function.div(V, x, -1), ssymV=function.symgrad(V, x, -1), N=function.normal(x, x0))
        if M.affine:
            funcs['slapP'] = function.laplace(P, x, -1)
    vals = _ev(smp, funcs)
    X0 = vals['x0']
    A = M.jacobian(X0)
    rec.check('geom-value', vals['x'], M(X0), X0)
    verts, cent = _elements(topo, x0, m)
    Jh = numpy.empty(len(X0))
    for e, ind in enumerate(smp.index):
        v0, T, k = model.frame(verts[e], m)
        Jh[ind] = model.measure(A[ind], T)
    rec.check('J', vals['J'], Jh, X0)
    _pointwise_fields(rec, vals, '', M, X0, A, exps, idx, 0 if kind == 'full' else -1, M.affine)
    if kind == 'manifold':
        # exterior normal: unit, orthogonal to the tangents dx/dx0, and of one consistent orientation over the whole topology
        N = vals['N']
        if m == 1:
            Nh = numpy.stack([A[:, 1, 0], -A[:, 0, 0]], axis=1)
        else:
            Nh = numpy.cross(A[:, :, 0], A[:, :, 1])
        Nh = Nh / numpy.linalg.norm(Nh, axis=1)[:, None]
        s = numpy.sign((N * Nh).sum(1))
        rec.check('extnormal-unit-orthogonal', N * s[:, None], Nh, X0)
        # orientation: the same as on the unrefined topology (first Gauss point), i.e. independent of element and refinement
        btopo, bx0, bm = base(cfg['topo'])
        bvals = _ev(btopo.sample('gauss', 1), dict(x0=bx0, N=function.normal(geometry(M, bx0), bx0)))
        bA = M.jacobian(bvals['x0'][:1])
        bNh = numpy.array([bA[0, 1, 0], -bA[0, 0, 0]]) if m == 1 else numpy.cross(bA[0, :, 0], bA[0, :, 1])
        s0 = numpy.sign(bvals['N'][0] @ bNh)
        rec.check('extnormal-consistent-orientation', s, numpy.full(len(s), s0), X0)


def _facet_reference(M, X0, verts_f, index, m, cent, eidx):
    'by hand: outward unit normal and facet measure at facet points'
    A = M.jacobian(X0)
    nh = numpy.empty((len(X0), M.n))
    Jh = numpy.empty(len(X0))
    for f, ind in enumerate(index):
        if not len(ind):
            continue
        v0, Tf, k = model.frame(verts_f[f], m - 1)
        inward0 = cent[eidx[ind]] - X0[ind]
        nh[ind] = model.outward(A[ind], Tf, inward0)
        Jh[ind] = model.measure(A[ind], Tf)
    return A, nh, Jh


def _facet_funcs(topo, x0, x, P, V, M, kind, m, rich):
    'rich (boundary): every wrapper; lean (interfaces, evaluated on both sides): normal, J, gradient, surface gradient, dotnorm'
    from nutils import function
    vec = numpy.array([1., 2., 3.][:M.n])
    funcs = dict(x0=x0, x=x, eidx=topo.f_index, n=function.normal(x), J=function.J(x), dotnV=function.dotnorm(V, x))
    if rich:
        funcs['tang'] = function.tangent(x, vec)
    if kind == 'full':
        funcs['gradP'] = function.grad(P, x)
        if m > 1:
            funcs['sgradP'] = function.grad(P, x, -1)
        if rich:
            funcs.update(ngradP=function.ngrad(P, x), nsymV=function.nsymgrad(V, x))
            if m > 1:
                funcs.update(sdivV=function.div(V, x, -1))
    return funcs, vec


def _facet_checks(rec, vals, sfx, M, kind, m, exps, idx, vec, verts_f, index, cent):
    X0 = vals['x0']
    A, nh, Jh = _facet_reference(M, X0, verts_f, index, m, cent, vals['eidx'])
    rec.check('geom-value' + sfx, vals['x'], M(X0), X0)
    n = vals['n']
    rec.check('normal-unit' + sfx, (n * n).sum(1), numpy.ones(len(n)), X0)
    rec.check('normal' + sfx, n, nh, X0)
    rec.check('J' + sfx, vals['J'], Jh, X0)
    if 'tang' in vals:
        rec.check('tangent' + sfx, vals['tang'], vec - (nh @ vec)[:, None] * nh, X0)
    Xh = M(X0)
    val, gP, H = model.mono_eval(Xh, exps)
    Vh = val[:, idx]                                  # (N,nV,n)
    rec.check('dotnorm' + sfx, vals['dotnV'], numpy.einsum('nvi,ni->nv', Vh, nh), X0)
    if kind == 'full':
        gV, dV, sV, cV = model.vector_ops(gP, idx)
        rec.check('grad' + sfx, vals['gradP'], gP, X0)
        if 'ngradP' in vals:
            rec.check('ngrad' + sfx, vals['ngradP'], numpy.einsum('npj,nj->np', gP, nh), X0)
            rec.check('nsymgrad' + sfx, vals['nsymV'], numpy.einsum('nvij,nj->nvi', sV, nh), X0)
        if m > 1:
            # surface operators on the boundary of a full-dimensional domain: projection along the normal
            Pt = numpy.eye(M.n) - numpy.einsum('ni,nj->nij', nh, nh)
            rec.check('surfgrad' + sfx, vals['sgradP'], numpy.einsum('npk,nkj->npj', gP, Pt), X0)
            if 'sdivV' in vals:
                sgV = numpy.einsum('nvik,nkj->nvij', gV, Pt)
                rec.check('surfdiv' + sfx, vals['sdivV'], numpy.einsum('nvii->nv', sgV), X0)
    return nh


def run_boundary(rec, topo, x0, m, M, kind, cfg=None):
    x = geometry(M, x0)
    exps, idx, P, V = fields(x, M.n)
    btopo = topo.boundary
    if len(btopo) == 0:
        rec.results.append(('boundary-empty', 'trivial', ''))
        return
    smp = btopo.sample('gauss', PDEG)
    funcs, vec = _facet_funcs(topo, x0, x, P, V, M, kind, m, True)
    vals = _ev(smp, funcs)
    bz = btopo.sample('bezier', 2)
    Xb = bz.eval(x0)
    verts_f = [Xb[ind] for ind in bz.index]
    verts, cent = _elements(topo, x0, m)
    _facet_checks(rec, vals, '', M, kind, m, exps, idx, vec, verts_f, smp.index, cent)


def run_interfaces(rec, topo, x0, m, M, kind, cfg=None):
    from nutils import function
    x = geometry(M, x0)
    exps, idx, P, V = fields(x, M.n)
    itopo = topo.interfaces
    if len(itopo) == 0:
        rec.results.append(('interfaces-empty', 'trivial', ''))
        return
    smp = itopo.sample('gauss', PDEG)
    funcs, vec = _facet_funcs(topo, x0, x, P, V, M, kind, m, False)
    both = dict(funcs)
    for k, f in funcs.items():
        both['opp:' + k] = function.opposite(f)
    vals = _ev(smp, both)
    bz = itopo.sample('bezier', 2)
    Xb, Xbo = bz.eval([x0, function.opposite(x0)])
    verts, cent = _elements(topo, x0, m)
    n1 = _facet_checks(rec, {k: v for k, v in vals.items() if not k.startswith('opp:')}, '', M, kind, m, exps, idx, vec, [Xb[ind] for ind in bz.index], smp.index, cent)
    n2 = _facet_checks(rec, {k[4:]: v for k, v in vals.items() if k.startswith('opp:')}, ':opposite', M, kind, m, exps, idx, vec, [Xbo[ind] for ind in bz.index], smp.index, cent)
    # where the geometry is continuous across the interface (everywhere except the seam of a periodic topology) the two normals are opposite
    cont = abs(vals['x'] - vals['opp:x']).max(1) <= 1e-12
    if cont.any():
        rec.check('normal-opposite-sides', vals['opp:n'][cont], -vals['n'][cont], vals['x0'][cont])
        rec.check('J-both-sides', vals['opp:J'][cont], vals['J'][cont], vals['x0'][cont])
    if (vals['eidx'] == vals['opp:eidx']).any():
        rec.fail('interface-elements', 'interface with the same element on both sides')


def _weights(smp):
    'quadrature weights per point of a sample (reference-element weights; no geometry involved)'
    cls = type(smp).__name__
    if cls == '_Mul':
        return (_weights(smp._sample1)[:, None] * _weights(smp._sample2)[None, :]).ravel()
    if cls == '_Add':
        return numpy.concatenate([_weights(smp._sample1), _weights(smp._sample2)])
    w = numpy.empty(smp.npoints)
    for ielem, ind in enumerate(smp.index):
        w[ind] = numpy.asarray(smp.points[ielem].weights)
    return w


def run_integral(rec, topo, x0, m, M, kind, cfg=None):
    '''integrals. The nutils quantities are the measures J (volume) and n J (oriented surface measure) at the
    Gauss points of an exact scheme, and topo.integrate / boundary.integrate of J, n J and x.n J. Reference: the
    volume and the integral of div F over every element computed with hand-written quadrature in x0 space. The
    divergence theorem is checked per element (every interface flux attributed to both neighbours with that side's
    own normal, which fixes the orientation of every facet) and in total.'''
    from nutils import function
    if kind == 'manifold' and not M.polymeasure:
        rec.results.append(('integral-nonpolynomial-measure', 'trivial', ''))
        return
    x = geometry(M, x0)
    n = M.n
    exps = model.monomials(n)
    idx = model.vector_index(n)
    ne = len(topo)
    eidx = topo.f_index
    J = function.J(x)
    nJ = function.normal(x) * J
    dodiv = kind == 'full' or M.affine
    btopo, itopo = topo.boundary, topo.interfaces
    with warnings.catch_warnings():
        warnings.simplefilter('error', UserWarning)   # "inexact integration" must never be silently accepted
        warnings.simplefilter('ignore', DeprecationWarning)
        smp = topo.sample('gauss', QDEG)
        iv = smp.eval([x0, J])
        vol = topo.integrate(J, degree=QDEG)
        if dodiv:
            if len(btopo):
                bs = btopo.sample('gauss', QDEG)
                bv = bs.eval([x0, eidx, nJ])
                bint = btopo.integrate([nJ, (x @ function.normal(x)) * J], degree=QDEG)
            if len(itopo):
                js = itopo.sample('gauss', QDEG)
                jv = js.eval([x0, function.opposite(x0), eidx, function.opposite(eidx), nJ, function.opposite(nJ)])
                xnJ = (x @ function.normal(x)) * J
                jint = itopo.integrate([nJ + function.opposite(nJ), xnJ + function.opposite(xnJ)], degree=QDEG)
    verts, cent = _elements(topo, x0, m)

    def hvol(pts):
        A = M.jacobian(pts)
        return model.measure(A, numpy.eye(m))

    def hdiv(pts):
        A = M.jacobian(pts)
        val, gP, H = model.mono_eval(M(pts), exps)
        gV, dV, sV, cV = model.vector_ops(gP, idx)
        if kind == 'manifold':
            dV = numpy.einsum('nvik,nki->nv', gV, _ptan(A))
        return dV * model.measure(A, numpy.eye(m))[:, None]
    volEh = numpy.array([model.elem_integral(v, m, hvol) for v in verts])
    w = _weights(smp)
    volE = numpy.array([(w[ind] * iv[1][ind]).sum() for ind in smp.index])
    rec.check('int-J-element', volE, volEh, cent)
    # the exact polynomial volume of G(domain), computed over the whole box without reference to the partition into elements
    box = numpy.array(list(itertools.product(*[(0., a) for a in DOMAIN[cfg['topo']]])))
    rec.check('int-J', vol, model.elem_integral(box, m, hvol))
    rec.check('int-J-sum-of-elements', volE.sum(), model.elem_integral(box, m, hvol))
    if not dodiv:
        return
    dvEh = numpy.array([model.elem_integral(v, m, hdiv) for v in verts])

    def flux(X0, nJv, wts, elems):
        'sum_q w_q F(x_q) . (n J)_q accumulated per element, F evaluated by hand'
        val = model.mono_eval(M(X0), exps)[0]
        f = numpy.einsum('qvi,qi->qv', val[:, idx], nJv) * wts[:, None]
        out = numpy.zeros((ne, len(idx)))
        numpy.add.at(out, elems, f)
        return out
    fE = numpy.zeros((ne, len(idx)))
    tot_nJ = numpy.zeros(n)
    tot_xnJ = 0.
    if len(btopo):
        fE += flux(bv[0], bv[2], _weights(bs), bv[1])
        tot_nJ = tot_nJ + bint[0]
        tot_xnJ = tot_xnJ + bint[1]
    if len(itopo):
        wj = _weights(js)
        fE += flux(jv[0], jv[4], wj, jv[2]) + flux(jv[1], jv[5], wj, jv[3])
        tot_nJ = tot_nJ + jint[0]
        tot_xnJ = tot_xnJ + jint[1]
        cont = abs(M(jv[0]) - M(jv[1])).max(1) <= 1e-12
        if cont.all():
            rec.check('interface-flux-cancels', jint[0] + 1., numpy.ones(n))
    rec.check('divergence-theorem-element', fE, dvEh, cent)
    rec.check('divergence-theorem', fE.sum(0), model.elem_integral(box, m, hdiv))
    # closed surface: oint n J = 0 and oint x.n J = dim * volume (plus the seam terms of a periodic topology, included above)
    rec.check('closed-surface-normal-integral', tot_nJ + 1., numpy.ones(n))
    rec.check('divergence-theorem-position', tot_xnJ, m * model.elem_integral(box, m, hvol))


def run_perspace(rec, topo, x0, m, M, kind, cfg=None):
    '''product topology X*Y: operators restricted to one space (spaces= argument) are derivatives
    along that space's coordinate with the other space's coordinate held fixed'''
    from nutils import function
    x = geometry(M, x0)
    n = M.n
    exps = model.monomials(n)
    P = numpy.stack([poly_expr(model.Poly(n, {e: 1.}), x) for e in exps])
    # hand-made: the fields as explicit polynomials in (x0, y0)
    Pp = []
    for e in exps:
        p = model.Poly.const(2, 1.)
        for k, q in enumerate(e):
            p = p * M.comps[k]**q
        Pp.append(p)
    X, Y = topo.topo1, topo.topo2
    for k, (space, other) in enumerate((('X', 'Y'), ('Y', 'X'))):
        g = numpy.stack([x[k]])          # 1D geometry of this space, parametrised by the other space
        gk = M.comps[k].diff(k)          # d g / d own coordinate (never zero for the maps of the family)
        funcs = dict(x0=x0, grad=function.grad(P, g, spaces=[space]), lap=function.laplace(P, g, spaces=[space]), div=function.div(P[:, None], g, spaces=[space]),
                     J=function.J(g, spaces=[space]), Jall=function.J(x), gradall=function.grad(P, x, spaces=['X', 'Y']))
        smp = topo.sample('gauss', PDEG)
        vals = _ev(smp, funcs)
        X0 = vals['x0']
        d1 = numpy.stack([p.diff(k)(X0) for p in Pp], axis=1) / gk(X0)[:, None]
        # second derivative along g: (1/g') d/dx0 ((dp/dx0) / g')
        gkk = gk.diff(k)
        d2 = numpy.stack([(p.diff(k).diff(k)(X0) * gk(X0) - p.diff(k)(X0) * gkk(X0)) / gk(X0)**3 for p in Pp], axis=1)
        rec.check('grad:space' + space, vals['grad'][..., 0], d1, X0)
        rec.check('div:space' + space, vals['div'], d1, X0)
        rec.check('laplace:space' + space, vals['lap'], d2, X0)
        verts, cent = _elements(topo, x0, m)
        h = numpy.empty(len(X0))
        for e, ind in enumerate(smp.index):
            v0, T, kd = model.frame(verts[e], m)
            h[ind] = abs(T[k, k])
        rec.check('J:space' + space, vals['J'], abs(gk(X0)) * h, X0)
        Xh = M(X0)
        val, gP, H = model.mono_eval(Xh, exps)
        rec.check('grad:allspaces', vals['gradall'], gP, X0)
        # boundary of this space times the other space: per-space normal is the sign of the outward direction
        bt = (X.boundary * Y) if k == 0 else (X * Y.boundary)
        bs = bt.sample('gauss', PDEG)
        bv = _ev(bs, dict(x0=x0, n=function.normal(g, spaces=[space]), nall=function.normal(x), J=function.J(g, spaces=[space]), eidx=topo.f_index))
        B0 = bv['x0']
        lo, hi = 0., 2.
        out0 = numpy.where(abs(B0[:, k] - hi) < 1e-12, 1., -1.)
        rec.check('normal:space' + space, bv['n'][:, 0], numpy.sign(gk(B0)) * out0, B0)
        rec.check('Jboundary:space' + space, bv['J'], numpy.ones(len(B0)), B0)
        A = M.jacobian(B0)
        Tf = numpy.zeros((2, 1)); Tf[1 - k, 0] = 1.
        inward0 = numpy.zeros((len(B0), 2)); inward0[:, k] = -out0
        rec.check('normal:allspaces:' + space + '-boundary', bv['nall'], model.outward(A, Tf, inward0), B0)


# fixed physical points (fractions of the domain box) that lie on no element boundary of any refinement level used
FRACTIONS = numpy.array([[.31, .62, .83], [.71, .16, .37], [.44, .86, .13]])
_BASE_CACHE = {}


def _located_values(topo, x0, m, M, kind, pts):
    from nutils import function
    x = geometry(M, x0)
    exps, idx, P, V = fields(x, M.n)
    if kind == 'full':
        funcs = dict(x0=x0, gradP=function.grad(P, x), divV=function.div(V, x))
    else:
        funcs = dict(x0=x0, sgradP=function.grad(P, x, -1), N=function.normal(x, x0))
    with warnings.catch_warnings():
        warnings.simplefilter('ignore')
        smp = topo.locate(x0, pts, eps=1e-10, tol=1e-12)
    return _ev(smp, funcs), exps, idx


def run_located(rec, topo, x0, m, M, kind, cfg=None):
    '''explicit differential: the same physical points on the refined and on the unrefined topology
    (found with topo.locate on the affine coordinate x0) give the same operator values, equal to the reference'''
    pts = FRACTIONS[:, :m] * numpy.array(DOMAIN[cfg['topo']])
    try:
        vals, exps, idx = _located_values(topo, x0, m, M, kind, pts)
    except Exception as e:
        if type(e).__name__ == 'LocateError':
            rec.results.append(('locate-failed', 'trivial', repr(e)))
            return
        raise
    key = cfg['topo'], cfg['map']
    if key not in _BASE_CACHE:
        b, bx0, bm = base(cfg['topo'])
        btopo = b[0] * b[1] if cfg['topo'] == 'prod' else b
        _BASE_CACHE[key] = _located_values(btopo, bx0, m, M, kind, pts)[0]
    vals0 = _BASE_CACHE[key]
    if abs(vals['x0'] - pts).max() > 1e-9 or abs(vals0['x0'] - pts).max() > 1e-9:
        rec.results.append(('locate-inexact', 'trivial', ''))    # element lookup is C11's business
        return
    X0 = vals['x0']
    A = M.jacobian(X0)
    val, gP, H = model.mono_eval(M(X0), exps)
    gV, dV, sV, cV = model.vector_ops(gP, idx)
    if kind == 'full':
        rec.check('located:grad', vals['gradP'], gP, X0)
        rec.check('located:div', vals['divV'], dV, X0)
        rec.check('same-point:grad', vals['gradP'], vals0['gradP'], X0)
        rec.check('same-point:div', vals['divV'], vals0['divV'], X0)
    else:
        rec.check('located:surfgrad', vals['sgradP'], numpy.einsum('npk,nkj->npj', gP, _ptan(A)), X0)
        rec.check('same-point:surfgrad', vals['sgradP'], vals0['sgradP'], X0)
        rec.check('same-point:extnormal', vals['N'], vals0['N'], X0)


KINDS = {'located': run_located, 'interior': run_interior, 'boundary': run_boundary, 'interfaces': run_interfaces, 'integral': run_integral, 'perspace': run_perspace}


def kinds_for(name):
    return ['interior', 'boundary', 'interfaces', 'integral', 'located'] + (['perspace'] if name == 'prod' else [])


def run_config(cfg, only=None):
    '''execute one configuration; returns list of (op, status, detail) with status in ok/trivial/fail.
    Exceptions raised by nutils are reported as a failing op "raise:<type>".'''
    rec = Recorder(only)
    topo, x0, m, M, kind = build(cfg)
    try:
        KINDS[cfg['kind']](rec, topo, x0, m, M, kind, cfg)
    except model.FrameError:
        raise
    except Exception as e:
        import traceback
        tb = traceback.extract_tb(e.__traceback__)
        innermost = [f for f in tb if '/nutils/' in f.filename]
        if not innermost:
            raise
        op = 'raise:' + type(e).__name__
        if only is None or only == op:
            rec.results.append((op, 'fail', '{} raised {!r} in {}:{}'.format(cfg['kind'], e, innermost[-1].filename.split('/nutils/')[-1], innermost[-1].name)))
    return rec.results
