'''Reference model for C20: exponent vectors (dict base -> Fraction), a unit
table written down from the SI brochure (NOT read from nutils.SI), string
generators for the two documented unit grammars and the physics rule table.

Nothing in this file imports nutils.
'''

import itertools, re
from fractions import Fraction as F

# ------------------------------------------------------------------ dimensions

def clean(d):
    return {k: F(v) for k, v in d.items() if v}


def dmul(a, b):
    return clean({k: a.get(k, 0) + b.get(k, 0) for k in set(a) | set(b)})


def ddiv(a, b):
    return clean({k: a.get(k, 0) - b.get(k, 0) for k in set(a) | set(b)})


def dpow(a, e):
    e = F(e)
    return clean({k: v * e for k, v in a.items()})


def dkey(d):
    return ' '.join('{}^{}'.format(k, v) for k, v in sorted(clean(d).items())) or '1'


def enc(d):
    return [[k, v.numerator, v.denominator] for k, v in sorted(clean(d).items())]


def dec(l):
    return {k: F(n, m) for k, n, m in l}


D0 = {}
DL = {'L': F(1)}
DT = {'T': F(1)}
DV = {'L': F(1), 'T': F(-1)}
DA = {'L': F(2)}
DH = {'L': F(1, 2)}
DM = {'M': F(1)}
DIMS7 = [D0, DL, DT, DV, DA, DH, DM]
DIMS3 = [D0, DL, DV]
DIMS10 = DIMS7 + [{'T': F(-2)}, {'M': F(1), 'L': F(1), 'T': F(-2)}, {'L': F(-1, 2), 'M': F(3, 2)}]

EXPONENTS = [F(-2), F(-1), F(-1, 2), F(0), F(1, 2), F(1), F(2)]


def all_vectors(bases=('L', 'T', 'M')):
    'every exponent vector over the bases with entries in {-2..2} u {+-1/2}'
    for combo in itertools.product(EXPONENTS, repeat=len(bases)):
        yield clean(dict(zip(bases, combo)))


BASEUNIT = {'L': 'm', 'T': 's', 'M': 'kg', 'I': 'A', 'θ': 'K', 'N': 'mol', 'J': 'cd'}


def _pstr(p):
    p = abs(p)
    s = '' if p.numerator == 1 else str(p.numerator)
    if p.denominator != 1:
        s += '_' + str(p.denominator)
    return s


def ustr(d):
    'a unit string of scale exactly 1 (base SI units) denoting dimension d, in the documented grammar'
    d = clean(d)
    num = [BASEUNIT[k] + _pstr(v) for k, v in sorted(d.items()) if v > 0]
    den = [BASEUNIT[k] + _pstr(v) for k, v in sorted(d.items()) if v < 0]
    return '*'.join(num) + ''.join('/' + x for x in den)


# ------------------------------------------------------------------ SI unit table (from the SI brochure, not from nutils)

PREFIX = dict(Y=1e24, Z=1e21, E=1e18, P=1e15, T=1e12, G=1e9, M=1e6, k=1e3, h=1e2,
              d=1e-1, c=1e-2, m=1e-3, μ=1e-6, n=1e-9, p=1e-12, f=1e-15, a=1e-18, z=1e-21, y=1e-24)


def _d(**kw):
    return {k: F(v) for k, v in kw.items()}


# name -> (value in kg/m/s/A/K/mol/cd, dimension, accepts prefixes)
SI_UNITS = {
    'm': (1., _d(L=1), True),
    's': (1., _d(T=1), True),
    'g': (1e-3, _d(M=1), True),
    'A': (1., _d(I=1), True),
    'K': (1., _d(θ=1), True),
    'mol': (1., _d(N=1), True),
    'cd': (1., _d(J=1), True),
    'N': (1., _d(M=1, L=1, T=-2), True),
    'Pa': (1., _d(M=1, L=-1, T=-2), True),
    'J': (1., _d(M=1, L=2, T=-2), True),
    'W': (1., _d(M=1, L=2, T=-3), True),
    'Hz': (1., _d(T=-1), True),
    'C': (1., _d(I=1, T=1), True),
    'V': (1., _d(M=1, L=2, T=-3, I=-1), True),
    'F': (1., _d(M=-1, L=-2, T=4, I=2), True),
    'Ω': (1., _d(M=1, L=2, T=-3, I=-2), True),
    'S': (1., _d(M=-1, L=-2, T=3, I=2), True),
    'Wb': (1., _d(M=1, L=2, T=-2, I=-1), True),
    'T': (1., _d(M=1, T=-2, I=-1), True),
    'H': (1., _d(M=1, L=2, T=-2, I=-2), True),
    'lm': (1., _d(J=1), True),
    'lx': (1., _d(J=1, L=-2), True),
    'Bq': (1., _d(T=-1), True),
    'Gy': (1., _d(L=2, T=-2), True),
    'Sv': (1., _d(L=2, T=-2), True),
    'kat': (1., _d(N=1, T=-1), True),
    'min': (60., _d(T=1), True),
    'h': (3600., _d(T=1), True),
    'day': (86400., _d(T=1), True),
    'au': (149597870700., _d(L=1), True),
    'ha': (1e4, _d(L=2), True),
    'L': (1e-3, _d(L=3), True),
    't': (1e3, _d(M=1), True),
    'Da': (1.66053904020e-27, _d(M=1), True),
    'eV': (1.602176634e-19, _d(M=1, L=2, T=-2), True),
    'in': (.0254, _d(L=1), False),
}


def si_readings(word, table=None, prefix=None):
    'all lexical readings of a unit word: [(kind, value, dims)], the bare unit first'
    table = SI_UNITS if table is None else table
    prefix = PREFIX if prefix is None else prefix
    out = []
    if word in table:
        v, d, _ = table[word]
        out.append(('unit', v, clean(d)))
    if len(word) > 1 and word[0] in prefix and word[1:] in table and table[word[1:]][2]:
        v, d, _ = table[word[1:]]
        out.append(('prefixed', prefix[word[0]] * v, clean(d)))
    return out


def parse_power(p):
    'power suffix of the SI grammar: "" | n | _d | n_d'
    n, sep, d = p.partition('_')
    return F(int(n or 1), int(d or 1))


def si_term_string(num0, factors):
    return num0 + ''.join(op + fnum + atom + power for op, fnum, atom, power in factors)


def si_term_model(num0, factors, atomval):
    '''value and dimension of a generated SI term. factors = [(op, fnum, atom, power)], op of the
    first factor in {"", "/"}, of the others in {"*", "/"}; a factor is a denominator iff the operator
    immediately before it is "/" (left-to-right evaluation of * and /); the power applies to the
    prefixed unit, not to the factor's own scale.'''
    value = float(num0) if num0 else 1.
    dims = {}
    for op, fnum, atom, power in factors:
        av, ad = atomval(atom)
        p = parse_power(power)
        v = (float(fnum) if fnum else 1.) * av ** float(p)
        dd = dpow(ad, p)
        if op == '/':
            value /= v
            dims = ddiv(dims, dd)
        else:
            value *= v
            dims = dmul(dims, dd)
    return value, dims


# ------------------------------------------------------------------ the older unit module (nutils.unit): BNF in its docstring

OLD_TABLES = {
    'doc': dict(m=1, s=1, g=1e-3, N='kg*m/s2', Pa='N/m2', J='N*m', W='J/s', Hz='/s', min='60s', h='60min',
                L='dm3', ha='hm2', t='1000kg', **{'in': '25.4mm'}),
    # deliberate competition between "prefix+name" and a longer unit name:
    # mol / m+ol, cd / c+d, ha / h+a, Pa / P+a, min / m+in, dd / d+d, mm / m+m (no competition, both the same reading)
    'compete': dict(m=1, s=1, g=1e-3, ol=2.5, mol=7, d='86400s', cd=3, a='50m2', ha='10000m2', Pa='kg/m/s2',
                    min='60s', dd='4s', **{'in': '0.0254m'}),
}

_WORD = re.compile('[a-zA-Zα-ωΑ-Ω]+')


def old_resolve(defs):
    'name -> (value, powers over the numerically defined names), resolved by the documented rules'
    out = {}

    def word(w, stack):
        if w in defs:
            return get(w, stack)
        if len(w) > 1 and w[0] in PREFIX and w[1:] in defs:
            v, p = get(w[1:], stack)
            return PREFIX[w[0]] * v, p
        raise KeyError(w)

    def get(name, stack=()):
        if name in out:
            return out[name]
        assert name not in stack, 'cyclic definition'
        val = defs[name]
        if isinstance(val, str):
            out[name] = old_parse_model(val, lambda w: word(w, stack + (name,)))
        else:
            out[name] = float(val), {name: F(1)}
        return out[name]
    for n in defs:
        get(n)
    return out


def old_parse_model(s, wordval):
    'independent parser for <number> [<operator>] <unit> (<operator> <unit>)*, used for the table definitions only'
    mnum = re.match(r'[0-9]*\.?[0-9]*', s)
    value = float(mnum.group()) if mnum.group() else 1.
    rest = s[mnum.end():]
    dims = {}
    op = '*'
    while rest:
        if rest[0] in '*/':
            op = rest[0]
            rest = rest[1:]
        mw = _WORD.match(rest)
        assert mw, 'bad unit string {!r}'.format(s)
        rest = rest[mw.end():]
        mp = re.match('[0-9]*', rest)
        p = int(mp.group()) if mp.group() else 1
        rest = rest[mp.end():]
        v, d = wordval(mw.group())
        if op == '/':
            value /= v ** p
            dims = ddiv(dims, dpow(d, p))
        else:
            value *= v ** p
            dims = dmul(dims, dpow(d, p))
        op = '*'
    return value, dims


def old_word_model(resolved, w):
    'documented rule: the first character is part of the unit if this unit exists, otherwise it is a prefix'
    if w in resolved:
        return resolved[w]
    if len(w) > 1 and w[0] in PREFIX and w[1:] in resolved:
        v, d = resolved[w[1:]]
        return PREFIX[w[0]] * v, d
    return None


def old_term_string(num, firstop, factors):
    return num + firstop + ''.join((op if i else '') + w + p for i, (op, w, p) in enumerate(factors))


def old_term_model(resolved, num, firstop, factors):
    value = float(num) if num else 1.
    dims = {}
    for i, (op, w, p) in enumerate(factors):
        if i == 0:
            op = firstop or '*'
        v, d = old_word_model(resolved, w)
        n = int(p) if p else 1
        if op == '/':
            value /= v ** n
            dims = ddiv(dims, dpow(d, n))
        else:
            value *= v ** n
            dims = dmul(dims, dpow(d, n))
    return value, dims


# ------------------------------------------------------------------ physics rules

class Reject(Exception):
    'the operand dimensions are incompatible: the operation must be rejected'


class Unspecified(Exception):
    'the result dimension is not determined by the operands: not judged'


def exponent_of(e):
    'exact rational value of a plain real exponent'
    import numbers
    if isinstance(e, bool):
        return F(int(e))
    if isinstance(e, numbers.Integral):
        return F(int(e))
    if isinstance(e, F):
        return e
    if isinstance(e, float):
        return F(e)
    raise Reject('exponent is not a plain real scalar')


def rule_same(ds, **kw):
    return ds[0]


def rule_add(ds, **kw):
    if any(clean(d) != clean(ds[0]) for d in ds[1:]):
        raise Reject('operands of an addition-like operation differ in dimension')
    return ds[0]


def rule_mul(ds, **kw):
    out = {}
    for d in ds:
        out = dmul(out, d)
    return out


def rule_div(ds, **kw):
    return ddiv(ds[0], ds[1])


def rule_lap(ds, **kw):
    return ddiv(ds[0], dpow(ds[1], 2))


def rule_sqrt(ds, **kw):
    return dpow(ds[0], F(1, 2))


def rule_inv(ds, **kw):
    return dpow(ds[0], -1)


def rule_pow(ds, exponent=None, **kw):
    'ds[0] base; ds[1] dimension of the exponent operand (must be dimensionless); exponent = its plain value'
    if len(ds) > 1 and clean(ds[1]):
        raise Reject('dimensional exponent')
    if not clean(ds[0]):
        return {}
    return dpow(ds[0], exponent_of(exponent))


def rule_jac(ds, ndims=None, **kw):
    if ndims is None:
        raise Unspecified('jacobian without ndims: the power depends on the topology it is later evaluated on')
    return dpow(ds[0], ndims)


def rule_cmp(ds, **kw):
    rule_add(ds)
    return {}


def rule_drop(ds, **kw):
    return {}


def rule_interp(ds, **kw):
    if clean(ds[0]) != clean(ds[1]):
        raise Reject('interpolation abscissae differ in dimension')
    return ds[2]


def rule_intJ(ds, **kw):
    'integrand times the jacobian of a 2-dimensional domain'
    return dmul(ds[0], dpow(ds[1], 2))


RULES = dict(intJ=rule_intJ, same=rule_same, add=rule_add, mul=rule_mul, div=rule_div, lap=rule_lap, sqrt=rule_sqrt, inv=rule_inv,
             pow=rule_pow, jac=rule_jac, cmp=rule_cmp, drop=rule_drop, stack=rule_add, interp=rule_interp)
