'''C20 helper: the call catalogue.  name of a dispatch entry -> list of templates (c20_dispatch.T).
The rule names refer to c20_model.RULES and were assigned from the mathematical meaning of each
function (homogeneous of degree one -> "same", needs commensurable operands -> "add", ...), not
from nutils' own grouping.'''

import operator
from fractions import Fraction as F
import numpy
from .c20_dispatch import T

NUM = ['s', 'n', 'v']
NUMPAIRS = [(a, b) for a in ['s', 'n', 'i', 'v'] for b in ['s', 'n', 'i', 'v']]
FUNPAIRS = [('g', 'g'), ('f', 'f'), ('g', 's'), ('s', 'g'), ('v', 'f'), ('f', 'v'), ('g', 'f')]
PAIRS = NUMPAIRS + FUNPAIRS
ONE = ['s', 'n', 'v', 'g', 'f']

c1 = lambda fn, o, f: fn(o[0])
c2 = lambda fn, o, f: fn(o[0], o[1])

INPLACE = {'add': operator.iadd, 'sub': operator.isub, 'mul': operator.imul, 'truediv': operator.itruediv,
           'mod': operator.imod, 'pow': operator.ipow, 'matmul': operator.imatmul}

EXPONENTS = [0, 1, 2, 3, -1, -2, .5, -.5, 1.5, F(1, 2), F(3, 2), True, numpy.int64(2), numpy.float64(.5)]


def _binary(name, rule, pairs=PAIRS):
    out = [T('call', pairs, c2, rule)]
    if name in INPLACE:
        iop = INPLACE[name]
        out.append(T('inplace', pairs, lambda fn, o, f: iop(o[0], o[1]), rule))
    return out


def _powlike(name):
    out = []
    for e in EXPONENTS:
        kinds = ['s', 'v', 'g'] if not isinstance(e, F) else ['s']
        out.append(T('exp[{!r}]'.format(e), kinds, (lambda e: lambda fn, o, f: fn(o[0], e))(e), 'pow', params={'exponent': e}))
    out.append(T('qexp', [('s', 'e'), ('v', 'e'), ('e', 's'), ('s', 'E'), ('g', 'e')], c2, 'pow'))
    if name in INPLACE:
        iop = INPLACE[name]
        out.append(T('inplace', [('s', 'e'), ('v', 'e')], lambda fn, o, f: iop(o[0], o[1]), 'pow'))
    return out


def build():
    from nutils import function
    C = {}

    # ---- operators
    for n in ('pos', 'neg', 'abs'):
        C['_operator.' + n] = [T('call', ONE, c1, 'same')]
    C['_operator.getitem'] = [
        T('[0]', ['v', 'M', 'f'], lambda fn, o, f: fn(o[0], 0), 'same', smp='smp'),
        T('[::-1]', ['v', 'f'], lambda fn, o, f: fn(o[0], slice(None, None, -1)), 'same', smp='smp'),
        T('[None]', ['v', 'g'], lambda fn, o, f: fn(o[0], None), 'same', smp='smp'),
        T('[1,0]', ['M'], lambda fn, o, f: fn(o[0], (1, 0)), 'same'),
        T('iter', ['v', 'M'], lambda fn, o, f: list(o[0]), 'each'),
        T('len', ['v', 'M'], lambda fn, o, f: len(o[0]), 'drop'),
        T('bool', ['s', 'n'], lambda fn, o, f: bool(o[0]), 'drop'),
    ]
    for n in ('add', 'sub', 'mod'):
        C['_operator.' + n] = _binary(n, 'add')
    C['_operator.mul'] = _binary('mul', 'mul')
    MM = [('v', 'v'), ('M', 'v'), ('v', 'M'), ('M', 'M'), ('f', 'f'), ('f', 'v'), ('v', 'f')]
    C['_operator.matmul'] = _binary('matmul', 'mul', MM)
    C['_operator.truediv'] = _binary('truediv', 'div')
    C['_operator.pow'] = _powlike('pow')
    for n in ('lt', 'le', 'gt', 'ge', 'eq', 'ne'):
        C['_operator.' + n] = [T('call', PAIRS, c2, 'cmp', smp='smp')]
    # _operator.setitem, Topology.locate and the q/'unit' form are special-cased in c20_special

    # ---- numpy: homogeneous of degree one in the first operand
    for n in ('absolute', 'negative', 'positive', 'conjugate', 'real', 'imag'):
        C['numpy.' + n] = [T('call', ONE + ['c'], c1, 'same', smp='smp')]
    red = [T('call', ['s', 'v', 'M', 'f'], c1, 'same', smp='smp'),
           T('axis0', ['v', 'M', 'f'], lambda fn, o, f: fn(o[0], 0), 'same', smp='smp'),
           T('axis=-1', ['M'], lambda fn, o, f: fn(o[0], axis=-1), 'same')]
    for n in ('amax', 'amin', 'max', 'min', 'sum', 'mean', 'ptp'):
        C['numpy.' + n] = red
    C['numpy.broadcast_to'] = [T('(3,2)', ['v', 's', 'f'], lambda fn, o, f: fn(o[0], (3, 2)), 'same', smp='smp')]
    C['numpy.linalg.norm'] = [T('call', ['v', 'M'], c1, 'same'),
                              T('axis0', ['v', 'M', 'f'], lambda fn, o, f: fn(o[0], axis=0), 'same', smp='smp'),
                              T('ord1', ['v'], lambda fn, o, f: fn(o[0], 1), 'same'),
                              T('ordinf', ['v', 'M'], lambda fn, o, f: fn(o[0], numpy.inf), 'same')]
    C['numpy.reshape'] = [T('(2,1)', ['v', 'f'], lambda fn, o, f: fn(o[0], (2, 1)), 'same', smp='smp'),
                          T('(4,)', ['M'], lambda fn, o, f: fn(o[0], (4,)), 'same')]
    C['numpy.take'] = [T('[1,0]', ['v', 'M', 'f'], lambda fn, o, f: fn(o[0], [1, 0]), 'same', smp='smp'),
                       T('axis', ['M'], lambda fn, o, f: fn(o[0], 1, 0), 'same')]
    C['numpy.trace'] = [T('call', ['M'], c1, 'same'),
                        T('axes', ['M'], lambda fn, o, f: fn(o[0], 0, 1, 0), 'same')]
    C['numpy.transpose'] = [T('call', ['v', 'M', 'f'], c1, 'same', smp='smp'),
                            T('axes', ['M'], lambda fn, o, f: fn(o[0], (1, 0)), 'same')]

    # ---- numpy: binary
    for n in ('add', 'subtract', 'maximum', 'minimum', 'hypot'):
        C['numpy.' + n] = [T('call', PAIRS, c2, 'add', smp='smp')]
    C['numpy.multiply'] = [T('call', PAIRS, c2, 'mul', smp='smp')]
    C['numpy.matmul'] = [T('call', MM, c2, 'mul', smp='smp')]
    C['numpy.divide'] = [T('call', PAIRS, c2, 'div', smp='smp')]
    C['numpy.sqrt'] = [T('call', ONE, c1, 'sqrt', smp='smp')]
    C['numpy.power'] = _powlike('power')
    for n in ('equal', 'greater', 'greater_equal', 'less', 'less_equal', 'not_equal'):
        C['numpy.' + n] = [T('call', PAIRS, c2, 'cmp', smp='smp')]
    for n in ('size', 'shape', 'ndim'):
        C['numpy.' + n] = [T('call', ['s', 'v', 'M', 'f'], c1, 'drop')]
    for n in ('isnan', 'isfinite'):
        C['numpy.' + n] = [T('call', ONE, c1, 'drop', smp='smp')]
    C['numpy.stack'] = [T('2', [('s', 's'), ('v', 'v'), ('f', 'f'), ('g', 'g'), ('s', 'n')], lambda fn, o, f: fn([o[0], o[1]]), 'stack', smp='smp'),
                        T('3', [('s', 's', 's'), ('v', 'v', 'v')], lambda fn, o, f: fn([o[0], o[1], o[2]]), 'stack'),
                        T('tuple-axis1', [('v', 'v')], lambda fn, o, f: fn((o[0], o[1]), axis=1), 'stack')]
    C['numpy.concatenate'] = [T('2', [('v', 'v'), ('M', 'M'), ('f', 'f')], lambda fn, o, f: fn([o[0], o[1]]), 'stack', smp='smp'),
                              T('3', [('v', 'v', 'v')], lambda fn, o, f: fn([o[0], o[1], o[2]]), 'stack'),
                              T('axis1', [('M', 'M')], lambda fn, o, f: fn([o[0], o[1]], axis=1), 'stack')]
    C['numpy.interp'] = [T('call', [('v', 'v3', 'v3'), ('s', 'v3', 'v3')], lambda fn, o, f: fn(o[0], o[1], o[2]), 'interp'),
                         # a plain function array in front is dispatched to nutils.function first, which does not know Quantity: unsupported, not unsound
                         T('function-x', [('g', 'v3', 'v3')], lambda fn, o, f: fn(o[0], o[1], o[2]), 'interp', smp='smp', mayraise=True)]

    # ---- nutils.function
    a = {'a': numpy.array(1.5)}
    ab = {'a': numpy.array(1.5), 'b': numpy.array(.25)}
    C['nutils.function.derivative'] = [
        T('str', ['p'], lambda fn, o, f: fn(o[0], 'a'), 'same', smp='smp', args=a),
        T('arg', ['p'], lambda fn, o, f: fn(o[0], f.a), 'same', smp='smp', args=a),
        T('wrt-quantity', [('p', 'A')], c2, 'div', smp='smp', args=a, mayraise=True)]
    C['nutils.function.factor'] = [T('call', ['P'], c1, 'same', args=a, smp='none')]
    C['nutils.function.jump'] = [T('call', ['gd', 'g'], c1, 'same', smp='ifc')]
    C['nutils.function.opposite'] = [T('call', ['gd', 'g'], c1, 'same', smp='ifc')]
    C['nutils.function.kronecker'] = [T('call', ['f', 'v'], lambda fn, o, f: fn(o[0], 0, 3, 1), 'same', smp='smp')]
    C['nutils.function.linearize'] = [T('call', ['p'], lambda fn, o, f: fn(o[0], 'a:b'), 'same', smp='smp', args=ab)]
    C['nutils.function.swap_spaces'] = [T('same-space', ['g', 'f'], lambda fn, o, f: fn(o[0], 'X', 'X'), 'same', smp='smp'),
                                        T('other-space', ['g'], lambda fn, o, f: fn(o[0], 'X', 'Y'), 'same', smp='smp')]
    C['nutils.function.replace_arguments'] = [T('call', ['p'], lambda fn, o, f: fn(o[0], {'a': numpy.array(2.)}), 'same', smp='smp')]
    C['nutils.function.scatter'] = [T('call', ['f', 'v'], lambda fn, o, f: fn(o[0], 3, numpy.array([2, 0])), 'same', smp='smp')]
    C['nutils.function.grad'] = [T('call', [('g', 'x'), ('f', 'x')], c2, 'div', smp='smp'),
                                 T('ndims=-1', [('g', 'x')], lambda fn, o, f: fn(o[0], o[1], -1), 'div', smp='bnd')]
    C['nutils.function.surfgrad'] = [T('call', [('g', 'x'), ('f', 'x')], c2, 'div', smp='bnd')]
    C['nutils.function.div'] = [T('call', [('f', 'x')], c2, 'div', smp='smp')]
    C['nutils.function.curl'] = [T('call', [('w3', 'x3')], c2, 'div', smp='smp3')]
    C['nutils.function.laplace'] = [T('call', [('g', 'x'), ('f', 'x')], c2, 'lap', smp='smp')]
    C['nutils.function.jacobian'] = [T('ndims=2', ['x'], lambda fn, o, f: fn(o[0], 2), 'jac', params={'ndims': 2}, smp='smp'),
                                     T('ndims=1', ['x'], lambda fn, o, f: fn(o[0], 1), 'jac', params={'ndims': 1}, smp='bnd'),
                                     T('J', ['x'], lambda fn, o, f: function.J(o[0], 2), 'jac', params={'ndims': 2}, smp='smp'),
                                     T('ndims=None', ['x'], c1, 'jac', params={'ndims': None}, smp='smp')]
    C['nutils.function.normalized'] = [T('call', ['f', 'v'], c1, 'drop', smp='smp')]
    C['nutils.function.normal'] = [T('call', ['x'], c1, 'drop', smp='bnd')]
    C['nutils.function.curvature'] = [T('call', ['x'], c1, 'inv', smp='bnd')]
    C['nutils.function.evaluate'] = [T('1', ['B', 'v'], lambda fn, o, f: fn(o[0]), 'tuple'),
                                     T('2', [('B', 'B'), ('v', 'B')], lambda fn, o, f: fn(o[0], o[1]), 'tuple'),
                                     T('function.eval', ['B'], lambda fn, o, f: function.eval(o[0]), 'same')]
    from .c20_dispatch import fx
    nb = len(fx().basis)
    ones = {'fld': numpy.ones(nb)}
    C['nutils.function.field'] = [T('1', ['b'], lambda fn, o, f: fn('fld', o[0]), 'mul', smp='smp', args=ones),
                                  T('2', [('b', 'v')], lambda fn, o, f: fn('fld', o[0], o[1]), 'mul', smp='smp', args={'fld': numpy.ones((nb, 2))}),
                                  T('shape', ['b'], lambda fn, o, f: fn('fld', o[0], shape=(2,)), 'mul', smp='smp', args={'fld': numpy.ones((nb, 2))})]
    C['nutils.function.arguments_for'] = [T('1', ['p'], c1, 'drop'), T('2', [('p', 'g'), ('p', 'p')], c2, 'drop')]
    C['nutils.sample.Sample.integral'] = [T('call', ['g', 'f', 'v'], lambda fn, o, f: fn(f.smp, o[0]), 'same', smp='none'),
                                          T('integrate', ['g', 'f'], lambda fn, o, f: f.smp.integrate(o[0]), 'same'),
                                          T('integrate-J', [('g', 'x')], lambda fn, o, f: f.smp.integrate(o[0] * function.J(o[1], 2)), 'intJ')]
    C['nutils.sample.Sample.bind'] = [T('call', ['g', 'f', 'v'], lambda fn, o, f: fn(f.smp, o[0]), 'same', smp='none'),
                                      T('eval', ['g', 'f'], lambda fn, o, f: f.smp.eval(o[0]), 'same')]
    return C
