'''C14 part (a): Matrix.solve on every small matrix x constraint pattern x
initial guess x solver x preconditioner x tolerance, judged by a dense numpy
recomputation that shares no code with nutils.

A case is a JSON dict
  {'b': None | [..] | [[..],..], 'lhs0': None | [..],
   'cons': None | {'t': 'b', 'v': [bool..]} | {'t': 'f', 'v': [float | None ..]},
   'rcons': None | [bool..], 'solver': str, 'args': {...}, 'atol': f, 'rtol': f}
and a witness is {'part': 'lin', 'backend': .., 'A': [[..]], 'hist': [case, ..]}
(the cases are executed in order on ONE freshly assembled matrix object, every
one of them is judged) or {'part': 'lin', 'mode': 'lhs0pair', ...} (two cases on
two fresh objects whose answers must agree).
'''

import itertools, json
import numpy
from . import core

ALPHA = [0., 1., -1., 2., .5]
CV = [.5, -1.25, 2.]          # prescribed values of float constraints
R0 = [.3, -1.7, 2.2]          # the "random-fixed" initial guess
WELL = 1e6                    # condition number below which a machine-precision answer is demanded


def backends():
    out = ['numpy']
    try:
        import scipy.sparse.linalg  # noqa
        out.append('scipy')
    except ImportError:
        pass
    return out


# ------------------------------------------------------------------ families

def small_matrices(alpha=ALPHA):
    for n in (1, 2):
        for ent in itertools.product(alpha, repeat=n * n):
            yield [list(ent[i * n:(i + 1) * n]) for i in range(n)]


F3 = {
    'spd-tridiag': [[2, -1, 0], [-1, 2, -1], [0, -1, 2]],
    'nonsym-cyclic': [[1, 2, 0], [0, 1, 2], [2, 0, 1]],
    'nonsym-dense': [[2, 1, -1], [.5, 2, 1], [-1, 0, 1]],
    'singular-block': [[1, 1, 0], [1, 1, 0], [0, 0, 1]],
    'singular-rowsum': [[1, 2, 0], [0, 1, 1], [1, 3, 1]],
    'zero-row': [[1, 2, 0], [0, 0, 0], [0, 1, 1]],
    'zero-col': [[1, 0, 2], [.5, 0, 1], [0, 0, 1]],
    'upper': [[1, 2, .5], [0, -1, 1], [0, 0, 2]],
    'lower': [[2, 0, 0], [1, -1, 0], [.5, 2, 1]],
    'permutation': [[0, 1, 0], [0, 0, 1], [1, 0, 0]],
    'sym-indefinite': [[1, 2, 0], [2, 1, 2], [0, 2, 1]],
    'sym-singular': [[0, 1, 0], [1, 0, 1], [0, 1, 0]],
    'identity': [[1, 0, 0], [0, 1, 0], [0, 0, 1]],
    'zero': [[0, 0, 0], [0, 0, 0], [0, 0, 0]],
    'diag-mixed': [[1, 0, 0], [0, -1, 0], [0, 0, 2]],
    'stagnating': [[1, 2, 0], [0, -1, 0], [0, 0, 1]],
    'skew+1': [[1, 2, -1], [-2, 1, .5], [1, -.5, 1]],
}

ILL = {
    'tiny1': [[1e-200]],
    'huge1': [[1e200]],
    'near-sing-6': [[1, 1], [1, 1 + 1e-6]],
    'near-sing-10': [[1, 1], [1, 1 + 1e-10]],
    'near-sing-15': [[1, 1], [1, 1 + 1e-15]],
    'scales': [[1e200, 0], [0, 1e-200]],
    'jordan-tiny': [[1e-160, 1], [0, 1e-160]],
    'big-offdiag': [[1, 1e308], [0, 1]],
    'hilbert3': [[1, 1 / 2, 1 / 3], [1 / 2, 1 / 3, 1 / 4], [1 / 3, 1 / 4, 1 / 5]],
    'near-sing3': [[1, 1, 1], [1, 1 + 1e-10, 1], [1, 1, 1 + 1e-10]],
    'graded3': [[1, 0, 0], [0, 1e-8, 0], [0, 0, 1e-16]],
    'scales3': [[1e200, 1, 0], [0, 1, 0], [0, 1, 1e-200]],
    'classic-singular': [[1, 2, 3], [4, 5, 6], [7, 8, 9]],
    'thirds-singular': [[1 / 3, 2 / 3, 1], [1, 1 / 3, 4 / 3], [4 / 3, 1, 7 / 3]],
}

RECT = {
    'wide-a': [[1, 2, 0], [0, 1, 2]],
    'wide-b': [[1, 1, 1], [1, 1, 1]],
    'wide-c': [[2, 0, 1], [0, 0, 1]],
    'tall-a': [[1, 0], [2, 1], [0, 2]],
    'tall-b': [[1, 1], [1, 1], [0, 0]],
    'tall-c': [[0, 1], [1, 0], [2, 2]],
}


def sym3(alpha):
    for d0, d1, d2, a, b, c in itertools.product(alpha, repeat=6):
        yield [[d0, a, b], [a, d1, c], [b, c, d2]]


def upper3(alpha):
    for d0, d1, d2, a, b, c in itertools.product(alpha, repeat=6):
        yield [[d0, a, b], [0., d1, c], [0., 0., d2]]


def cyc3(alpha):
    'non-symmetric: tridiagonal + corner, constant diagonals'
    for d, l, u, c0, c1 in itertools.product(alpha, repeat=5):
        yield [[d, u, c0], [l, d, u], [c1, l, d]]


# ------------------------------------------------------------------ configuration alphabets

def solver_configs(backend, tier):
    cfgs = [('direct', {}), ('arnoldi', {}), ('arnoldi', {'precon': 'diag'}), ('arnoldi', {'precon': 'diag', 'truncate': 1}), ('direct', {'precon': 'diag'})]
    if backend == 'scipy':
        cfgs += [('direct', {'precon': 'splu'}), ('arnoldi', {'precon': 'spilu'}), ('cg', {}), ('cg', {'precon': 'diag'}), ('gmres', {}),
                 ('gmres', {'precon': 'direct'}), ('bicgstab', {}), ('bicg', {}), ('cgs', {}), ('lgmres', {'maxiter': 20})]
        if tier == 'thorough':
            cfgs += [('arnoldi', {'precon': 'spilu0'}), ('bicgstab', {'precon': 'spilu'}), ('lgmres', {'precon': 'diag', 'maxiter': 20})]
    return cfgs


INVALID_CONFIGS = [('bogus', {}), ('direct', {'precon': 'bogus'}), ('arnoldi', {'precon': 'bogus'})]


def tolerances(tier):
    if tier == 'thorough':
        return [(a, r) for a in (0., 1e-10, 1e-3, 10.) for r in (0., 1e-10, 1e-3, 10.)]
    return [(0., 0.), (1e-10, 0.), (0., 1e-3), (1e-3, 1e-10), (10., 0.), (0., 10.)]


def constraints(n):
    'None, every boolean mask, every NaN-float pattern'
    out = [None]
    for m in itertools.product([False, True], repeat=n):
        out.append({'t': 'b', 'v': list(m)})
    for m in itertools.product([False, True], repeat=n):
        out.append({'t': 'f', 'v': [CV[i] if c else None for i, c in enumerate(m)]})
    return out


def rhs_set(n, tier, extreme=False):
    out = [None, [1.] * n, [[1. if i == n - 1 else 0., 1.] for i in range(n)]]
    es = [[1. if i == j else 0. for i in range(n)] for j in range(n)]
    out += es if tier == 'thorough' else es[:1]
    if tier == 'thorough':
        out.append([0.] * n)
    if extreme:
        out.append([1e200] * n)
    return out


def lhs0_set(n, tier):
    out = [None, R0[:n], [1.] * n]
    if tier == 'thorough':
        out.append([0.] * n)
    return out


# ------------------------------------------------------------------ running a case on nutils

def assemble(A, backend):
    from nutils import matrix
    D = numpy.array(A, dtype=float)
    rows, cols = numpy.nonzero(D)
    rowptr = numpy.searchsorted(rows, numpy.arange(D.shape[0] + 1))
    with matrix.backend(backend):
        return matrix.assemble_csr(D[rows, cols], rowptr, cols, D.shape[1])


def _cons_array(cons):
    if cons is None:
        return None
    if cons['t'] == 'b':
        return numpy.array(cons['v'], dtype=bool)
    return numpy.array([numpy.nan if v is None else v for v in cons['v']], dtype=float)


def execute(M, c):
    from nutils import matrix
    b = None if c['b'] is None else numpy.array(c['b'], dtype=float)
    lhs0 = None if c['lhs0'] is None else numpy.array(c['lhs0'], dtype=float)
    cons = _cons_array(c['cons'])
    rcons = None if c.get('rcons') is None else numpy.array(c['rcons'], dtype=bool)
    try:
        with numpy.errstate(all='ignore'):
            x = M.solve(b, lhs0=lhs0, constrain=cons, rconstrain=rcons, solver=c['solver'], atol=c['atol'], rtol=c['rtol'], **c['args'])
    except matrix.ToleranceNotReached as e:
        return ('tolnr', None)
    except matrix.MatrixError as e:
        return ('matrixerror', str(e)[:80])
    except Exception as e:
        return ('other', type(e).__name__, str(e)[:200])
    return ('returned', x)


# ------------------------------------------------------------------ the oracle (numpy only)

def _colnorm(v):
    'largest 2-norm over the columns of v (v is (k,) or (k,m)); 0 for k == 0'
    if v.shape[0] == 0:
        return 0.
    return float(numpy.sqrt((v * v).sum(axis=0)).max())


def setup(A, c):
    'independent reading of the request: free rows I, free columns J, start vector x0 carrying the prescription, reduced rhs'
    nr, nc = A.shape
    b = numpy.zeros(nr) if c['b'] is None else numpy.array(c['b'], dtype=float)
    tail = b.shape[1:]
    x0 = numpy.zeros((nc,) + tail)
    if c['lhs0'] is not None:
        l = numpy.array(c['lhs0'], dtype=float)
        x0[...] = l.reshape((nc,) + (1,) * len(tail))
    cons = c['cons']
    if cons is None:
        J = numpy.ones(nc, dtype=bool)
    elif cons['t'] == 'b':
        J = ~numpy.array(cons['v'], dtype=bool)
    else:
        J = numpy.array([v is None for v in cons['v']], dtype=bool)
        for i, v in enumerate(cons['v']):
            if v is not None:
                x0[i] = v
    I = J if c.get('rcons') is None else ~numpy.array(c['rcons'], dtype=bool)
    return b, x0, I, J


def _solver_class(c):
    'root-cause classes of solver configurations: an exact direct solve, a single application of an inexact preconditioner, the built-in arnoldi iteration, a scipy iteration'
    precon = c['args'].get('precon', 'direct')
    if c['solver'] == 'direct':
        return 'direct-exact' if precon in ('direct', 'splu') else 'direct-inexact-precon'
    return c['solver']


def judge(A, c, out):
    '''None if the outcome honours the property, else (key, description).'''
    kind = out[0]
    tag = c['solver'] + ('/' + c['args']['precon'] if 'precon' in c['args'] else '')
    if kind == 'other':
        multicol = c['b'] is not None and isinstance(c['b'][0], list)
        what = 'rhs-none' if c['b'] is None and c['lhs0'] is None and c['cons'] is None else 'multicol-floatcons' if multicol and c['cons'] and c['cons']['t'] == 'f' else tag
        return 'lin:raised-unexpected:{}:{}'.format(out[1], what), 'Matrix.solve raised {}({!r}) instead of returning or raising a MatrixError'.format(out[1], out[2])
    if kind != 'returned':
        return None
    x = out[1]
    with numpy.errstate(all='ignore'):
        b, x0, I, J = setup(A, c)
        if not isinstance(x, numpy.ndarray) or x.shape != x0.shape:
            return 'lin:bad-shape', 'returned {!r} for a request of shape {}'.format(x, x0.shape)
        if x.dtype.kind != 'f':
            return 'lin:bad-dtype', 'returned dtype {}'.format(x.dtype)
        if not numpy.isfinite(x).all():
            return 'lin:nonfinite-returned', 'returned non-finite values {}'.format(x.tolist())
        if x[~J].tobytes() != x0[~J].tobytes():
            return 'lin:constraint-violated:' + ('bool' if c['cons']['t'] == 'b' else 'float') + (':multicol' if x.ndim > 1 else ''), 'constrained entries {} differ from the prescription {}'.format(x[~J].tolist(), x0[~J].tolist())
        if I.sum() != J.sum():
            return 'lin:returned-for-nonsquare', 'returned {} for a {}x{} reduced system'.format(x.tolist(), I.sum(), J.sum())
        r = (b - A @ x)[I]
        rn = _colnorm(r)
        bn = _colnorm((b - A @ x0)[I])
        scale = float((abs(A) @ (abs(x) + abs(x0))).max(initial=0.) + abs(b).max(initial=0.))
        tol = max(c['atol'], c['rtol'] * bn)
        if not scale < 1e150:
            return None  # the residual norm (a sum of squares) is not representable; only finiteness and constraints are demanded
        if tol > 0:
            if not rn <= tol * (1 + 1e-9) + 1e-12 * scale:
                return 'lin:unconverged-returned:tol', 'returned {} with free-row residual {:.3e} > requested max(atol={:g}, rtol={:g}*{:.3e})'.format(x.tolist(), rn, c['atol'], c['rtol'], bn)
        elif not rn <= 1e-7 * scale:
            AIJ = A[numpy.ix_(I, J)]
            if numpy.isfinite(AIJ).all() and numpy.linalg.cond(AIJ) < WELL:
                return 'lin:unconverged-returned:atol0:' + _solver_class(c), 'machine precision requested (atol=rtol=0) on a system with condition number {:.1f}; returned {} with free-row residual {:.3e} (|b|={:.3e})'.format(
                    numpy.linalg.cond(AIJ), x.tolist(), rn, bn)
    return None


def judge_pair(A, c1, c2, x1, x2):
    'same request up to lhs0, prescription independent of lhs0: the answers must agree as far as the tolerances determine them'
    with numpy.errstate(all='ignore'):
        d = float(abs(x1 - x2).max(initial=0.))
        mag = 1 + float(abs(x1).max(initial=0.))
        if d <= 1e-9 * mag:
            return None
        b, x01, I, J = setup(A, c1)
        _, x02, _, _ = setup(A, c2)
        if not 1e-150 < float((abs(A) @ (abs(x1) + abs(x2) + abs(x01) + abs(x02))).max(initial=0.) + abs(b).max(initial=0.)) < 1e150:
            return None  # residual norms (sums of squares) overflow / underflow: nothing is demanded beyond finiteness and constraints
        AIJ = A[numpy.ix_(I, J)]
        if I.sum() != J.sum() or not I.any() or not numpy.isfinite(AIJ).all() or not numpy.linalg.cond(AIJ) < WELL:
            return None  # solution not unique / not well determined
        inv = numpy.linalg.norm(numpy.linalg.inv(AIJ), 2)
        # each answer is determined up to its tolerance; "machine precision" (atol=rtol=0) is the 1e-7*scale that judge() enforces
        scale = float((abs(A) @ (abs(x1) + abs(x2) + abs(x01) + abs(x02))).max(initial=0.) + abs(b).max(initial=0.))
        t1 = max(c1['atol'], c1['rtol'] * _colnorm((b - A @ x01)[I])) or 1e-7 * scale
        t2 = max(c2['atol'], c2['rtol'] * _colnorm((b - A @ x02)[I])) or 1e-7 * scale
        ncol = 1 if x1.ndim == 1 else x1.shape[1]
        if d <= (t1 + t2) * inv * (1 + 1e-6) * numpy.sqrt(ncol) + 1e-9 * mag:
            return None
    return 'lin:depends-on-lhs0', 'answers for lhs0={} and lhs0={} differ by {:.3e}: {} vs {}'.format(c1['lhs0'], c2['lhs0'], d, x1.tolist(), x2.tolist())


# ------------------------------------------------------------------ enumeration

def _nontrivial(A, c):
    b, x0, I, J = setup(A, c)
    return bool(J.any() and I.sum() == J.sum() and ((b - A @ x0)[I] != 0).any())


def _wit(backend, A, hist):
    return {'part': 'lin', 'backend': backend, 'A': A, 'hist': hist}


def run_hist(backend, Alist, hist):
    'fresh object, run every case, return first (index, key, what) or None'
    A = numpy.array(Alist, dtype=float)
    M = assemble(Alist, backend)
    for i, c in enumerate(hist):
        v = judge(A, c, execute(M, c))
        if v:
            return i, v[0], v[1]
    return None


def plans(backend, n, tier, family):
    '''the request space of one matrix as a union of full products
    (constraints x rhs x lhs0 x solver configurations x tolerances)'''
    cfgs = solver_configs(backend, tier)
    tols = tolerances(tier)
    allcons = constraints(n)
    rhs = rhs_set(n, tier, family == 'ill')
    lhs0 = lhs0_set(n, tier)
    if family in ('sym3', 'sym3-small', 'upper3', 'cyc3'):  # thorough-only 3x3 classes: every constraint pattern, fewer numerical knobs
        cfgs = cfgs[:4] if backend == 'numpy' else [cfgs[0], cfgs[2], cfgs[5], cfgs[7], cfgs[9]]
        return [dict(cons=allcons, rhs=rhs[:3], lhs0=lhs0[:2], cfgs=cfgs, tols=[(0., 0.), (1e-10, 0.), (0., 1e-3), (10., 0.)])]
    if tier == 'thorough':
        if backend == 'scipy' and family == 'small':  # the scipy iterations are 3-5x slower per request: half of the tolerance grid
            tols = [(a, r) for a, r in tols if (a, r) in ((0., 0.), (1e-10, 0.), (0., 1e-10), (1e-3, 0.), (0., 1e-3), (1e-3, 1e-10), (10., 0.), (0., 10.))]
            rhs = rhs_set(n, 'quick')
        return [dict(cons=allcons, rhs=rhs, lhs0=lhs0, cfgs=cfgs, tols=tols)]
    # quick: P1 exercises the constraint / initial-guess handling, P2 the solver / tolerance handling
    somecons = [None, {'t': 'b', 'v': [True] + [False] * (n - 1)}, {'t': 'f', 'v': [None] * (n - 1) + [CV[n - 1]]}]
    if backend == 'numpy':
        p1 = dict(cons=allcons, rhs=rhs, lhs0=lhs0, cfgs=[cfgs[0], cfgs[2]], tols=[(0., 0.), (1e-3, 1e-10)])
        p2 = dict(cons=somecons, rhs=rhs[1:3], lhs0=lhs0[:2], cfgs=cfgs, tols=tols)
    else:  # the pre/post-processing is backend independent; concentrate on the scipy solvers
        p1 = dict(cons=allcons, rhs=rhs, lhs0=lhs0, cfgs=[cfgs[0]], tols=[(0., 0.), (1e-3, 1e-10)])
        p2 = dict(cons=[somecons[0], somecons[2]], rhs=rhs[1:3], lhs0=lhs0[:2], cfgs=cfgs[:2] + cfgs[5:], tols=tols)
    return [p1, p2]


def explore_products(res, backend, mats, tier, family):
    for Alist in mats:
        A = numpy.array(Alist, dtype=float)
        n = A.shape[0]
        res.count('states')
        done = set()
        for plan in plans(backend, n, tier, family):
            for ic, cons in enumerate(plan['cons']):
                for b in plan['rhs']:
                    for solver, args in plan['cfgs']:
                        for atol, rtol in plan['tols']:
                            answers = []
                            for lhs0 in plan['lhs0']:
                                c = {'b': b, 'lhs0': lhs0, 'cons': cons, 'rcons': None, 'solver': solver, 'args': args, 'atol': atol, 'rtol': rtol}
                                ckey = repr(c)
                                if ckey in done:
                                    continue
                                done.add(ckey)
                                M = assemble(Alist, backend)
                                out = execute(M, c)
                                res.count('evaluations')
                                res.count('transitions')
                                v = judge(A, c, out)
                                res.distinct('distinct_outcomes', '{}:{}:{}:{}'.format(backend, solver, args.get('precon'), out[0] if out[0] != 'matrixerror' else out[1][:25]))
                                if v:
                                    res.violation(v[0], '[{}] A={} {}: {}'.format(backend, Alist, _brief(c), v[1]), _wit(backend, Alist, [c]))
                                    continue
                                res.count('traces_validated_against_impl')
                                if _nontrivial(A, c):
                                    res.distinct('distinct_nontrivial', backend + repr(Alist) + ckey)
                                if out[0] == 'returned' and (cons is None or cons['t'] == 'f'):
                                    answers.append((c, out[1]))
                            for (c1, x1), (c2, x2) in zip(answers, answers[1:]):
                                v = judge_pair(A, c1, c2, x1, x2)
                                res.count('lhs0_pairs_compared')
                                if v:
                                    res.violation(v[0], '[{}] A={} {}: {}'.format(backend, Alist, _brief(c1), v[1]), {'part': 'lin', 'mode': 'lhs0pair', 'backend': backend, 'A': Alist, 'cases': [c1, c2]})
        if len(res.samples) < 2 and n > 1 and answers:
            c, x = answers[-1]
            res.sample({'part': 'lin', 'backend': backend, 'A': Alist, 'requests_on_this_matrix': len(done), 'last_request': c, 'answer': numpy.asarray(x).tolist()})


def _brief(c):
    return 'b={} lhs0={} cons={} rcons={} solver={}{} atol={:g} rtol={:g}'.format(c['b'], c['lhs0'], None if c['cons'] is None else c['cons']['v'], c.get('rcons'), c['solver'], c['args'] or '', c['atol'], c['rtol'])


def combos(nr, nc):
    'all (column constraint, row constraint) selections; rcons None means rows follow the columns (square matrices only)'
    out = []
    for cm in itertools.product([False, True], repeat=nc):
        if nr == nc:
            out.append((list(cm), None))
        for rm in itertools.product([False, True], repeat=nr):
            if nr < 3 or nr - sum(rm) == nc - sum(cm):  # 3 rows: only selections that leave a square system (mismatches are covered by the smaller shapes)
                out.append((list(cm), list(rm)))
    return out


def explore_histories(res, backend, mats, tier):
    '''ordered pairs of solves on ONE matrix object (one-slot submatrix cache, one-slot preconditioner cache):
    all pairs of (constrain, rconstrain) selections with the direct solver, all pairs of solver configurations on two selections;
    selections whose reduced system is not square must raise MatrixError'''
    for Alist in mats:
        A = numpy.array(Alist, dtype=float)
        nr, nc = A.shape
        b = [1.] * nr
        lhs0 = R0[:nc]
        res.count('states')

        def case(cm, rm, solver='direct', args={}):
            return {'b': b, 'lhs0': lhs0, 'cons': {'t': 'b', 'v': cm}, 'rcons': rm, 'solver': solver, 'args': args, 'atol': 1e-10, 'rtol': 0.}
        cs = [case(cm, rm) for cm, rm in combos(nr, nc)]
        pairs = [(c1, c2) for c1 in cs for c2 in cs]
        cfgs = solver_configs(backend, tier)[:5] + INVALID_CONFIGS[:2]
        if nr == nc:
            for cm in ([False] * nc, [True] + [False] * (nc - 1)):
                ss = [case(cm, None, s, a) for s, a in cfgs]
                pairs += [(c1, c2) for c1 in ss for c2 in ss]
        for c1, c2 in pairs:
            M = assemble(Alist, backend)
            for i, c in enumerate((c1, c2)):
                out = execute(M, c)
                res.count('evaluations')
                res.count('transitions')
                v = judge(A, c, out)
                if v:
                    hist = [c1, c2][:i + 1]
                    if i == 1 and run_hist(backend, Alist, [c2]):
                        hist = [c2]
                    res.violation(v[0] + (':history' if len(hist) > 1 else ''), '[{}] A={} after {}: {}: {}'.format(backend, Alist, _brief(c1) if len(hist) > 1 else 'nothing', _brief(c), v[1]), _wit(backend, Alist, hist))
                    break
            else:
                res.count('traces_validated_against_impl')
                if _nontrivial(A, c2) and _nontrivial(A, c1):
                    res.distinct('distinct_nontrivial', backend + repr(Alist) + repr(c1) + repr(c2))
        if len(res.samples) < 2:
            res.sample({'part': 'lin-history', 'backend': backend, 'A': Alist, 'ordered_pairs': len(pairs)})


def explore_invalid(res, backend, mats, tier):
    'requests the documentation rules out (unknown solver / preconditioner): must raise MatrixError'
    for Alist in mats:
        A = numpy.array(Alist, dtype=float)
        n = A.shape[0]
        for solver, args in INVALID_CONFIGS:
            for cons in constraints(n):
                c = {'b': [1.] * n, 'lhs0': None, 'cons': cons, 'rcons': None, 'solver': solver, 'args': args, 'atol': 0., 'rtol': 0.}
                # a request that is already satisfied (no free dof / zero reduced rhs) may legitimately return without touching the solver
                M = assemble(Alist, backend)
                out = execute(M, c)
                res.count('evaluations')
                v = judge(A, c, out)
                if v:
                    res.violation(v[0], '[{}] A={} {}: {}'.format(backend, Alist, _brief(c), v[1]), _wit(backend, Alist, [c]))
                elif out[0] == 'matrixerror':
                    res.distinct('distinct_nontrivial', json.dumps([backend, Alist, c]))


def replay(w):
    A = numpy.array(w['A'], dtype=float)
    if w.get('mode') == 'lhs0pair':
        c1, c2 = w['cases']
        o1 = execute(assemble(w['A'], w['backend']), c1)
        o2 = execute(assemble(w['A'], w['backend']), c2)
        if o1[0] != 'returned' or o2[0] != 'returned':
            return None
        v = judge_pair(A, c1, c2, o1[1], o2[1])
        return v and v[1]
    r = run_hist(w['backend'], w['A'], w['hist'])
    if r is None:
        return None
    i, key, what = r
    return 'solve #{} of {} on one matrix object, {}: {}'.format(i + 1, len(w['hist']), _brief(w['hist'][i]), what)
