'''Shared bookkeeping: shard results, known findings, evidence validation.'''

import os, json, hashlib, signal, random, contextlib

HERE = os.path.dirname(os.path.dirname(os.path.abspath(__file__)))


class HarnessError(Exception):
    pass


class Timeout(Exception):
    pass


def h8(s):
    'short stable digest used to count distinct cases without shipping them around'
    if not isinstance(s, bytes):
        s = str(s).encode()
    return hashlib.blake2b(s, digest_size=8).hexdigest()


class ShardResult:
    '''counters are summed, key sets are united, samples and violations are concatenated (bounded)'''

    MAXSAMPLES = 6

    def __init__(self):
        self.counters = {}       # name -> int (summed)
        self.maxima = {}         # name -> int (max)
        self.sets = {}           # name -> set of short digests (distinct counting across shards)
        self.samples = []
        self.violations = []     # dicts key/what/witness
        self.errors = []
        self.wall = 0.

    def count(self, name, n=1):
        self.counters[name] = self.counters.get(name, 0) + n

    def maximum(self, name, v):
        if v > self.maxima.get(name, -1):
            self.maxima[name] = v

    def distinct(self, name, key):
        self.sets.setdefault(name, set()).add(h8(key))

    def sample(self, s):
        if len(self.samples) < self.MAXSAMPLES:
            self.samples.append(s)

    def violation(self, key, what, witness):
        if sum(1 for v in self.violations if v['key'] == key) < 2 and len(self.violations) < 200:
            self.violations.append({'key': key, 'what': str(what)[:2000], 'witness': witness})
        self.count('violations_raw')

    def pack(self):
        return {'counters': self.counters, 'maxima': self.maxima, 'sets': {k: sorted(v) for k, v in self.sets.items()},
                'samples': self.samples, 'violations': self.violations, 'errors': self.errors, 'wall': self.wall}

    @classmethod
    def unpack(cls, d):
        self = cls()
        self.counters = d['counters']
        self.maxima = d['maxima']
        self.sets = {k: set(v) for k, v in d['sets'].items()}
        self.samples = d['samples']
        self.violations = d['violations']
        self.errors = d['errors']
        self.wall = d['wall']
        return self

    def merge(self, other):
        for k, v in other.counters.items():
            self.counters[k] = self.counters.get(k, 0) + v
        for k, v in other.maxima.items():
            self.maxima[k] = max(self.maxima.get(k, v), v)
        for k, v in other.sets.items():
            self.sets.setdefault(k, set()).update(v)
        for s in other.samples:
            if len(self.samples) < 12:
                self.samples.append(s)
        self.violations.extend(other.violations)
        self.errors.extend(other.errors)
        self.wall += other.wall

    def coverage(self):
        cov = dict(self.counters)
        cov.update(self.maxima)
        for k, v in self.sets.items():
            cov[k] = len(v)
        cov.setdefault('evaluations', 0)
        cov.setdefault('distinct_nontrivial', 0)
        cov['samples'] = self.samples
        cov['cpu_s'] = round(self.wall, 1)
        return cov


def seeded_order(n, seed):
    'VERIF_SEED only permutes the order in which shards are explored'
    order = list(range(n))
    if seed:
        random.Random(seed).shuffle(order)
    return order


def load_known(pid):
    '''entries for one property from known_findings.json plus known_findings.d/<PID>.json (same format, one file per
    property so that they can be maintained independently); both are committed and never written at run time'''
    out = []
    for path in (os.path.join(HERE, 'known_findings.json'), os.path.join(HERE, 'known_findings.d', pid + '.json')):
        if not os.path.exists(path):
            continue
        with open(path) as f:
            data = json.load(f)
        out.extend(e for e in data.get('findings', []) if e.get('property') == pid)
    return out


def run_with_alarm(f, seconds):
    def handler(signum, frame):
        raise Timeout('exceeded {}s'.format(seconds))
    old = signal.signal(signal.SIGALRM, handler)
    signal.alarm(int(seconds))
    try:
        return f()
    finally:
        signal.alarm(0)
        signal.signal(signal.SIGALRM, old)


@contextlib.contextmanager
def alarm(seconds):
    def handler(signum, frame):
        raise Timeout('exceeded {}s'.format(seconds))
    old = signal.signal(signal.SIGALRM, handler)
    signal.setitimer(signal.ITIMER_REAL, seconds)
    try:
        yield
    finally:
        signal.setitimer(signal.ITIMER_REAL, 0)
        signal.signal(signal.SIGALRM, old)


def validate_evidence(ev):
    'hand-written rendition of EVIDENCE.schema.json (jsonschema is not in /venv)'
    p = []
    for k in ('property_id', 'tier', 'seed', 'level', 'coverage', 'wall_s'):
        if k not in ev:
            p.append('missing ' + k)
    if p:
        return p
    if ev['tier'] not in ('quick', 'thorough'):
        p.append('tier')
    if not isinstance(ev['seed'], int):
        p.append('seed')
    if not isinstance(ev['wall_s'], (int, float)):
        p.append('wall_s')
    lvl = ev['level']
    cov = ev['coverage']
    if lvl not in ('exploration', 'fault_enumeration', 'model_checking'):
        p.append('level')

    def generic(need_rule):
        if not (isinstance(cov.get('evaluations'), int) and cov['evaluations'] >= 1):
            p.append('evaluations')
        if not (isinstance(cov.get('distinct_nontrivial'), int) and cov['distinct_nontrivial'] >= 2):
            p.append('distinct_nontrivial')
        if need_rule and not isinstance(cov.get('rule'), str):
            p.append('rule')
        if not (isinstance(cov.get('samples'), list) and len(cov['samples']) >= 1):
            p.append('samples')
    if lvl in ('exploration', 'fault_enumeration'):
        generic(True)
    elif lvl == 'model_checking':
        if all(k in cov for k in ('states', 'transitions', 'traces_validated_against_impl', 'samples')):
            if not (isinstance(cov['states'], int) and cov['states'] >= 1):
                p.append('states')
            if not (isinstance(cov['transitions'], int) and cov['transitions'] >= 1):
                p.append('transitions')
            if not (isinstance(cov['traces_validated_against_impl'], int) and cov['traces_validated_against_impl'] >= 0):
                p.append('traces_validated_against_impl')
            if not (isinstance(cov['samples'], list) and cov['samples']):
                p.append('samples')
        else:
            generic(False)
    try:
        json.dumps(ev)
    except Exception as e:
        p.append('not json: {}'.format(e))
    return p


# ---------------------------------------------------------------------------------------------------------------- fork token
# On this kind of box a fork costs ~30 ms when one process forks (even with all other cores busy computing) but 200-350 ms when 16
# processes fork at the same time, i.e. concurrent forking is slower than serial forking.  Every fork-heavy section of a check
# (one execution under vmc.sched, one call of a function compiled with maxprocs>1) therefore runs under a machine-wide token.
# Only speed is affected: the token is advisory and re-entrant per process.

_FORK = {'fds': None, 'depth': 0, 'pid': None}
FORK_SLOTS = int(os.environ.get('VERIF_FORK_SLOTS') or 2)


@contextlib.contextmanager
def fork_token():
    import fcntl
    if _FORK['pid'] != os.getpid():   # first use in this process (or in a forked child: own depth, shared description is harmless)
        _FORK.update(pid=os.getpid(), depth=0)
        if _FORK['fds'] is None:
            d = os.path.join(os.path.dirname(os.path.dirname(os.path.abspath(__file__))), '.locks')
            try:
                os.makedirs(d, exist_ok=True)
                _FORK['fds'] = [os.open(os.path.join(d, 'fork{}.lock'.format(k)), os.O_CREAT | os.O_RDWR, 0o666) for k in range(FORK_SLOTS)]
            except OSError:
                _FORK['fds'] = []
    if not _FORK['fds'] or _FORK['depth'] > 0:
        _FORK['depth'] += 1
        try:
            yield
        finally:
            _FORK['depth'] -= 1
        return
    held = None
    for fd in _FORK['fds']:   # a free slot if there is one, else wait for "our" slot
        try:
            fcntl.flock(fd, fcntl.LOCK_EX | fcntl.LOCK_NB)
            held = fd
            break
        except OSError:
            pass
    if held is None:
        held = _FORK['fds'][os.getpid() % len(_FORK['fds'])]
        fcntl.flock(held, fcntl.LOCK_EX)
    _FORK['depth'] = 1
    try:
        yield
    finally:
        _FORK['depth'] = 0
        try:
            fcntl.flock(held, fcntl.LOCK_UN)
        except OSError:
            pass
