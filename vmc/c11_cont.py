'''C11 part (e): References (elementseq) and PointsSequence (pointsseq) as state spaces.

A state is a live container plus a python list of its items.  Operations
take / compress / slice / chain / repeat / product / children / edges are
applied to both; afterwards len / bool / iter / get / getitem / out-of-range /
ndims / npoints / tri / hull are compared with the list.
'''

import json
import numpy

MAXLEN = {'quick': 40, 'thorough': 80}
MAXDEPTH = 3
REF_BASES = ['u1', 'u2', 'p2', 'p2b', 'e1', 'p1']
PTS_BASES = ['gu1', 'gp2', 'bp2', 'bu2', 'gp1']


def _refs():
    from nutils import element
    line = element.LineReference()
    tri = element.TriangleReference()
    return line, tri, line * line


def build(cls, name):
    'returns (container, list model)'
    from nutils import elementseq, pointsseq
    line, tri, sq = _refs()
    R = elementseq.References
    if cls == 'References':
        items, nd = {'u1': ([line] * 3, 1), 'u2': ([sq] * 2, 2), 'p2': ([tri, sq, tri], 2), 'p2b': ([sq, tri], 2), 'e1': ([], 1), 'p1': ([line, line.empty, line], 1)}[name]
        return R.from_iter(items, nd), list(items)
    refs, nd, scheme, degree = {'gu1': ([line] * 3, 1, 'gauss', 2), 'gp2': ([tri, sq, tri], 2, 'gauss', 1), 'bp2': ([tri, sq, sq], 2, 'bezier', 2),
                                'bu2': ([sq] * 2, 2, 'bezier', 2), 'gp1': ([line, line, line], 1, 'gauss', 1)}[name]
    items = [r.getpoints(scheme, degree if not (name == 'gp1' and i == 1) else 3) for i, r in enumerate(refs)]
    return pointsseq.PointsSequence.from_iter(items, nd), items


def other(cls, ndims):
    'a fixed second operand for chain / product'
    from nutils import elementseq, pointsseq
    line, tri, sq = _refs()
    if cls == 'References':
        items = {1: [line, line], 2: [sq, tri, tri]}.get(ndims)
        if items is None:
            return None
        return elementseq.References.from_iter(items, ndims), items
    items = {1: [line.getpoints('gauss', 1), line.getpoints('gauss', 2)], 2: [sq.getpoints('bezier', 2), tri.getpoints('bezier', 2), tri.getpoints('bezier', 2)]}.get(ndims)
    if items is None:
        return None
    return pointsseq.PointsSequence.from_iter(items, ndims), items


def factor(cls):
    'operands for product: a uniform and a plain 1-D sequence'
    from nutils import elementseq, pointsseq
    line, tri, sq = _refs()
    if cls == 'References':
        return [(elementseq.References.uniform(line, 2), [line, line]), (elementseq.References.from_iter([line, line.empty], 1), [line, line.empty])]
    a, b = line.getpoints('gauss', 1), line.getpoints('gauss', 2)
    return [(pointsseq.PointsSequence.uniform(a, 2), [a, a]), (pointsseq.PointsSequence.from_iter([a, b], 1), [a, b])]


def index_arrays(n):
    out = [('sorted', [])]
    if n >= 1:
        out += [('sorted', [0]), ('sorted', [n - 1])]
    if n >= 2:
        out += [('unsorted', [n - 1, 0]), ('unsorted', list(range(n))[::-1]), ('repeated', [0, 0, 1]), ('sorted', list(range(0, n, 2))), ('unsorted', list(range(1, n)) + [0])]
    if n >= 3:
        out += [('sorted', [0, n - 1]), ('sorted', list(range(1, n)))]
    res = []
    for k, a in out:
        if all(a != b for _, b in res):
            res.append((k, a))
    return res


def bool_masks(n):
    out = [[i % 2 == 0 for i in range(n)], [i == 0 for i in range(n)], [True] * n, [False] * n, [i != 0 for i in range(n)]]
    res = []
    for m in out:
        if m not in res:
            res.append(m)
    return res


def operations(cls, model, ndims, depth, tier):
    n = len(model)
    ops = []
    ia, bm = index_arrays(n), bool_masks(n)
    if depth >= 1 and tier == 'quick':
        ia = [x for x in ia if x[1]][:4] + ia[:1]
        bm = bm[:2]
    ops += [['take', k, a] for k, a in ia]
    ops += [['compress', m] for m in bm]
    ops += [['slice', s] for s in ([1, None, None], [None, None, -1], [None, None, 2], [None, -1, None])]
    ops += [['chain', w] for w in ('self', 'other', 'other-left', 'revcopy')]
    ops += [['repeat', k] for k in (0, 2, 3)]
    if ndims <= 2:
        ops += [['product', i, side] for i in (0, 1) for side in ('right', 'left') if ndims <= 1 or side == 'right']
    if cls == 'References':
        ops.append(['children'])
        if ndims >= 1:
            ops.append(['edges'])
    return ops


def apply_op(cls, obj, model, op):
    'returns (obj2, model2) or None if not applicable'
    k = op[0]
    if k == 'take':
        return obj.take(numpy.array(op[2], dtype=int)), [model[i] for i in op[2]]
    if k == 'compress':
        return obj.compress(numpy.array(op[1], dtype=bool)), [x for x, m in zip(model, op[1]) if m]
    if k == 'slice':
        return obj[slice(*op[1])], model[slice(*op[1])]
    if k == 'chain':
        if op[1] == 'self':
            return obj.chain(obj), model + model
        if op[1] == 'revcopy':  # the reversed operand is built from the list model, not with obj[::-1]
            if len(model) < 2:
                return None
            from nutils import elementseq, pointsseq
            rev = (elementseq.References if cls == 'References' else pointsseq.PointsSequence).from_iter(model[::-1], obj.ndims)
            return obj.chain(rev), model + model[::-1]
        o = other(cls, obj.ndims)
        if o is None:
            return None
        return (obj.chain(o[0]), model + o[1]) if op[1] == 'other' else (o[0].chain(obj), o[1] + model)
    if k == 'repeat':
        return obj.repeat(op[1]), model * op[1]
    if k == 'product':
        f, fm = factor(cls)[op[1]]
        if op[2] == 'right':
            return obj.product(f), [a * b for a in model for b in fm]
        return f.product(obj), [a * b for a in fm for b in model]
    if k == 'children':
        return obj.children, [c for r in model for c in r.child_refs]
    if k == 'edges':
        return obj.edges, [c for r in model for c in r.edge_refs]
    raise ValueError(op)


def opname(op):
    if op[0] == 'take':
        return 'take-' + op[1]
    if op[0] == 'slice':
        return 'take-unsorted' if op[1][2] == -1 else 'slice'  # a reversed slice is documented to be take(arange(n-1,-1,-1))
    if op[0] in ('chain', 'product'):
        return op[0] + '-' + str(op[-1] if op[0] == 'product' else op[1])
    return op[0]


def observe(cls, obj, model, ndims):
    'returns None or (what-kind, description)'
    n = len(model)
    try:
        if len(obj) != n:
            return 'len', 'len = {} but the list model has {} items'.format(len(obj), n)
        if bool(obj) != bool(n):
            return 'bool', 'bool = {} for length {}'.format(bool(obj), n)
        if obj.ndims != ndims:
            return 'ndims', 'ndims = {} expected {}'.format(obj.ndims, ndims)
        it = list(obj)
        if len(it) != n or any(a != b for a, b in zip(it, model)):
            bad = [i for i, (a, b) in enumerate(zip(it, model)) if a != b]
            return 'iter', 'iter yields {} items; differs from the list model at positions {}: got {} expected {}'.format(len(it), bad[:6], [str(it[i]) for i in bad[:3]], [str(model[i]) for i in bad[:3]])
        for i in range(n):
            for j in (i, i - n):
                if obj.get(j) != model[i]:
                    return 'get', 'get({}) = {} but the list model says {}'.format(j, obj.get(j), model[i])
                if obj[j] != model[i]:
                    return 'getitem', '[{}] = {} but the list model says {}'.format(j, obj[j], model[i])
        for j in (n, -n - 1):
            try:
                got = obj.get(j)
            except IndexError:
                pass
            else:
                return 'get-oob', 'get({}) on length {} returned {} instead of raising IndexError'.format(j, n, got)
        if cls == 'References':
            if obj.isuniform and any(r != model[0] for r in model):
                return 'isuniform', 'isuniform is True but the items differ'
        else:
            np_ = sum(p.npoints for p in model)
            if obj.npoints != np_:
                return 'npoints', 'npoints = {} but the items have {} points'.format(obj.npoints, np_)
            if model and all(type(p).__name__ in ('TransformPoints', 'TensorPoints', 'SimplexBezierPoints', 'ConcatPoints') for p in model):
                try:
                    tris = [numpy.asarray(p.tri) for p in model]
                    hulls = [numpy.asarray(p.hull) for p in model]
                except Exception:
                    tris = None
                if tris is not None:
                    off = numpy.cumsum([0] + [p.npoints for p in model])
                    etri = numpy.concatenate([t + o for t, o in zip(tris, off)])
                    ehull = numpy.concatenate([t + o for t, o in zip(hulls, off)])
                    if numpy.asarray(obj.tri).tolist() != etri.tolist():
                        return 'tri', 'tri differs from the concatenation of the items\' triangulations'
                    if numpy.asarray(obj.hull).tolist() != ehull.tolist():
                        return 'hull', 'hull differs from the concatenation of the items\' hulls'
    except Exception as e:
        return 'raise:' + type(e).__name__, 'observation raised {!r}'.format(e)
    return None


def shards(tier):
    out = []
    for cls, bases in (('References', REF_BASES), ('PointsSequence', PTS_BASES)):
        for b in bases:
            out.append({'kind': 'cont', 'cls': cls, 'base': b})
    return out


def run(spec, tier, res):
    cls, base = spec['cls'], spec['base']
    obj, model = build(cls, base)
    seen = {}
    keep = []
    bad = observe(cls, obj, model, obj.ndims)
    res.count('evaluations')
    if bad:
        res.violation('cont:{}:base:{}:{}'.format(cls, type(obj).__name__, bad[0]), 'base {}: {}'.format(base, bad[1]), {'kind': 'cont', 'cls': cls, 'base': base, 'ops': []})
        return
    res.count('states')

    def explore(obj, model, ndims, ops, depth):
        for op in operations(cls, model, ndims, depth, tier):
            ops2 = ops + [op]
            w = {'kind': 'cont', 'cls': cls, 'base': base, 'ops': ops2}
            recv = type(obj).__name__
            try:
                r = apply_op(cls, obj, model, op)
            except Exception as e:
                res.violation('cont:{}:{}:{}:raise:{}'.format(cls, opname(op), recv, type(e).__name__), 'base {} ops {}: operation raised {!r}'.format(base, ops2, e), w)
                continue
            if r is None:
                continue
            obj2, model2 = r
            res.count('transitions')
            res.count('traces_validated_against_impl')
            nd2 = model2[0].ndims if model2 else obj2.ndims
            if op[0] == 'product':
                nd2 = ndims + 1
            elif op[0] == 'edges':
                nd2 = ndims - 1
            else:
                nd2 = ndims
            key = id(obj2)
            keep.append(obj2)
            if key in seen:
                if seen[key] != len(model2):
                    res.violation('cont:{}:{}:{}:confluence'.format(cls, opname(op), recv), 'base {} ops {}: same interned object for different contents'.format(base, ops2), w)
                continue
            seen[key] = len(model2)
            res.count('evaluations', 1 + len(model2))
            bad = observe(cls, obj2, model2, nd2)
            if bad:
                res.violation('cont:{}:{}:{}:{}'.format(cls, opname(op), recv, bad[0]), 'base {} ops {}: {}'.format(base, ops2, bad[1]), w)
                continue
            res.count('states')
            res.distinct('state_kinds', cls + ':' + type(obj2).__name__)
            res.maximum('max_container_length', len(model2))
            if model2:
                res.distinct('distinct_nontrivial', json.dumps([cls, base, ops2]))
            if len(res.samples) < 1 and depth == 1 and len(model2) > 2:
                res.sample({'part': 'cont', 'cls': cls, 'base': base, 'ops': ops2, 'len': len(model2), 'type': type(obj2).__name__})
            if depth + 1 < MAXDEPTH and len(model2) <= MAXLEN[tier]:
                explore(obj2, model2, nd2, ops2, depth + 1)

    explore(obj, model, obj.ndims, [], 0)


def replay(w):
    cls = w['cls']
    obj, model = build(cls, w['base'])
    ndims = obj.ndims
    bad = observe(cls, obj, model, ndims)
    if bad:
        return 'base: {}'.format(bad[1])
    for k, op in enumerate(w['ops']):
        recv = type(obj).__name__
        try:
            r = apply_op(cls, obj, model, op)
        except Exception as e:
            return 'cont:{}:{}:{}: operation {} raised {!r}'.format(cls, opname(op), recv, op, e)
        if r is None:
            return None
        obj, model = r
        if op[0] == 'product':
            ndims += 1
        elif op[0] == 'edges':
            ndims -= 1
        bad = observe(cls, obj, model, ndims)
        if bad:
            return 'cont:{}:{}:{}:{}: after {}: {}'.format(cls, opname(op), recv, bad[0], w['ops'][:k + 1], bad[1])
    return None
