'''C19: the fixed namespace, built twice: as nutils arrays (for the code under
test) and as reference jets (c19_ref.Val).  Everything is evaluated in the
single Gauss point of the one interface of a 2x1 rectilinear mesh.'''

import numpy
from . import c19_ref as R

P = (0.7, 0.6)                       # the evaluation point
XGRID = ([0., 0.7, 1.4], [0., 1.2])  # interface x0 = 0.7, its Gauss-1 point is x1 = 0.6
SIDE = (1., 1.6)                     # piecewise constant s: element 0 (evaluation side), element 1 (opposite)
JAC = 1.2                            # d:x on the interface (length of the edge / reference length)

SHAPES = {'a': (), 'c': (), 'u': (2,), 'v': (3,), 'w': (2,), 'A': (2, 2), 'B': (2, 3), 'T': (2, 2, 2)}
SPACEDEP = ('a', 'u', 'A', 'B', 'T')     # polynomial in x and discontinuous across the interface
CONSTANT = ('c', 'v', 'w')               # plain constants (usable as substitution values)
H = numpy.array([[1., -2., .5], [3., .25, -1.]])


def _coef(name, k, shape, lo, hi):
    n = int(numpy.prod(shape, dtype=int))
    nameid = sum(ord(ch) for ch in name)
    vals = [lo + (hi - lo) * (((i * 7 + k * 5 + nameid * 11 + 3) % 17) / 17.) for i in range(n)]
    return numpy.array(vals).reshape(shape)


def coefficients(name):
    sh = SHAPES[name]
    if name in CONSTANT:
        return [_coef(name, 0, sh, .5, 2.)]
    return [_coef(name, 0, sh, 1., 2.), _coef(name, 1, sh, -.3, .3), _coef(name, 2, sh, -.3, .3), _coef(name, 3, sh, -.3, .3),
            _coef(name, 4, sh, -.3, .3), _coef(name, 5, sh, .1, .5), _coef(name, 6, sh, -.2, .2)]


def _formula(cs, x0, x1, s, mul, add, lift):
    'C0 + (C1 + C3 x1 + C4 x0 + E0 s) x0, written once for both worlds (Horner form keeps the nutils graphs small)'
    C0, C1, C2, C3, C4, E0, E1 = cs
    inner = add(add(add(lift(C1), mul(lift(C3), x1)), mul(lift(C4), x0)), mul(lift(E0), s))
    return add(lift(C0), mul(inner, x0))


# ------------------------------------------------------------------ reference

def _rmul(a, b):
    if a.ndim and b.ndim == 0:
        return R.pointwise_mul(a, b)
    if b.ndim and a.ndim == 0:
        return R.pointwise_mul(b, a)
    return R.pointwise_mul(a, b)


_refcache = {}


def refvars():
    if 'vars' not in _refcache:
        x0 = R.coordinate(0, P)
        x1 = R.coordinate(1, P)
        s = R.sided(SIDE[0], SIDE[1])
        out = {}
        for name in SHAPES:
            cs = coefficients(name)
            if name in CONSTANT:
                out[name] = R.const(cs[0])
            else:
                out[name] = _formula(cs, x0, x1, s, _rmul, R.add, R.const)
        out['x'] = R.stack([x0, x1])
        _refcache['vars'] = out
    return _refcache['vars']


def ref_f(t):
    't^2 + t/2'
    return R.add(R.pointwise_mul(t, t), R.scale(t, .5))


def ref_g(t):
    'generates one axis of length 2: (2 t, t^2 + 1)'
    one = R.const(numpy.ones(t.shape))
    return R.stack_last([R.scale(t, 2.), R.add(R.pointwise_mul(t, t), one)])


def ref_h(t):
    'generates two axes (2,3): t H_kl'
    return R.outer(t, R.const(H))


# ------------------------------------------------------------------ nutils

def nutils_f(t):
    return t * t + t * .5


def nutils_g(t, generates=None):
    import numpy as np
    return np.stack([t * 2., t * t + 1.], axis=-1)


def nutils_h(t, generates=None):
    from nutils import function
    t = function.Array.cast(t)
    return t[(...,) + (None, None)] * H


def nutils_m(a, b):
    'the documented two-argument example: pointwise product with shape a.shape + b.shape'
    from nutils import function
    a = function.Array.cast(a)
    b = function.Array.cast(b)
    return a[(...,) + (None,) * b.ndim] * b[(None,) * a.ndim]


_nscache = {}


def world():
    'mesh, geometry, sample and the nutils arrays of the variables (shared by both namespaces)'
    if 'world' not in _nscache:
        from nutils import mesh, function
        # integer-shaped rectilinear meshes have a basis-free geometry (much cheaper to lower); scale it to XGRID
        topo, x0 = mesh.rectilinear([2, 1])
        x = x0 * numpy.array([XGRID[0][1], XGRID[1][1]])
        smp = topo.interfaces.sample('gauss', 1)
        s = function.get(numpy.array(SIDE), 0, topo.f_index)   # piecewise constant (cheaper to lower than a discontinuous basis)
        arrays = {}
        for name in SHAPES:
            cs = coefficients(name)
            if name in CONSTANT:
                arrays[name] = function.Array.cast(cs[0])
            else:
                arrays[name] = _formula(cs, x[0], x[1], s, lambda a, b: a * b, lambda a, b: a + b, lambda c: c)
        # conventions the reference relies on (function module only, not the expression modules)
        pts = smp.eval(x)
        nrm = smp.eval(function.normal(x))
        sv = smp.eval(s)
        so = smp.eval(function.opposite(s))
        jac = smp.eval(function.J(x))
        from . import core
        if pts.shape != (1, 2) or not numpy.allclose(pts[0], P) or not numpy.allclose(nrm[0], [1., 0.]) or not numpy.allclose(sv, SIDE[0]) \
                or not numpy.allclose(so, SIDE[1]) or not numpy.allclose(jac, JAC):
            raise core.HarnessError('mesh conventions differ from the reference model: pts={} n={} s={} opp={} J={}'.format(pts, nrm, sv, so, jac))
        _nscache['world'] = topo, x, smp, arrays
    return _nscache['world']


def namespace(version):
    'a fresh namespace of the given expression version'
    topo, x, smp, arrays = world()
    if version == 2:
        from nutils import expression_v2
        ns = expression_v2.Namespace()
        ns.x = x
        for name, arr in arrays.items():
            setattr(ns, name, arr)
        ns.f = nutils_f
        ns.g = nutils_g
        ns.h = nutils_h
        ns.define_for('x', gradient='D', normal='n')
    else:
        from nutils import expression_v1
        ns = expression_v1.Namespace(functions=dict(f=nutils_f, g=nutils_g, h=nutils_h, m=nutils_m))
        ns.x = x
        for name, arr in arrays.items():
            setattr(ns, name, arr)
    return ns


def sample():
    return world()[2]


def flat_namespace(version):
    '''the same namespace with every variable replaced by its (constant) value in the
    evaluation point; for strings without gradient, jump, mean, normal, geometry'''
    V = refvars()
    if version == 2:
        from nutils import expression_v2
        ns = expression_v2.Namespace()
        for name in SHAPES:
            setattr(ns, name, V[name].c[0, ..., 0].copy())
        ns.f = nutils_f
        ns.g = nutils_g
        ns.h = nutils_h
    else:
        from nutils import expression_v1
        ns = expression_v1.Namespace(functions=dict(f=nutils_f, g=nutils_g, h=nutils_h, m=nutils_m))
        for name in SHAPES:
            setattr(ns, name, V[name].c[0, ..., 0].copy())
    return ns
