'''C12: construction of topologies/bases from JSON specs and the oracles.

A *case* is a JSON object
  {'topo': <topology spec>, 'btype': str, 'kw': {basis keyword arguments},
   'derive': None | {'kind': 'mask', 'form': 'bool'|'int'|'slice', 'idx': [...]}
                  | {'kind': 'partition', 'parts': [...]}}
Everything (topology, basis, samples) is rebuilt from the spec, so a case is
its own witness.
'''

import itertools, math
import numpy
from . import c12_ref as ref

TOL = 1e-9
NZ = 1e-6


class T:
    'a built topology with what the oracles need to know about it'
    pass


# ------------------------------------------------------------------ topologies

LEVELSETS = {
    # name -> (ndims, function of the geometry), all chosen such that cuts stay away from vertices/element boundaries
    'x<': lambda g, c: c - g[0],
    'x>': lambda g, c: g[0] - c,
    'sum<': lambda g, c: c - g[0] - g[1],
    'circ': lambda g, c: c**2 - ((g[0])**2 + (g[1])**2),
    'diff>': lambda g, c: g[0] - .5 * g[1] - c,
}


def build_topo(spec):
    from nutils import mesh, function
    t = T()
    t.spec = spec
    kind = spec['k']
    t.kind = kind
    t.struct = None          # (shape, periodic dims) if the topology is a plain structured grid
    t.scale = 1
    t.patchsize = None
    t.hierpatch = False
    t.boundary = False
    if kind == 'rect':
        shape = list(spec['shape'])
        per = list(spec.get('periodic', []))
        topo, geom = mesh.rectilinear(shape, periodic=per, space=spec.get('space', 'X'))
        t.struct = (shape, per)
    elif kind == 'unitsquare':
        topo, geom = mesh.unitsquare(spec['n'], spec['etype'])
    elif kind == 'multipatch':
        if spec['patches'] == 2:
            patches, verts = [[0, 1, 2, 3], [2, 3, 4, 5]], [[0, 0], [0, 1], [1, 0], [1, 1], [2, 0], [2, 1]]
        elif spec['patches'] == 3:   # L-shape, the reentrant corner vertex is shared by three patches
            patches = [[0, 1, 3, 4], [1, 2, 4, 5], [3, 4, 6, 7]]
            verts = [[0, 0], [0, 1], [0, 2], [1, 0], [1, 1], [1, 2], [2, 0], [2, 1]]
        else:
            raise ValueError(spec)
        topo, geom = mesh.multipatch(patches=patches, patchverts=verts, nelems=spec['nelems'])
        t.patchsize = spec['nelems']**2
        t.npatches = spec['patches']
    else:
        raise ValueError('unknown topology kind {!r}'.format(kind))
    for _ in range(spec.get('refine', 0)):
        topo = topo.refined
        t.scale *= 2
        if t.struct:
            t.struct = ([2 * n for n in t.struct[0]], t.struct[1])
        if t.patchsize:
            t.patchsize *= 4
    if spec.get('trim'):
        tr = spec['trim']
        topo = topo.trim(LEVELSETS[tr['ls']](geom, tr['c']), maxrefine=tr['maxrefine'])
        t.struct = None
        t.kind += '-trim'
    hier = spec.get('hier')
    if hier:
        for S in hier:
            topo = topo.refined_by(list(S))
        t.struct = None
        t.kind += '-hier'
        t.hierpatch = bool(t.patchsize)
        t.patchsize = None     # element numbers no longer identify the patch
    if spec.get('boundary'):
        topo = topo.boundary[spec['boundary']]
        t.struct = None
        t.boundary = True
        t.kind += '-bnd'
    t.topo = topo
    t.geom = geom
    t.ndims = topo.ndims
    return t


# ------------------------------------------------------------------ bases and what they promise

C0TYPES = ('std', 'bernstein', 'lagrange', 'bubble', 'h-std', 'th-std')
POU = ('std', 'bernstein', 'lagrange', 'spline', 'discont', 'th-std', 'th-spline')


def _tup(v, nd):
    if isinstance(v, (list, tuple)):
        return list(v)
    return [v] * nd


def nutils_kwargs(case, t):
    'JSON kwargs -> what is passed to topo.basis'
    kw = {}
    for k, v in case['kw'].items():
        if k == 'knotmultiplicities' and isinstance(v, dict):   # multipatch: {'*': [...]} -> {None: (...)}
            kw[k] = {None if kk == '*' else tuple(int(x) for x in kk.split('-')): tuple(vv) for kk, vv in v.items()}
        elif k == 'knotvalues' and isinstance(v, dict):
            kw[k] = {None if kk == '*' else tuple(int(x) for x in kk.split('-')): tuple(vv) for kk, vv in v.items()}
        elif k == 'degree' and isinstance(v, list):
            kw[k] = tuple(v)
        elif k == 'continuity' and isinstance(v, list):
            kw[k] = tuple(v)
        elif k == 'periodic':
            kw[k] = tuple(v)
        else:
            kw[k] = v
    return kw


def build_basis(case, t):
    parent = t.topo.basis(case['btype'], **nutils_kwargs(case, t))
    return derive_basis(parent, case.get('derive')), parent


def spline_dims(case, t):
    'per direction interpretation of the spline arguments on a plain structured grid (reference semantics), or None'
    if t.struct is None or case['btype'] not in ('spline', 'std'):
        return None
    shape, tper = t.struct
    nd = len(shape)
    kw = case['kw']
    degree = _tup(kw['degree'], nd)
    cont = _tup(kw.get('continuity', -1), nd) if case['btype'] == 'spline' else [0] * nd
    per = kw.get('periodic')
    if per is None:
        per = tper
    km = kw.get('knotmultiplicities')
    if km is None or isinstance(km[0], int):
        km = [km] * nd
    kv = kw.get('knotvalues')
    if kv is None or isinstance(kv[0], (int, float)):
        kv = [kv] * nd
    rd = kw.get('removedofs')
    if rd is None or isinstance(rd[0], int):
        rd = [rd] * nd
    dims = []
    for i in range(nd):
        dim = ref.spline_dim(degree[i], shape[i], km[i], cont[i], i in per)
        dim['kv'] = ref.knotvalues_full(kv[i], shape[i])
        dim['remove'] = sorted({r % dim['nd'] for r in rd[i]}) if rd[i] else []
        dims.append(dim)
    return dims


def _removes(kw):
    rd = kw.get('removedofs')
    if not rd:
        return False
    return any((r is not None and (isinstance(r, int) or len(r) > 0)) for r in rd)


def promises(case, t, dims):
    '''what the type of the basis promises; all derived from the spec, not from the object'''
    bt = case['btype']
    kw = case['kw']
    nd = t.ndims
    p = {}
    if bt == 'bubble':
        degs = [1] * nd
        p['polydeg'] = nd + 1
    else:
        degs = _tup(kw['degree'], nd)
        p['polydeg'] = max(max(degs), 1)
    p['degs'] = degs
    derive = case.get('derive')
    complete = (not derive or derive['kind'] == 'partition') and not _removes(kw)
    p['pou'] = bt in POU and complete
    # continuity: one value for all interfaces, unless dims gives it per knot
    if bt in C0TYPES:
        c = 0
    elif bt in ('discont', 'legendre'):
        c = -1
    elif bt in ('spline', 'h-spline', 'th-spline'):
        cc = kw.get('continuity', -1)
        c = None
        if not isinstance(cc, list) and len(set(degs)) == 1:
            c = cc if cc >= 0 else cc + degs[0]
    else:
        c = None
    if derive and derive['kind'] == 'partition':
        c = None
    if t.hierpatch and c is not None:
        c = min(c, 0 if kw.get('patchcontinuous', True) else -1)    # interfaces inside and between patches are not told apart
    p['continuity'] = c
    p['patchcontinuity'] = None
    graded_patch = False
    if t.patchsize:
        p['patchcontinuity'] = 0 if kw.get('patchcontinuous', True) else -1
        km = kw.get('knotmultiplicities')
        if km and bt == 'spline':
            # inside a patch the continuity at a knot is degree - multiplicity; the weakest knot bounds all of them
            p['continuity'] = degs[0] - max(km['*'][1:-1]) if len(km['*']) > 2 else degs[0] - 1
        if bt == 'std':
            p['continuity'] = 0
        kv = kw.get('knotvalues')
        if kv and not numpy.allclose(numpy.diff(kv['*']), numpy.diff(kv['*'])[0]):
            # the patch geometry is uniform in the parameter, so smoothness beyond C^0 and polynomial reproduction
            # hold in knot-value coordinates only, which the multipatch geometry does not provide
            graded_patch = True
            if p['continuity'] is not None:
                p['continuity'] = min(p['continuity'], 0)
    # clipping to parts keeps independence only if the parent is locally linearly independent; hierarchical bases are not
    p['independent'] = not (derive and derive['kind'] == 'partition' and bt.startswith(('h-', 'th-')))
    periodic = bool(t.spec.get('periodic')) if kw.get('periodic') is None else bool(kw.get('periodic'))
    p['periodic'] = periodic
    p['polyspace'] = complete and not periodic and not t.boundary and not graded_patch
    p['trimmed'] = 'trim' in t.kind
    return p


# ------------------------------------------------------------------ oracles

SOFT = ('dofs-union-single', 'support-union-single', 'phantom-dof')   # failures that do not invalidate the remaining oracles


class Failures(list):
    def add(self, oracle, what):
        if not any(o == oracle for o, w in self):
            self.append((oracle, what))


def _relerr(a, b):
    return float(abs(a - b).max()) if a.size else 0.


def _amax(a):
    a = numpy.asarray(a)
    return float(abs(a).max()) if a.size else 0.


def elementwise(t, basis, vals, idx, coords, fails, stats, label=''):
    '''per element: shapes, dof ranges, values == polynomials from get_coefficients at the local points,
    non-zero pattern inside get_dofs; returns element->dofs list'''
    nelems = len(t.topo)
    ndofs = len(basis)
    nd = coords.shape[1]
    elemdofs = []
    elemcoeffs = []
    for i in range(nelems):
        dofs = numpy.asarray(basis.get_dofs(i))
        coeffs = numpy.asarray(basis.get_coefficients(i))
        elemdofs.append(dofs)
        elemcoeffs.append(coeffs)
        if dofs.ndim != 1 or dofs.dtype.kind not in 'iu':
            fails.add(label + 'dofs-shape', 'get_dofs({}) = {!r}'.format(i, dofs))
            continue
        if coeffs.ndim != 2 or coeffs.shape[0] != len(dofs):
            fails.add(label + 'coeffs-shape', 'element {}: {} dofs but coefficient table of shape {}'.format(i, len(dofs), coeffs.shape))
            continue
        if len(dofs) and (dofs.min() < 0 or dofs.max() >= ndofs):
            fails.add(label + 'dofs-range', 'get_dofs({}) = {} outside [0,{})'.format(i, dofs.tolist(), ndofs))
            continue
        if ref.degree_from_ncoeffs(nd, coeffs.shape[1]) is None:
            fails.add(label + 'coeffs-shape', 'element {}: {} coefficients is not a polynomial in {} variables'.format(i, coeffs.shape[1], nd))
            continue
        n = basis.get_ndofs(i)
        if n != len(dofs):
            fails.add(label + 'ndofs', 'get_ndofs({}) = {} but get_dofs has length {}'.format(i, n, len(dofs)))
        sel = idx == i
        stats['points'] = stats.get('points', 0) + int(sel.sum())
        if not sel.any():
            fails.add(label + 'harness-nopoints', 'no sample points in element {}'.format(i))
            continue
        expect = numpy.zeros((int(sel.sum()), ndofs))
        pv = ref.polyval(coeffs, coords[sel])
        for j, d in enumerate(dofs):
            expect[:, d] += pv[:, j]
        got = vals[sel]
        outside = numpy.ones(ndofs, dtype=bool)
        outside[dofs] = False
        if outside.any() and abs(got[:, outside]).max() > TOL:
            d = int(numpy.nonzero(outside)[0][abs(got[:, outside]).max(axis=0).argmax()])
            fails.add(label + 'nonzero-outside-dofs', 'element {}: function {} evaluates to {:.3e} but is not in get_dofs = {}'.format(i, d, float(abs(got[:, d]).max()), dofs.tolist()))
        scale = max(1., _amax(expect))
        if _relerr(got, expect) > TOL * scale:
            d = int(abs(got - expect).max(axis=0).argmax())
            fails.add(label + 'values', 'element {}: function {} evaluates to {} but its coefficients give {}'.format(i, d, got[:, d][:3].tolist(), expect[:, d][:3].tolist()))
        # every listed dof is a function that is non-zero there
        for j, d in enumerate(dofs):
            if not (abs(expect[:, d]) > 1e-13).any() and (dofs == d).sum() == 1:
                stats['listed-zero'] = stats.get('listed-zero', 0) + 1
    return elemdofs, elemcoeffs


def supports(t, basis, elemdofs, fails, label=''):
    'get_support and get_dofs are mutual inverses, int, index-array and mask spellings'
    nelems = len(t.topo)
    ndofs = len(basis)
    inv = [[] for _ in range(ndofs)]
    for i, dofs in enumerate(elemdofs):
        for d in sorted(set(int(x) for x in dofs if 0 <= x < ndofs)):
            inv[d].append(i)
    for d in range(ndofs):
        try:
            s = numpy.asarray(basis.get_support(d))
        except Exception as e:
            fails.add(label + 'support-raise', 'get_support({}) raised {!r}'.format(d, e))
            return
        if s.tolist() != inv[d]:
            fails.add(label + 'support-inverse', 'get_support({}) = {} but the elements listing dof {} are {}'.format(d, s.tolist(), d, inv[d]))
            return
    # vector forms: unions, sorted and unique
    sets = []
    if ndofs:
        sets.append(list(range(ndofs)))
        sets.append(list(range(0, ndofs, 2)))
        sets.append([ndofs - 1])
    for S in sets:
        want = sorted(set(i for d in S for i in inv[d]))
        for spelling in ('int', 'mask'):
            arg = numpy.array(S, dtype=int) if spelling == 'int' else numpy.isin(numpy.arange(ndofs), S)
            try:
                s = numpy.asarray(basis.get_support(arg)).tolist()
            except Exception as e:
                fails.add(label + 'support-raise', 'get_support({}) raised {!r}'.format(arg.tolist(), e))
                return
            if s != want:
                fails.add(label + ('support-union-single' if len(S) == 1 else 'support-union'), 'get_support({}) = {} but the documented sorted unique union is {}'.format(arg.tolist(), s, want))
                if len(S) != 1:
                    return
    esets = [list(range(nelems)), list(range(0, nelems, 2)), [nelems - 1]]
    for S in esets:
        want = sorted(set(int(d) for i in S for d in elemdofs[i]))
        for spelling in ('int', 'mask'):
            arg = numpy.array(S, dtype=int) if spelling == 'int' else numpy.isin(numpy.arange(nelems), S)
            try:
                s = numpy.asarray(basis.get_dofs(arg)).tolist()
            except Exception as e:
                fails.add(label + 'dofs-raise', 'get_dofs({}) raised {!r}'.format(arg.tolist(), e))
                return
            if s != want:
                # a selection of exactly one element takes a different path through function._int_or_vec (reduce over one item)
                fails.add(label + ('dofs-union-single' if len(S) == 1 else 'dofs-union'), 'get_dofs({}) = {} but the documented sorted unique union is {}'.format(arg.tolist(), s, want))
                if len(S) != 1:
                    return


def physical(t, dims, g):
    'index coordinates g (npoints, nd) -> coordinates in which the spline is smooth (graded knot values)'
    if dims is None:
        return g
    x = numpy.empty_like(g)
    for d, dim in enumerate(dims):
        kv = dim['kv']
        i = numpy.clip(numpy.floor(g[:, d]).astype(int), 0, dim['n'] - 1)
        x[:, d] = kv[i] + (g[:, d] - i) * (kv[i + 1] - kv[i])
    return x


def jacobians(ctx, x):
    'per element the inverse jacobian of local -> physical coordinates, fitted to the sample (elements are affine)'
    out = {}
    for i in range(len(ctx.t.topo)):
        sel = ctx.idx == i
        J, r = ref.affine_fit(ctx.coords[sel], x[sel])
        if J.shape[0] != J.shape[1] or r > 1e-10 * max(1., float(abs(x[sel]).max())) or abs(numpy.linalg.det(J)) < 1e-12:
            return None
        out[i] = numpy.linalg.inv(J)
    return out


def continuity(ctx, basis, elemdofs, elemcoeffs, prom, dims, fails, stats, x, nutils_derivs=False):
    '''jump of the k-th derivative is zero on every interface for k <= advertised continuity and non-zero
    on at least one interface (per knot on structured grids) for k+1.

    The one-sided values on the interfaces are evaluated by nutils (basis, opposite(basis), jump(basis)) and must
    equal the coefficient polynomials of the two neighbouring elements; derivatives are those of the coefficient
    tables (numpy), mapped to physical coordinates with the affine element maps.  With nutils_derivs the jumps
    of function.grad(...) are evaluated as well and must agree.'''
    from nutils import function
    t = ctx.t
    topo = t.topo
    try:
        ifc = topo.interfaces
        nifc = len(ifc)
    except Exception as e:
        stats['no-interfaces:' + type(e).__name__] = 1
        return
    if nifc == 0:
        return
    nd = t.ndims
    ndofs = len(basis)
    degs = prom['degs']
    if dims is not None:
        kmax = max(max(dim['cont']) for dim in dims)
    elif prom['continuity'] is None and prom['patchcontinuity'] is None:
        return
    else:
        kmax = max(c for c in (prom['continuity'], prom['patchcontinuity']) if c is not None)
    K = max(0, min(kmax + 1, max(degs)))
    Jinv = None if t.boundary else jacobians(ctx, x)
    if Jinv is None:
        K = 0
        stats['derivatives-skipped'] = 1
    geom = t.geom * t.scale if t.struct is not None else t.geom
    funcs = [geom, function.normal(geom) if not t.boundary else geom, topo.f_index, function.opposite(topo.f_index),
             topo.f_coords, function.opposite(topo.f_coords), basis, function.opposite(basis), function.jump(basis)]
    if nutils_derivs and dims is not None and K and all(numpy.allclose(numpy.diff(dim['kv']), 1) for dim in dims):
        g = basis
        for k in range(1, K + 1):
            g = function.grad(g, geom)
            funcs.append(function.jump(g))
    ism = ifc.sample('gauss', 1 if nd == 1 else 3)
    out = ism.eval(funcs)
    pos, normal, e1, e2, xi1, xi2, v1, v2, jmp = out[:9]
    njumps = out[9:]
    npts = len(pos)
    stats['interface-points'] = stats.get('interface-points', 0) + npts
    if _relerr(jmp, v2 - v1) > TOL:
        fails.add('jump-inconsistent', 'jump(basis) != opposite(basis) - basis on the interfaces')
    # one-sided derivative tensors from the coefficient tables
    sides = [[numpy.zeros((npts, ndofs) + (nd,) * k) for k in range(K + 1)] for side in (0, 1)]
    for side, (el, xi) in enumerate(((e1, xi1), (e2, xi2))):
        for i in sorted(set(el.tolist())):
            sel = numpy.nonzero(el == i)[0]
            for k in range(K + 1):
                D = ref.poly_derivative_tensor(elemcoeffs[i], xi[sel], k)
                if k:
                    D = ref.to_physical(D, Jinv[i], k)
                tmp = numpy.zeros((len(sel), ndofs) + (nd,) * k)
                for j, d in enumerate(elemdofs[i]):
                    tmp[:, d] += D[:, j]
                sides[side][k][sel] = tmp
    for side, v in enumerate((v1, v2)):
        if _relerr(v, sides[side][0]) > TOL * max(1., _amax(v)):
            j = numpy.unravel_index(abs(v - sides[side][0]).argmax(), v.shape)
            fails.add('interface-values', '{} on the interface at {} evaluates function {} to {!r} but the coefficients of element {} give {!r}'.format(
                ('basis', 'opposite(basis)')[side], pos[j[0]].tolist(), int(j[1]), float(v[j]), int((e1, e2)[side][j[0]]), float(sides[side][0][j])))
            return
    for k, nj in enumerate(njumps, start=1):
        mine = sides[1][k] - sides[0][k]
        if _relerr(nj, mine) > TOL * 100 * max(1., float(abs(sides[0][k]).max())):
            fails.add('derivative-jump-inconsistent', 'jump(grad^{} basis) evaluates to {:.6e} where the coefficient tables give {:.6e}'.format(k, _amax(nj), _amax(mine)))
            return
        stats['nutils-derivative-jumps'] = stats.get('nutils-derivative-jumps', 0) + 1
    # classify interface points
    groups = {}   # group key -> [advertised continuity, point indices, degree bound for the non-vacuity test]
    if dims is not None:
        dirs = abs(normal).argmax(axis=1)
        for ipt in range(npts):
            d = int(dirs[ipt])
            dim = dims[d]
            knot = int(round(pos[ipt, d]))
            if abs(pos[ipt, d] - knot) > 1e-9:
                fails.add('harness-interface-position', 'interface point {} is not on a knot'.format(pos[ipt].tolist()))
                return
            knot = knot % dim['n'] if dim['periodic'] else knot
            # non-vacuity is a theorem only where the knot belongs to the basis: not for a single wrapped function, and not
            # on the seam of a periodic topology carrying a non-periodic basis
            nonvac = dim['nd'] >= 2 if dim['periodic'] else 0 < knot < dim['n']
            groups.setdefault((d, knot), [dim['cont'][knot], [], dim['p'] if nonvac else -1])[1].append(ipt)
    elif t.patchsize:
        for ipt in range(npts):
            same = e1[ipt] // t.patchsize == e2[ipt] // t.patchsize
            c = prom['continuity'] if same else prom['patchcontinuity']
            if c is None:
                continue
            groups.setdefault('inner' if same else 'patch', [c, [], min(degs)])[1].append(ipt)
    else:
        groups['all'] = [prom['continuity'], list(range(npts)), min(degs)]
    for key, (c, pts, pdeg) in groups.items():
        pts = numpy.array(pts)
        for k in range(0, min(c, K) + 1):
            a, b = sides[0][k][pts], sides[1][k][pts]
            scale = max(1., _amax(a), _amax(b))
            if float(abs(a - b).max()) > TOL * scale * 10:
                j = numpy.unravel_index(abs(a - b).argmax(), a.shape)
                fails.add('continuity', 'interface group {}: jump of derivative {} of function {} is {:.3e} at {} (advertised C^{})'.format(
                    key, k, int(j[1]), float(abs(a - b).max()), pos[pts[j[0]]].tolist(), c))
                break
        else:
            stats['continuity-groups'] = stats.get('continuity-groups', 0) + 1
            k = c + 1
            real = pts[e1[pts] != e2[pts]]    # an element that is its own neighbour (one periodic element) proves nothing
            if k <= min(pdeg, K) and (dims is not None or len(real)):
                if dims is None:
                    pts = real
                a, b = sides[0][k][pts], sides[1][k][pts]
                if float(abs(a - b).max()) <= NZ:
                    fails.add('smoother-than-advertised', 'interface group {}: derivative {} of every function is continuous, advertised is exactly C^{}'.format(key, k, c))
                else:
                    stats['nonvacuous-groups'] = stats.get('nonvacuous-groups', 0) + 1


def monomials(x, degs, simplexlike):
    'a few polynomials of the degree the basis advertises, sampled at x'
    cols = [numpy.ones(len(x))]
    for d in range(x.shape[1]):
        if degs[d]:
            cols.append(x[:, d]**degs[d])
    if x.shape[1] > 1:
        if simplexlike:
            cols.append(x.sum(axis=1)**min(degs))
        else:
            cols.append(numpy.prod([x[:, d]**degs[d] for d in range(x.shape[1])], axis=0))
    return numpy.stack(cols, axis=1)


class Ctx:
    'a built topology with its sample, shared by all bases derived from one parent'

    def __init__(self, case):
        self.base = {k: v for k, v in case.items() if k != 'derive'}
        self.t = build_topo(case['topo'])
        self.dims = spline_dims(case, self.t)
        self.parent = None
        self.parent_error = None
        try:
            self.parent, _ = build_basis(self.base, self.t)
        except Exception as e:
            self.parent_error = e
        self._smp = None
        self._pvals = None

    def sample(self, polydeg):
        if self._smp is None:
            t = self.t
            geom = t.geom * t.scale if t.struct is not None else t.geom
            self._smp = t.topo.sample('gauss', 2 * polydeg)
            self.idx, self.coords, self.g = self._smp.eval([t.topo.f_index, t.topo.f_coords, geom])
        return self._smp

    @property
    def pvals(self):
        if self._pvals is None:
            self._pvals = self._smp.eval(self.parent)
        return self._pvals


def derive_basis(parent, d):
    if not d:
        return parent
    if d['kind'] == 'mask':
        idx = list(d['idx'])
        if d['form'] == 'bool':
            m = numpy.zeros(len(parent), dtype=bool)
            m[idx] = True
            return parent[m]
        if d['form'] == 'int':
            return parent[numpy.array(idx, dtype=int)]
        if d['form'] == 'slice':
            return parent[slice(*d['slice'])]
    if d['kind'] == 'partition':
        return parent.discontinuous_at_partition_interfaces(list(d['parts']))
    raise ValueError(d)


def check_case(case, stats=None, ctx=None):
    '''run every oracle on one case; returns a list of (oracle, description) of the promises that are broken'''
    if case['topo']['k'] == 'prod':
        return check_product(case, stats)
    from nutils import function
    stats = {} if stats is None else stats
    fails = Failures()
    if ctx is None:
        ctx = Ctx(case)
    t = ctx.t
    d = case.get('derive')
    if ctx.parent_error is not None:
        e = ctx.parent_error
        fails.add('construct-raise', 'constructing the basis raised {}: {}'.format(type(e).__name__, str(e)[:200]))
        return fails
    parent = ctx.parent
    try:
        basis = derive_basis(parent, d)
    except Exception as e:
        fails.add('derive-raise', 'deriving {} raised {}: {}'.format(d, type(e).__name__, str(e)[:200]))
        return fails
    if not isinstance(basis, function.Basis):
        fails.add('not-a-basis', 'basis() returned {}'.format(type(basis).__name__))
        return fails
    dims = ctx.dims
    prom = promises(case, t, dims)
    ndofs = len(basis)
    nelems = len(t.topo)
    stats['ndofs'] = ndofs
    stats['nelems'] = nelems
    stats['class'] = type(basis).__name__
    if basis.ndofs != ndofs or basis.nelems != nelems:
        fails.add('sizes', 'basis.ndofs={} len={} basis.nelems={} len(topo)={}'.format(basis.ndofs, ndofs, basis.nelems, nelems))
        return fails
    smp = ctx.sample(prom['polydeg'])
    idx, coords, g = ctx.idx, ctx.coords, ctx.g
    try:
        vals, ssum = smp.eval([basis, basis.sum(0)])
    except Exception as e:
        fails.add('eval-raise', 'evaluating the basis raised {}: {}'.format(type(e).__name__, str(e)[:200]))
        return fails
    if not d:
        ctx._pvals = vals
    elemdofs, elemcoeffs = elementwise(t, basis, vals, idx, coords, fails, stats)
    if fails:
        return fails
    listed = set(int(x) for dofs in elemdofs for x in dofs)
    phantom = [j for j in range(ndofs) if j not in listed]
    if phantom:
        # a function that no element lists is identically zero: the basis over-counts its functions.  Rank deficiency and
        # a get_support that disagrees are consequences, not separate findings
        fails.add('phantom-dof', '{} of the {} functions are listed by no element (identically zero): {}'.format(len(phantom), ndofs, phantom[:8]))
    else:
        supports(t, basis, elemdofs, fails)
    if _relerr(ssum, vals.sum(axis=1)) > TOL * max(1., _amax(vals)):
        fails.add('sum-inconsistent', 'eval(basis.sum(0)) differs from eval(basis).sum(1) by {:.3e}'.format(_relerr(ssum, vals.sum(axis=1))))
    if prom['pou']:
        stats['pou'] = 1
        if _relerr(ssum, numpy.ones_like(ssum)) > TOL:
            k = int(abs(ssum - 1).argmax())
            fails.add('partition-of-unity', 'sum of the basis is {!r} at element {} local point {}'.format(float(ssum[k]), int(idx[k]), coords[k].tolist()))
    d = case.get('derive')
    if d:
        # derived bases are defined relative to their parent
        pvals = ctx.pvals
        if d['kind'] == 'mask':
            sel = numpy.array(d['idx'], dtype=int) if d['form'] != 'slice' else numpy.arange(len(parent))[slice(*d['slice'])]
            if vals.shape[1] != len(sel) or _relerr(vals, pvals[:, sel]) > TOL:
                fails.add('mask-selection', 'basis[{}] does not evaluate to the selected functions of its parent'.format(sel.tolist()))
        elif d['kind'] == 'partition':
            parts = numpy.array(d['parts'])
            # every function lives in one part, and per part the functions are exactly the non-zero restrictions of the parent's
            pieces = []
            for part in sorted(set(parts.tolist())):
                inpart = numpy.isin(idx, numpy.nonzero(parts == part)[0])
                for j in range(pvals.shape[1]):
                    col = numpy.where(inpart, pvals[:, j], 0.)
                    if abs(col).max() > 1e-13:
                        pieces.append(col)
            want = numpy.stack(pieces, axis=1) if pieces else numpy.zeros((len(idx), 0))
            if vals.shape != want.shape or _relerr(vals, want) > TOL:
                fails.add('partition-restriction', 'the partitioned basis is not the stack per part of the clipped parent functions ({} vs {} functions)'.format(vals.shape[1], want.shape[1]))
    if prom['independent'] and not phantom:
        A = vals
        if prom['trimmed']:
            # a sliver of a cut element makes the restricted functions numerically dependent although they are not; judge
            # independence on whole elements instead, from the (already verified) coefficient tables
            pts = ref.element_points(t.ndims, t.ndims * prom['polydeg'])
            A = numpy.zeros((nelems * len(pts), ndofs))
            for i in range(nelems):
                pv = ref.polyval(elemcoeffs[i], pts)
                for j, dof in enumerate(elemdofs[i]):
                    A[i * len(pts):(i + 1) * len(pts), dof] += pv[:, j]
        r = ref.rank(A)
        if r != ndofs:
            fails.add('linear-dependence', 'collocation matrix on {} points has rank {} for {} functions'.format(len(A), r, ndofs))
    x = physical(t, dims, g)
    if prom['polyspace'] and ndofs:
        simplexlike = t.kind.startswith('unitsquare') and t.spec.get('etype') != 'square' or case['btype'] == 'bubble'
        F = monomials(x, prom['degs'], simplexlike)
        res = ref.in_span(vals, F)
        if res > 1e-8:
            fails.add('polynomial-space', 'polynomials of the advertised degree {} are not in the span (residual {:.3e})'.format(prom['degs'], res))
    if dims is not None and not d:
        mats = []
        for k, dim in enumerate(dims):
            mats.append(ref.bspline_values(dim, dim['kv'], x[:, k]))
        R = ref.tensor_columns(mats)
        keep = numpy.ones([dim['nd'] for dim in dims], dtype=bool)
        for k, dim in enumerate(dims):
            sl = [slice(None)] * len(dims)
            sl[k] = dim['remove']
            keep[tuple(sl)] = False
        ordered = not any(dim['periodic'] for dim in dims)
        if any(dim['periodic'] and dim['remove'] for dim in dims):
            pass   # which periodic function is "dof 0" is a numbering convention
        else:
            R = R[:, keep.ravel()]
            stats['spline-reference'] = 1
            if R.shape != vals.shape:
                fails.add('spline-space', 'expected {} functions, basis has {}'.format(R.shape[1], vals.shape[1]))
            elif ordered:
                if _relerr(R, vals) > TOL:
                    j = int(abs(R - vals).max(axis=0).argmax())
                    fails.add('spline-space', 'function {} is not B-spline {} of the knot vector (max difference {:.3e})'.format(j, j, _relerr(R, vals)))
            else:
                m = ref.match_columns(vals, R, TOL)
                if m:
                    fails.add('spline-space', 'not the periodic B-splines of the knot vector: ' + m)
    skipc = d or (_removes(case['kw']) and case['kw'].get('knotmultiplicities') is not None)
    if not skipc and not any(o not in SOFT for o, w in fails):
        simple = set(case['kw']) <= {'degree', 'continuity'} and t.kind == 'rect' and (t.ndims == 1 or max(prom['degs']) <= 1)
        continuity(ctx, basis, elemdofs, elemcoeffs, prom, dims, fails, stats, x, nutils_derivs=simple)
    return fails


# ------------------------------------------------------------------ tensor products

def _split_kw(kw, nda, ndb):
    'what the documented splitting of basis arguments over the factors of a product topology amounts to'
    ka, kb = {}, {}
    for k, v in kw.items():
        if k in ('degree', 'continuity') and isinstance(v, list):
            ka[k], kb[k] = v[:nda], v[nda:]
            if len(ka[k]) == 1 and nda == 1:
                ka[k] = ka[k][0]
            if len(kb[k]) == 1 and ndb == 1:
                kb[k] = kb[k][0]
        else:
            ka[k] = kb[k] = v
    return ka, kb


def check_product(case, stats=None):
    '''basis on a product topology A*B: an array (not a Basis object) that must equal the outer
    product of the factor bases, whose dof lists and coefficient tables are the reference'''
    from nutils import function
    stats = {} if stats is None else stats
    fails = Failures()
    spec = case['topo']
    ta = build_topo(spec['a'])
    tb = build_topo(dict(spec['b'], space='Y'))
    topo = ta.topo * tb.topo
    kw = case['kw']
    ka, kb = _split_kw(kw, ta.ndims, tb.ndims)
    try:
        basis = topo.basis(case['btype'], **nutils_kwargs(case, ta))
        ba = ta.topo.basis(case['btype'], **nutils_kwargs({'kw': ka}, ta))
        bb = tb.topo.basis(case['btype'], **nutils_kwargs({'kw': kb}, tb))
    except Exception as e:
        fails.add('construct-raise', 'constructing the basis raised {}: {}'.format(type(e).__name__, str(e)[:200]))
        return fails
    na, nb = len(ba), len(bb)
    stats['ndofs'] = na * nb
    stats['nelems'] = len(ta.topo) * len(tb.topo)
    stats['class'] = 'product'
    if basis.shape != (na * nb,):
        fails.add('sizes', 'product basis has shape {} for factors of {} and {} functions'.format(basis.shape, na, nb))
        return fails
    pdeg = max(max(_tup(ka.get('degree', 1), ta.ndims)), max(_tup(kb.get('degree', 1), tb.ndims)), 1)
    smp = topo.sample('gauss', 2 * pdeg)
    try:
        vals, ssum, ia, xa, ib, xb = smp.eval([basis, basis.sum(0), ta.topo.f_index, ta.topo.f_coords, tb.topo.f_index, tb.topo.f_coords])
    except Exception as e:
        fails.add('eval-raise', 'evaluating the basis raised {}: {}'.format(type(e).__name__, str(e)[:200]))
        return fails

    def factor(b, idx, x, n):
        out = numpy.zeros((len(idx), n))
        for i in sorted(set(idx.tolist())):
            sel = idx == i
            pv = ref.polyval(b.get_coefficients(i), x[sel])
            tmp = numpy.zeros((int(sel.sum()), n))
            for j, d in enumerate(b.get_dofs(i)):
                tmp[:, d] += pv[:, j]
            out[sel] = tmp
        return out
    A = factor(ba, ia, xa, na)
    B = factor(bb, ib, xb, nb)
    expect = (A[:, :, None] * B[:, None, :]).reshape(len(A), -1)
    if _relerr(vals, expect) > TOL * max(1., _amax(expect)):
        j = int(abs(vals - expect).max(axis=0).argmax())
        fails.add('values', 'product function {} = ({},{}) is not the product of the factor polynomials (difference {:.3e})'.format(j, j // nb, j % nb, _relerr(vals, expect)))
    if case['btype'] in POU:
        stats['pou'] = 1
        if _relerr(ssum, numpy.ones_like(ssum)) > TOL:
            fails.add('partition-of-unity', 'sum of the product basis is {!r}'.format(float(ssum[abs(ssum - 1).argmax()])))
    r = ref.rank(vals)
    if r != na * nb:
        fails.add('linear-dependence', 'collocation matrix on {} points has rank {} for {} functions'.format(len(vals), r, na * nb))
    if fails:
        return fails
    ifc = topo.interfaces
    ism = ifc.sample('gauss', 2)
    jmp = ism.eval(function.jump(basis))
    stats['interface-points'] = len(jmp)
    bt = case['btype']
    pmin = min(_tup(kw['degree'], ta.ndims + tb.ndims))
    if bt in ('discont', 'legendre'):
        c = -1
    elif pmin >= 1:
        c = 0
    else:
        c = None    # a direction of degree zero is discontinuous, the others are not: nothing uniform to claim
    if len(jmp) and c is not None:
        if c >= 0 and abs(jmp).max() > TOL:
            fails.add('continuity', 'jump of product function {} is {:.3e} (advertised C^0)'.format(int(abs(jmp).max(axis=0).argmax()), _amax(jmp)))
        elif c < 0 and abs(jmp).max() <= NZ:
            fails.add('smoother-than-advertised', 'every function of a discontinuous product basis is continuous')
        else:
            stats['continuity-groups'] = 1
            if c < 0:
                stats['nonvacuous-groups'] = 1
    return fails
