'''Term space for nutils' array IR (evaluable.py): a small typed vocabulary with
three independent interpretations

  build(term)      -> the real nutils.evaluable.Array (the state of the search)
  ref(term, env)   -> numpy value: a deliberately boring reference interpreter
  typeof(term)     -> (shape, kind) static type used by the type-directed enumerator

A term is a nested tuple (opname, params, child, child, ...); params is a tuple of
JSON-able python values.  `to_json` / `from_json` make witnesses replayable.

The reference interpreter contains no nutils code.  Domain: it raises
OutOfDomain when the mathematical value is undefined or numerically ill-posed
(log / fractional power of a non-positive number, division by |x|<1e-6,
inverse of a matrix with cond>1e6, index out of range); such valuations are
outside every property's statement and are counted as trivial by the callers.
'''

import itertools, math
import numpy

KINDS = {'b': bool, 'i': int, 'f': float, 'c': complex}
KIND_OF = {bool: 'b', int: 'i', float: 'f', complex: 'c'}


class OutOfDomain(Exception):
    pass


MARGIN = 1e-6   # distance kept from kinks / poles / ties; C04 widens it so that finite-difference stencils do not cross a kink


class IllTyped(Exception):
    pass


def npdtype(kind):
    return {'b': numpy.bool_, 'i': numpy.int64, 'f': numpy.float64, 'c': numpy.complex128}[kind]


# ------------------------------------------------------------------ operators

OPS = {}


class Op:
    arity = 1
    core = False       # member of the rewrite core R of DESIGN 1.2
    smooth = True      # differentiable everywhere in its domain (C04)

    def __init__(self, name):
        self.name = name
        OPS[name] = self

    def params(self, *tys):
        'iterable of parameter tuples that make the application well typed'
        return [()]

    def ty(self, p, *tys):
        raise NotImplementedError

    def build(self, ev, p, *xs):
        raise NotImplementedError

    def ref(self, p, *vs):
        raise NotImplementedError


def op(name, **kw):
    def deco(cls):
        o = cls(name)
        for k, v in kw.items():
            setattr(o, k, v)
        return cls
    return deco


def _tuplify(x):
    if isinstance(x, (list, tuple)):
        return tuple(_tuplify(i) for i in x)
    return x


# leaves ------------------------------------------------------------------

@op('arg')
class _Arg(Op):
    arity = 0

    def ty(self, p):
        name, shape, kind = p
        return tuple(shape), kind

    def build(self, ev, p):
        name, shape, kind = p
        return ev.Argument(name, tuple(ev.constant(n) for n in shape), KINDS[kind])


@op('const')
class _Const(Op):
    arity = 0

    def ty(self, p):
        data, kind = p
        return numpy.array(data, dtype=npdtype(kind)).shape, kind

    def build(self, ev, p):
        data, kind = p
        return ev.constant(numpy.array(data, dtype=npdtype(kind)))

    def ref(self, p):
        data, kind = p
        return numpy.array(data, dtype=npdtype(kind))


@op('zeros')
class _Zeros(Op):
    arity = 0

    def ty(self, p):
        return tuple(p[0]), p[1]

    def build(self, ev, p):
        return ev.zeros(tuple(ev.constant(n) for n in p[0]), KINDS[p[1]])

    def ref(self, p):
        return numpy.zeros(p[0], dtype=npdtype(p[1]))


@op('ones')
class _Ones(Op):
    arity = 0

    def ty(self, p):
        return tuple(p[0]), p[1]

    def build(self, ev, p):
        return ev.ones(tuple(ev.constant(n) for n in p[0]), KINDS[p[1]])

    def ref(self, p):
        return numpy.ones(p[0], dtype=npdtype(p[1]))


@op('range')
class _Range(Op):
    arity = 0

    def ty(self, p):
        return (p[0],), 'i'

    def build(self, ev, p):
        return ev.Range(ev.constant(p[0]))

    def ref(self, p):
        return numpy.arange(p[0])


@op('loopidx')
class _LoopIdx(Op):
    'loop index: free variable, bound by loopsum / loopcat with the same name'
    arity = 0

    def ty(self, p):
        return (), 'i'

    def build(self, ev, p):
        name, length = p
        return ev.loop_index(name, ev.constant(length))


# structural unary -----------------------------------------------------------

def _axes(n):
    return range(n)


@op('sum', core=True)
class _Sum(Op):
    def params(self, t):
        (shape, k) = t
        return [(a,) for a in _axes(len(shape))] if k != 'b' else []

    def ty(self, p, t):
        shape, k = t
        if k == 'b' or not 0 <= p[0] < len(shape):
            raise IllTyped
        return shape[:p[0]] + shape[p[0] + 1:], k

    def build(self, ev, p, x):
        return ev.sum(x, p[0])

    def ref(self, p, v):
        return numpy.sum(v, axis=p[0])


@op('product', core=True)
class _Product(Op):
    def params(self, t):
        shape, k = t
        return [(a,) for a in _axes(len(shape))] if k in 'fc' else []

    def ty(self, p, t):
        shape, k = t
        if k not in 'fci' or not 0 <= p[0] < len(shape):
            raise IllTyped
        return shape[:p[0]] + shape[p[0] + 1:], k

    def build(self, ev, p, x):
        return ev.product(x, p[0])

    def ref(self, p, v):
        return numpy.prod(v, axis=p[0])


@op('takediag', core=True)
class _TakeDiag(Op):
    def params(self, t):
        shape, k = t
        return [(a, b) for a in _axes(len(shape)) for b in _axes(len(shape)) if a != b and shape[a] == shape[b]]

    def ty(self, p, t):
        shape, k = t
        a, b = p
        if a == b or not (0 <= a < len(shape) and 0 <= b < len(shape)) or shape[a] != shape[b]:
            raise IllTyped
        rest = [n for i, n in enumerate(shape) if i != b]
        return tuple(rest), k

    def build(self, ev, p, x):
        return ev.takediag(x, p[0], p[1])

    def ref(self, p, v):
        a, b = p
        d = numpy.diagonal(v, 0, a, b)  # diagonal axis last
        return numpy.moveaxis(d, -1, a - (a >= b))


@op('diagonalize', core=True)
class _Diagonalize(Op):
    def params(self, t):
        shape, k = t
        return [(a, n) for a in _axes(len(shape)) for n in range(len(shape) + 1)] if len(shape) < 3 else []

    def ty(self, p, t):
        shape, k = t
        a, n = p
        if not (0 <= a < len(shape) and 0 <= n <= len(shape)):
            raise IllTyped
        a2 = a + (a >= n)
        if a2 == n:
            raise IllTyped
        out = [None] * (len(shape) + 1)
        out[a2] = shape[a]
        out[n] = shape[a]
        rest = iter(s for i, s in enumerate(shape) if i != a)
        out = [next(rest) if o is None else o for o in out]
        return tuple(out), k

    def build(self, ev, p, x):
        return ev.diagonalize(x, p[0], p[1])

    def ref(self, p, v):
        a, n = p
        a2 = a + (a >= n)
        w = numpy.moveaxis(v, a, -1)
        m = w.shape[-1]
        D = numpy.zeros(w.shape + (m,), dtype=v.dtype)
        for i in range(m):
            D[..., i, i] = w[..., i]
        return numpy.moveaxis(D, [-2, -1], [a2, n])


@op('insertaxis', core=True)
class _InsertAxis(Op):
    lengths = (1, 2, 3)

    def params(self, t):
        shape, k = t
        return [(pos, n) for pos in range(len(shape) + 1) for n in self.lengths] if len(shape) < 3 else []

    def ty(self, p, t):
        shape, k = t
        pos, n = p
        if not 0 <= pos <= len(shape):
            raise IllTyped
        return shape[:pos] + (n,) + shape[pos:], k

    def build(self, ev, p, x):
        return ev.insertaxis(x, p[0], ev.constant(p[1]))

    def ref(self, p, v):
        return numpy.repeat(numpy.expand_dims(v, p[0]), p[1], axis=p[0])


@op('transpose', core=True)
class _Transpose(Op):
    def params(self, t):
        shape, k = t
        return [(perm,) for perm in itertools.permutations(range(len(shape))) if perm != tuple(range(len(shape)))]

    def ty(self, p, t):
        shape, k = t
        perm = tuple(p[0])
        if sorted(perm) != list(range(len(shape))):
            raise IllTyped
        return tuple(shape[i] for i in perm), k

    def build(self, ev, p, x):
        return ev.transpose(x, tuple(p[0]))

    def ref(self, p, v):
        return numpy.transpose(v, tuple(p[0]))


INDEX_SETS = {1: [(0,), (0, 0)], 2: [(1, 0), (0,), (1, 1)], 3: [(2, 0, 1), (0, 2), (1,), (0, 0, 2)]}


@op('take', core=True)
class _Take(Op):
    'gather with a constant index vector along one axis'

    def params(self, t):
        shape, k = t
        return [(idx, a) for a in _axes(len(shape)) for idx in INDEX_SETS.get(shape[a], [])]

    def ty(self, p, t):
        shape, k = t
        idx, a = p
        if not 0 <= a < len(shape) or any(not 0 <= i < shape[a] for i in idx):
            raise IllTyped
        return shape[:a] + (len(idx),) + shape[a + 1:], k

    def build(self, ev, p, x):
        return ev.take(x, ev.constant(numpy.array(p[0], dtype=int)), p[1])

    def ref(self, p, v):
        return numpy.take(v, numpy.array(p[0], dtype=int), axis=p[1])


@op('get')
class _Get(Op):
    def params(self, t):
        shape, k = t
        return [(a, i) for a in _axes(len(shape)) for i in sorted({0, shape[a] - 1}) if shape[a] > 0]

    def ty(self, p, t):
        shape, k = t
        a, i = p
        if not 0 <= a < len(shape) or not 0 <= i < shape[a]:
            raise IllTyped
        return shape[:a] + shape[a + 1:], k

    def build(self, ev, p, x):
        return ev.get(x, p[0], ev.constant(p[1]))

    def ref(self, p, v):
        return numpy.take(v, p[1], axis=p[0])


@op('slice')
class _Slice(Op):
    def params(self, t):
        shape, k = t
        out = []
        for a in _axes(len(shape)):
            n = shape[a]
            for s in ((1, None, None), (None, n - 1, None), (None, None, 2), (None, None, -1)):
                if len(range(*slice(*s).indices(n))) < n or s[2] == -1:
                    out.append((s, a))
        return out

    def ty(self, p, t):
        shape, k = t
        s, a = p
        if not 0 <= a < len(shape):
            raise IllTyped
        return shape[:a] + (len(range(*slice(*s).indices(shape[a]))),) + shape[a + 1:], k

    def build(self, ev, p, x):
        return ev._takeslice(x, slice(*p[0]), p[1])

    def ref(self, p, v):
        ix = [slice(None)] * v.ndim
        ix[p[1]] = slice(*p[0])
        return v[tuple(ix)]


DOFMAPS = {1: [((0,), 2), ((1,), 2)], 2: [((1, 0), 2), ((0, 2), 3), ((1, 1), 2), ((2, 0), 3)], 3: [((2, 0, 1), 3), ((0, 0, 2), 3), ((0, 2, 3), 4)]}


@op('inflate', core=True)
class _Inflate(Op):
    'scatter-add along one axis with a constant dof map (repeated dofs included)'

    def params(self, t):
        shape, k = t
        if k == 'b':
            return []
        return [(dm, n, a) for a in _axes(len(shape)) for dm, n in DOFMAPS.get(shape[a], [])]

    def ty(self, p, t):
        shape, k = t
        dm, n, a = p
        if k == 'b' or not 0 <= a < len(shape) or len(dm) != shape[a] or any(not 0 <= d < n for d in dm):
            raise IllTyped
        return shape[:a] + (n,) + shape[a + 1:], k

    def build(self, ev, p, x):
        return ev._inflate(x, ev.constant(numpy.array(p[0], dtype=int)), ev.constant(p[1]), p[2])

    def ref(self, p, v):
        dm, n, a = p
        w = numpy.moveaxis(v, a, -1)
        out = numpy.zeros(w.shape[:-1] + (n,), dtype=v.dtype)
        for j, d in enumerate(dm):
            out[..., d] = out[..., d] + w[..., j]
        return numpy.moveaxis(out, -1, a)


@op('ravel', core=True)
class _Ravel(Op):
    def params(self, t):
        shape, k = t
        return [(a,) for a in range(len(shape) - 1)]

    def ty(self, p, t):
        shape, k = t
        a = p[0]
        if not 0 <= a < len(shape) - 1:
            raise IllTyped
        return shape[:a] + (shape[a] * shape[a + 1],) + shape[a + 2:], k

    def build(self, ev, p, x):
        return ev.ravel(x, p[0])

    def ref(self, p, v):
        a = p[0]
        return v.reshape(v.shape[:a] + (v.shape[a] * v.shape[a + 1],) + v.shape[a + 2:])


@op('unravel', core=True)
class _Unravel(Op):
    def params(self, t):
        shape, k = t
        out = []
        if len(shape) >= 3:
            return out
        for a in _axes(len(shape)):
            n = shape[a]
            for m in range(1, n + 1):
                if n % m == 0 and (n > 1) and (m, n // m) != (n, 1) or (n == m and n in (2, 3)):
                    out.append((a, (m, n // m)))
        return out

    def ty(self, p, t):
        shape, k = t
        a, sh = p
        if not 0 <= a < len(shape) or sh[0] * sh[1] != shape[a]:
            raise IllTyped
        return shape[:a] + tuple(sh) + shape[a + 1:], k

    def build(self, ev, p, x):
        return ev.unravel(x, p[0], tuple(ev.constant(n) for n in p[1]))

    def ref(self, p, v):
        a, sh = p
        return v.reshape(v.shape[:a] + tuple(sh) + v.shape[a + 1:])


# pointwise unary ------------------------------------------------------------

class _PW(Op):
    kinds = 'fc'
    outkind = None

    def params(self, t):
        return [()] if t[1] in self.kinds else []

    def ty(self, p, t):
        if t[1] not in self.kinds:
            raise IllTyped
        return t[0], self.outkind or t[1]

    def build(self, ev, p, x):
        return self.f_build(ev, x)

    def ref(self, p, v):
        return self.f_ref(v)


def pw(name, kinds, f_build, f_ref, outkind=None, **kw):
    o = _PW(name)
    o.kinds = kinds
    o.f_build = f_build
    o.f_ref = f_ref
    o.outkind = outkind
    for k, v in kw.items():
        setattr(o, k, v)
    return o


def _pos(v):
    if numpy.iscomplexobj(v):
        if (abs(v) < MARGIN).any() or ((v.real < 0) & (abs(v.imag) < MARGIN)).any():
            raise OutOfDomain
    elif (v <= MARGIN).any():
        raise OutOfDomain
    return v


def _nz(v):
    if (abs(v) < MARGIN).any():
        raise OutOfDomain
    return v


def _nokink(v):
    if not numpy.iscomplexobj(v) and v.dtype.kind == 'f' and (abs(v) < MARGIN).any():
        raise OutOfDomain
    return v


def _small(v, m=20.):
    if (abs(v) > m).any():
        raise OutOfDomain
    return v


pw('sign', 'if', lambda ev, x: ev.sign(x), lambda v: numpy.sign(_nokink(v)).astype(v.dtype), core=True, smooth=False)
pw('abs', 'if', lambda ev, x: ev.abs(x), lambda v: numpy.abs(_nokink(v)), core=True, smooth=False)
pw('negative', 'ifc', lambda ev, x: ev.negative(x), lambda v: -v, core=True)
pw('reciprocal', 'fc', lambda ev, x: ev.reciprocal(x), lambda v: 1 / _nz(v), core=True)
pw('sqrt', 'f', lambda ev, x: ev.sqrt(x), lambda v: numpy.sqrt(_pos(v)), core=True)
pw('sin', 'fc', lambda ev, x: ev.sin(x), lambda v: numpy.sin(_small(v)))
pw('cos', 'fc', lambda ev, x: ev.cos(x), lambda v: numpy.cos(_small(v)))
pw('tan', 'f', lambda ev, x: ev.tan(x), lambda v: numpy.tan(_tan_dom(v)))
pw('exp', 'fc', lambda ev, x: ev.exp(x), lambda v: numpy.exp(_small(v)))
pw('log', 'f', lambda ev, x: ev.ln(x), lambda v: numpy.log(_pos(v)))
pw('arctan', 'f', lambda ev, x: ev.arctan(x), lambda v: numpy.arctan(v))
pw('tanh', 'f', lambda ev, x: ev.tanh(x), lambda v: numpy.tanh(v))
pw('sinc', 'f', lambda ev, x: ev.sinc(x), lambda v: numpy.where(v == 0, 1., numpy.sin(v) / numpy.where(v == 0, 1., v)))
pw('real', 'c', lambda ev, x: ev.real(x), lambda v: v.real.copy(), outkind='f', smooth=False)
pw('imag', 'c', lambda ev, x: ev.imag(x), lambda v: v.imag.copy(), outkind='f', smooth=False)
pw('conjugate', 'c', lambda ev, x: ev.conjugate(x), lambda v: numpy.conjugate(v), smooth=False)
pw('lnot', 'b', lambda ev, x: ev.LogicalNot(x), lambda v: ~v, smooth=False)
pw('tofloat', 'bi', lambda ev, x: ev.astype(x, float), lambda v: v.astype(float), outkind='f', core=True)
pw('tocomplex', 'f', lambda ev, x: ev.astype(x, complex), lambda v: v.astype(complex), outkind='c', core=True)
pw('toint', 'b', lambda ev, x: ev.astype(x, int), lambda v: v.astype(int), outkind='i', core=True)
pw('guard', 'bifc', lambda ev, x: ev.Guard(x), lambda v: v.copy())


def _tan_dom(v):
    if (abs(numpy.cos(v)) < .05).any():
        raise OutOfDomain
    return v


@op('powc', core=True)
class _PowC(Op):
    'power with a constant exponent'
    exps = (2., 3., 4., .5, -1., -2.)

    def params(self, t):
        if t[1] == 'f':
            return [(c,) for c in self.exps]
        if t[1] == 'c':
            return [(2.,), (-1.,)]
        if t[1] == 'i':
            return [(2,), (3,)]
        return []

    def ty(self, p, t):
        if t[1] not in 'ifc' or (t[1] == 'i' and (not isinstance(p[0], int) or p[0] < 0)):
            raise IllTyped
        return t

    def build(self, ev, p, x):
        c = p[0]
        return ev.power(x, ev.astype(ev.constant(c), x.dtype) if not isinstance(c, int) or x.dtype != int else ev.constant(c))

    def ref(self, p, v):
        c = p[0]
        if v.dtype.kind == 'i':
            return v ** int(c)
        if c != int(c):
            _pos(v)
        elif c < 0:
            _nz(v)
        return numpy.power(v, c)


@op('powvec')
class _PowVec(Op):
    'entrywise power with a NON-uniform constant exponent vector along the last axis (monomial basis x**[0,1,2,..]); 0**0 == 1'

    def params(self, t):
        shape, k = t
        return [(tuple(range(shape[-1])),), (tuple(float(j) for j in range(shape[-1], 0, -1)) + (),)][:1 if k == 'i' else 2] if shape and k in 'fi' and shape[-1] >= 2 else []

    def ty(self, p, t):
        shape, k = t
        if not shape or len(p[0]) != shape[-1] or k not in 'fi':
            raise IllTyped
        return t

    def build(self, ev, p, x):
        e = numpy.broadcast_to(numpy.array(p[0], dtype=float if x.dtype == float else int), [int(n) for n in x.shape]).copy()
        return ev.Power(x, ev.constant(e))

    def ref(self, p, v):
        e = numpy.array(p[0], dtype=v.dtype)
        if v.dtype.kind == 'f' and ((v < 0) & (e != numpy.round(e))).any():
            raise OutOfDomain
        return numpy.power(v, e)


@op('inverse', core=True)
class _Inverse(Op):
    def params(self, t):
        shape, k = t
        return [(a, b) for a in _axes(len(shape)) for b in _axes(len(shape)) if a < b and shape[a] == shape[b] and shape[a] > 0] if k in 'fc' else []

    def ty(self, p, t):
        shape, k = t
        a, b = p
        if k not in 'fc' or a == b or shape[a] != shape[b]:
            raise IllTyped
        return t

    def build(self, ev, p, x):
        return ev.inverse(x, tuple(p))

    def ref(self, p, v):
        w = numpy.moveaxis(v, list(p), [-2, -1])
        if w.size and (numpy.linalg.cond(w) > 1e6).any():
            raise OutOfDomain
        return numpy.moveaxis(numpy.linalg.inv(w), [-2, -1], list(p))


@op('determinant', core=True)
class _Det(Op):
    def params(self, t):
        shape, k = t
        return [(a, b) for a in _axes(len(shape)) for b in _axes(len(shape)) if a < b and shape[a] == shape[b] and shape[a] > 0] if k in 'fc' else []

    def ty(self, p, t):
        shape, k = t
        a, b = p
        if k not in 'fc' or a == b or shape[a] != shape[b]:
            raise IllTyped
        return tuple(n for i, n in enumerate(shape) if i not in (a, b)), k

    def build(self, ev, p, x):
        return ev.determinant(x, tuple(p))

    def ref(self, p, v):
        return numpy.linalg.det(numpy.moveaxis(v, list(p), [-2, -1]))


@op('polyval')
class _Polyval(Op):
    'polynomial in one variable with constant coefficients (nutils order: highest power first)'
    coeffs = ((1., -2., .5), (2., 0., 0., -1.))

    def params(self, t):
        return [(c,) for c in self.coeffs] if t[1] == 'f' else []

    def ty(self, p, t):
        if t[1] != 'f':
            raise IllTyped
        return t

    def build(self, ev, p, x):
        c = ev.constant(numpy.array(p[0], dtype=float))
        return ev.Polyval(c, ev.InsertAxis(x, ev.constant(1)))

    def ref(self, p, v):
        # reverse lexicographic order for one variable: coefficient of x^(n-1) first
        return numpy.polyval(numpy.array(p[0]), v)


@op('legendre')
class _Legendre(Op):
    def params(self, t):
        return [(2,)] if t[1] == 'f' and len(t[0]) <= 2 else []

    def ty(self, p, t):
        if t[1] != 'f':
            raise IllTyped
        return t[0] + (p[0] + 1,), 'f'

    def build(self, ev, p, x):
        return ev.Legendre(x, p[0])

    def ref(self, p, v):
        return numpy.stack([numpy.polynomial.legendre.legval(v, [0] * d + [1]) for d in range(p[0] + 1)], axis=-1)


# loops ------------------------------------------------------------------------

@op('loopsum', core=True)
class _LoopSum(Op):
    def params(self, t):
        return []  # applied explicitly by the enumerator to terms with a free loop index

    def ty(self, p, t):
        if t[1] == 'b':
            raise IllTyped
        return t

    def build(self, ev, p, x):
        name, length = p
        return ev.loop_sum(x, ev.loop_index(name, ev.constant(length)))


@op('loopcat')
class _LoopCat(Op):
    def params(self, t):
        return []

    def ty(self, p, t):
        shape, k = t
        if not shape:
            raise IllTyped
        return shape[:-1] + (shape[-1] * p[1],), k

    def build(self, ev, p, x):
        name, length = p
        return ev.loop_concatenate(x, ev.loop_index(name, ev.constant(length)))


# binary -------------------------------------------------------------------------

def _bshape(t1, t2):
    'nutils aligns equal shapes or a scalar with anything'
    if t1[0] == t2[0]:
        return t1[0]
    if not t1[0]:
        return t2[0]
    if not t2[0]:
        return t1[0]
    raise IllTyped


class _Bin(Op):
    arity = 2
    kinds = 'ifc'
    outkind = None
    samekind = True

    def params(self, t1, t2):
        try:
            self.ty((), t1, t2)
        except IllTyped:
            return []
        return [()]

    def ty(self, p, t1, t2):
        if t1[1] != t2[1] or t1[1] not in self.kinds:
            raise IllTyped
        return _bshape(t1, t2), self.outkind or t1[1]

    def build(self, ev, p, x, y):
        return self.f_build(ev, x, y)

    def ref(self, p, v, w):
        return self.f_ref(v, w)


def binop(name, kinds, f_build, f_ref, outkind=None, **kw):
    o = _Bin(name)
    o.kinds = kinds
    o.f_build = f_build
    o.f_ref = f_ref
    o.outkind = outkind
    for k, v in kw.items():
        setattr(o, k, v)
    return o


def _notie(v, w):
    if (abs(v - w) < MARGIN).any():
        raise OutOfDomain
    return v, w


def _ref_mod(v, w):
    if (w == 0).any() if w.dtype.kind == 'i' else (abs(w) < MARGIN).any():
        raise OutOfDomain
    if v.dtype.kind == 'f':
        q = v / w
        if (abs(q - numpy.round(q)) < MARGIN).any():
            raise OutOfDomain
    return numpy.mod(v, w)


def _ref_floordiv(v, w):
    if (w == 0).any() if w.dtype.kind == 'i' else (abs(w) < MARGIN).any():
        raise OutOfDomain
    if v.dtype.kind == 'f':
        q = v / w
        if (abs(q - numpy.round(q)) < MARGIN).any():
            raise OutOfDomain
    return numpy.floor_divide(v, w)


def _ref_power(v, w):
    if v.dtype.kind == 'i':
        if (w < 0).any():
            raise OutOfDomain
        return v ** w
    if numpy.iscomplexobj(v) or numpy.iscomplexobj(w):
        _pos(v)
    else:
        _pos(v)
    _small(w, 6.)
    return numpy.power(v, w)


binop('add', 'ifc', lambda ev, x, y: ev.add(x, y), lambda v, w: v + w, core=True)
binop('multiply', 'ifc', lambda ev, x, y: ev.multiply(x, y), lambda v, w: v * w, core=True)
binop('subtract', 'ifc', lambda ev, x, y: ev.subtract(x, y), lambda v, w: v - w)
binop('divide', 'fc', lambda ev, x, y: ev.divide(x, y), lambda v, w: v / _nz(w))
binop('power', 'f', lambda ev, x, y: ev.power(x, y), _ref_power, core=True)
binop('minimum', 'if', lambda ev, x, y: ev.Minimum(*ev._numpy_align(x, y)), lambda v, w: numpy.minimum(*_notie(v, w)), smooth=False)
binop('maximum', 'if', lambda ev, x, y: ev.Maximum(*ev._numpy_align(x, y)), lambda v, w: numpy.maximum(*_notie(v, w)), smooth=False)
binop('mod', 'if', lambda ev, x, y: ev.mod(x, y), _ref_mod, smooth=False)
binop('floordiv', 'if', lambda ev, x, y: ev.FloorDivide(*ev._numpy_align(x, y)), _ref_floordiv, smooth=False)
binop('greater', 'if', lambda ev, x, y: ev.Greater(*ev._numpy_align(x, y)), lambda v, w: numpy.greater(*_notie(v, w)), outkind='b', smooth=False)
binop('less', 'if', lambda ev, x, y: ev.Less(*ev._numpy_align(x, y)), lambda v, w: numpy.less(*_notie(v, w)), outkind='b', smooth=False)
binop('equal', 'i', lambda ev, x, y: ev.Equal(*ev._numpy_align(x, y)), lambda v, w: numpy.equal(v, w), outkind='b', smooth=False)
binop('arctan2', 'f', lambda ev, x, y: ev.arctan2(x, y), lambda v, w: numpy.arctan2(v, _nokink_pair(v, w)))


def _nokink_pair(v, w):
    if ((abs(v) < MARGIN) & (w < MARGIN)).any():
        raise OutOfDomain
    return w


@op('choose', core=True)
class _Choose(Op):
    'numpy.choose along the last axis of the second operand; the first operand is an int index array'
    arity = 2
    smooth = False

    def params(self, t1, t2):
        try:
            self.ty((), t1, t2)
        except IllTyped:
            return []
        return [()]

    def ty(self, p, t1, t2):
        if t1[1] != 'i' or not t2[0] or t2[0][:-1] != t1[0] or t2[0][-1] < 2:
            raise IllTyped
        return t1[0], t2[1]

    def build(self, ev, p, i, x):
        return ev.Choose(i, x)

    def ref(self, p, i, v):
        if (i < 0).any() or (i >= v.shape[-1]).any():
            raise OutOfDomain
        return numpy.take_along_axis(v, i[..., None], axis=-1)[..., 0]


@op('takearg', core=True)
class _TakeArg(Op):
    'gather along an axis with a run-time int index vector'
    arity = 2

    def params(self, t1, t2):
        if t2[1] != 'i' or len(t2[0]) != 1:
            return []
        return [(a,) for a in _axes(len(t1[0])) if t1[0][a] >= 2]

    def ty(self, p, t1, t2):
        if t2[1] != 'i' or len(t2[0]) != 1 or not 0 <= p[0] < len(t1[0]):
            raise IllTyped
        a = p[0]
        return t1[0][:a] + t2[0] + t1[0][a + 1:], t1[1]

    def build(self, ev, p, x, i):
        return ev.take(x, i, p[0])

    def ref(self, p, v, i):
        if (i < 0).any() or (i >= v.shape[p[0]]).any():
            raise OutOfDomain
        return numpy.take(v, i, axis=p[0])


@op('inflatearg', core=True)
class _InflateArg(Op):
    'scatter-add along an axis with a run-time int dof vector'
    arity = 2

    def params(self, t1, t2):
        if t2[1] != 'i' or len(t2[0]) != 1 or t1[1] == 'b':
            return []
        return [(a, n) for a in _axes(len(t1[0])) if t1[0][a] == t2[0][0] for n in (2, 3)]

    def ty(self, p, t1, t2):
        a, n = p
        if t2[1] != 'i' or len(t2[0]) != 1 or t1[1] == 'b' or not 0 <= a < len(t1[0]) or t1[0][a] != t2[0][0]:
            raise IllTyped
        return t1[0][:a] + (n,) + t1[0][a + 1:], t1[1]

    def build(self, ev, p, x, i):
        return ev._inflate(x, i, ev.constant(p[1]), p[0])

    def ref(self, p, v, i):
        a, n = p
        if (i < 0).any() or (i >= n).any():
            raise OutOfDomain
        w = numpy.moveaxis(v, a, -1)
        out = numpy.zeros(w.shape[:-1] + (n,), dtype=v.dtype)
        for j, d in enumerate(i):
            out[..., d] = out[..., d] + w[..., j]
        return numpy.moveaxis(out, -1, a)


@op('einsum')
class _Einsum(Op):
    arity = 2
    fmts = ('ij,j->i', 'ij,jk->ik', 'i,i->', 'ij,ij->i', 'i,j->ij', 'ijk,k->ij')

    def params(self, t1, t2):
        out = []
        for f in self.fmts:
            try:
                self.ty((f,), t1, t2)
            except IllTyped:
                continue
            out.append((f,))
        return out

    def ty(self, p, t1, t2):
        f = p[0]
        ins, o = f.split('->')
        a, b = ins.split(',')
        if t1[1] != t2[1] or t1[1] not in 'ifc' or len(a) != len(t1[0]) or len(b) != len(t2[0]):
            raise IllTyped
        dims = {}
        for lab, n in list(zip(a, t1[0])) + list(zip(b, t2[0])):
            if dims.setdefault(lab, n) != n:
                raise IllTyped
        return tuple(dims[l] for l in o), t1[1]

    def build(self, ev, p, x, y):
        return ev.einsum(p[0], x, y)

    def ref(self, p, v, w):
        return numpy.einsum(p[0], v, w)


@op('stack')
class _Stack(Op):
    arity = 2

    def params(self, t1, t2):
        if t1 != t2 or t1[1] == 'b' or len(t1[0]) >= 3:
            return []
        return [(a,) for a in range(len(t1[0]) + 1)]

    def ty(self, p, t1, t2):
        if t1 != t2 or t1[1] == 'b' or not 0 <= p[0] <= len(t1[0]):
            raise IllTyped
        return t1[0][:p[0]] + (2,) + t1[0][p[0]:], t1[1]

    def build(self, ev, p, x, y):
        return ev.stack([x, y], p[0])

    def ref(self, p, v, w):
        return numpy.stack([v, w], axis=p[0])


@op('concat')
class _Concat(Op):
    arity = 2

    def params(self, t1, t2):
        out = []
        if t1[1] != t2[1] or t1[1] == 'b' or len(t1[0]) != len(t2[0]):
            return out
        for a in _axes(len(t1[0])):
            if t1[0][:a] + t1[0][a + 1:] == t2[0][:a] + t2[0][a + 1:]:
                out.append((a,))
        return out

    def ty(self, p, t1, t2):
        a = p[0]
        if t1[1] != t2[1] or t1[1] == 'b' or len(t1[0]) != len(t2[0]) or not 0 <= a < len(t1[0]) or t1[0][:a] + t1[0][a + 1:] != t2[0][:a] + t2[0][a + 1:]:
            raise IllTyped
        return t1[0][:a] + (t1[0][a] + t2[0][a],) + t1[0][a + 1:], t1[1]

    def build(self, ev, p, x, y):
        return ev.concatenate([x, y], p[0])

    def ref(self, p, v, w):
        return numpy.concatenate([v, w], axis=p[0])


@op('getl')
class _GetL(Op):
    'x[..., i, ...] with a run-time scalar int index (typically a loop index)'
    arity = 2

    def params(self, t1, t2):
        if t2 != ((), 'i'):
            return []
        return [(a,) for a in _axes(len(t1[0])) if t1[0][a] >= 2]

    def ty(self, p, t1, t2):
        if t2 != ((), 'i') or not 0 <= p[0] < len(t1[0]):
            raise IllTyped
        return t1[0][:p[0]] + t1[0][p[0] + 1:], t1[1]

    def build(self, ev, p, x, i):
        return ev.get(x, p[0], i)

    def ref(self, p, v, i):
        if not 0 <= int(i) < v.shape[p[0]]:
            raise OutOfDomain
        return numpy.take(v, int(i), axis=p[0])


@op('raggedcat')
class _RaggedCat(Op):
    '''loop_concatenate over l<n of a chunk whose LENGTH depends on l: x[l:l+1 .. ] variants
    variant 0: take(x, Range(l+1))            (chunk sizes 1,2,..,n; needs len(x) >= n)
    variant 1: take(x, Range(l+1)) * (l+1.)   (loop index also in the values)
    variant 2: take(x, Range(n-l))            (decreasing chunk sizes)'''

    def params(self, t):
        shape, k = t
        if len(shape) != 1 or k != 'f' or shape[0] < 2:
            return []
        return [(name, shape[0], v) for v in (0, 1, 2) for name in ('r',)]

    def ty(self, p, t):
        shape, k = t
        name, n, v = p
        if len(shape) != 1 or k != 'f' or shape[0] < n:
            raise IllTyped
        return (n * (n + 1) // 2,), k

    def build(self, ev, p, x):
        name, n, v = p
        i = ev.loop_index(name, ev.constant(n))
        if v == 2:
            chunk = ev.Take(x, ev.Range(ev.constant(n) - i))
        else:
            chunk = ev.Take(x, ev.Range(i + ev.constant(1)))
            if v == 1:
                chunk = chunk * ev.astype(i + ev.constant(1), float)
        return ev.loop_concatenate(chunk, i)

    def ref(self, p, val):
        name, n, v = p
        parts = []
        for l in range(n):
            if v == 2:
                parts.append(val[:n - l])
            else:
                parts.append(val[:l + 1] * (l + 1. if v == 1 else 1.))
        return numpy.concatenate(parts)


@op('raggedrange')
class _RaggedRange(Op):
    '''float(Range(N)) where the LENGTH N is the result of a loop (total length of a variable-size concatenation over the operand):
    the value does not come out of a loop, but every array of this shape can only be allocated after that loop has run'''

    def params(self, t):
        shape, k = t
        return [('r', shape[0])] if len(shape) == 1 and k == 'f' and shape[0] >= 2 else []

    def ty(self, p, t):
        shape, k = t
        if len(shape) != 1 or k != 'f' or shape[0] < p[1]:
            raise IllTyped
        return (p[1] * (p[1] + 1) // 2,), 'f'

    def build(self, ev, p, x):
        name, n = p
        i = ev.loop_index(name, ev.constant(n))
        cat = ev.loop_concatenate(ev.Take(x, ev.Range(i + ev.constant(1))), i)
        return ev.astype(ev.Range(cat.shape[0]), float)

    def ref(self, p, v):
        return numpy.arange(p[1] * (p[1] + 1) // 2, dtype=float)


@op('raggedsum')
class _RaggedSum(Op):
    '''loop_sum over l<n of an Inflate whose block size depends on l (the element-loop pattern of assembly):
    sum_l inflate(take(x, Range(l+1)) [* take(x, Range(l+1))[:,None] for variant 1], Range(l+1)+shift_l, m)
    variant 0: vector, dofs Range(l+1);  variant 1: matrix (outer product block), same dofs on both axes;
    variant 2: vector, dofs Range(l+1)+ (n-1-l) (blocks right-aligned, so they overlap differently)'''

    def params(self, t):
        shape, k = t
        if len(shape) != 1 or k != 'f' or shape[0] < 2:
            return []
        return [('r', shape[0], v) for v in (0, 1, 2)]

    def ty(self, p, t):
        shape, k = t
        name, n, v = p
        if len(shape) != 1 or k != 'f' or shape[0] < n:
            raise IllTyped
        return ((n, n) if v == 1 else (n,)), k

    def build(self, ev, p, x):
        name, n, v = p
        i = ev.loop_index(name, ev.constant(n))
        dofs = ev.Range(i + ev.constant(1))
        chunk = ev.Take(x, dofs)
        if v == 2:
            dofs = dofs + (ev.constant(n - 1) - i)
        if v == 1:
            blk = ev.insertaxis(chunk, 1, chunk.shape[0]) * ev.insertaxis(chunk, 0, chunk.shape[0])
            infl = ev._inflate(ev._inflate(blk, dofs, ev.constant(n), 1), dofs, ev.constant(n), 0)
        else:
            infl = ev._inflate(chunk, dofs, ev.constant(n), 0)
        return ev.loop_sum(infl, i)

    def ref(self, p, val):
        name, n, v = p
        out = numpy.zeros((n, n) if v == 1 else (n,))
        for l in range(n):
            c = val[:l + 1]
            if v == 1:
                out[:l + 1, :l + 1] += c[:, None] * c[None, :]
            elif v == 2:
                out[n - 1 - l:n] += c
            else:
                out[:l + 1] += c
        return out


@op('inrange')
class _InRange(Op):
    'InRange(index, n): identity with a run-time range assertion; out-of-range indices are out of domain'

    def params(self, t):
        return [(n,) for n in (2, 3)] if t[1] == 'i' else []

    def ty(self, p, t):
        if t[1] != 'i':
            raise IllTyped
        return t

    def build(self, ev, p, x):
        return ev.InRange(x, ev.constant(p[0]))

    def ref(self, p, v):
        if v.size and (v.min() < 0 or v.max() >= p[0]):
            raise OutOfDomain
        return v.copy()


@op('normdim')
class _NormDim(Op):
    'NormDim(n, index): python-style negative index normalisation, index must lie in [-n, n)'

    def params(self, t):
        return [(n,) for n in (2, 3)] if t[1] == 'i' else []

    def ty(self, p, t):
        if t[1] != 'i':
            raise IllTyped
        return t

    def build(self, ev, p, x):
        n = ev.constant(p[0])
        for k in x.shape:
            n = ev.InsertAxis(n, k)
        return ev.NormDim(n, x)

    def ref(self, p, v):
        if v.size and (v.min() < -p[0] or v.max() >= p[0]):
            raise OutOfDomain
        return numpy.where(v < 0, v + p[0], v)


@op('ravelindex')
class _RavelIndex(Op):
    arity = 2

    def params(self, t1, t2):
        if t1[1] != 'i' or t2[1] != 'i' or len(t1[0]) + len(t2[0]) > 2:
            return []
        return [(2, 3)]

    def ty(self, p, t1, t2):
        if t1[1] != 'i' or t2[1] != 'i':
            raise IllTyped
        return t1[0] + t2[0], 'i'

    def build(self, ev, p, x, y):
        return ev.RavelIndex(x, y, ev.constant(p[0]), ev.constant(p[1]))

    def ref(self, p, v, w):
        return v[(...,) + (None,) * w.ndim] * p[1] + w


@op('sizestooffsets')
class _SizesToOffsets(Op):
    def params(self, t):
        return [()] if t[1] == 'i' and len(t[0]) == 1 else []

    def ty(self, p, t):
        if t[1] != 'i' or len(t[0]) != 1:
            raise IllTyped
        return (t[0][0] + 1,), 'i'

    def build(self, ev, p, x):
        return ev._SizesToOffsets(x)

    def ref(self, p, v):
        if (v < 0).any():
            raise OutOfDomain
        return numpy.concatenate([[0], numpy.cumsum(v)])


@op('argsort')
class _ArgSort(Op):
    def params(self, t):
        return [()] if t[1] in 'if' and len(t[0]) == 1 else []

    def ty(self, p, t):
        if t[1] not in 'if' or len(t[0]) != 1:
            raise IllTyped
        return t[0], 'i'

    def build(self, ev, p, x):
        return ev.ArgSort(x)

    def ref(self, p, v):
        return numpy.argsort(v, kind='stable')


@op('searchsorted')
class _SearchSorted(Op):
    'positions of int values in a constant sorted table'
    tables = ((0, 2, 3), (1,), (-1, 0, 0, 2))

    def params(self, t):
        return [(tb, side) for tb in self.tables for side in ('left', 'right')] if t[1] == 'i' else []

    def ty(self, p, t):
        if t[1] != 'i':
            raise IllTyped
        return t

    def build(self, ev, p, x):
        return ev.SearchSorted(x, ev.constant(numpy.array(p[0], dtype=int)), None, p[1])

    def ref(self, p, v):
        return numpy.searchsorted(numpy.array(p[0]), v, side=p[1])


NDDOFMAPS = {(2, 2): [(((0, 2), (3, 1)), 4), (((1, 1), (0, 2)), 3)], (2, 3): [(((0, 2, 4), (5, 3, 1)), 6)], (2, 2, 2): [((((0, 1), (2, 3)), ((4, 5), (6, 7))), 8), ((((7, 0), (3, 4)), ((1, 6), (5, 2))), 8)],
             (3, 2): [(((0, 1), (2, 3), (4, 5)), 6)]}


@op('inflatend', core=True)
class _InflateND(Op):
    'scatter-add of the trailing k axes through a constant k-dimensional dof map (k = 2, 3)'

    def params(self, t):
        shape, k = t
        if k == 'b':
            return []
        return [(dm, n) for sh, lst in NDDOFMAPS.items() if len(shape) >= len(sh) and tuple(shape[len(shape) - len(sh):]) == sh for dm, n in lst]

    def ty(self, p, t):
        shape, k = t
        dm, n = p
        dsh = numpy.array(dm).shape
        if k == 'b' or len(shape) < len(dsh) or tuple(shape[len(shape) - len(dsh):]) != dsh:
            raise IllTyped
        return shape[:len(shape) - len(dsh)] + (n,), k

    def build(self, ev, p, x):
        return ev.Inflate(x, ev.constant(numpy.array(p[0], dtype=int)), ev.constant(p[1]))

    def ref(self, p, v):
        dm = numpy.array(p[0], dtype=int)
        lead = v.shape[:v.ndim - dm.ndim]
        out = numpy.zeros(lead + (p[1],), dtype=v.dtype)
        for idx in numpy.ndindex(*dm.shape):
            out[..., dm[idx]] = out[..., dm[idx]] + v[(Ellipsis,) + idx]
        return out


@op('takend', core=True)
class _TakeND(Op):
    'gather of the last axis through a constant k-dimensional index array'
    tables = {2: [((0, 1), (1, 0)), ((1, 1, 0), (0, 1, 1))], 3: [((2, 0), (1, 1)), (((0, 1), (2, 0)), ((1, 1), (0, 2)))]}

    def params(self, t):
        shape, k = t
        if not shape or len(shape) > 2:
            return []
        return [(tb,) for tb in self.tables.get(shape[-1], [])]

    def ty(self, p, t):
        shape, k = t
        ix = numpy.array(p[0])
        if not shape or ix.max() >= shape[-1]:
            raise IllTyped
        return shape[:-1] + ix.shape, k

    def build(self, ev, p, x):
        return ev.Take(x, ev.constant(numpy.array(p[0], dtype=int)))

    def ref(self, p, v):
        return v[..., numpy.array(p[0], dtype=int)]


@op('argsum')
class _ArgSum(Op):
    '''loop sums whose LENGTH is an argument (n, int scalar in [0,3]):
    variant 0: sum_{l<n} (l+1)           argument-free body, the loop depends on n only through its length
    variant 1: sum_{l<n} x[l]            body uses the operand
    variant 2: x * sum_{l<n} (l+1)       argument-free loop used by an argument-dependent expression'''

    def params(self, t):
        return [(v,) for v in (0, 1, 2)] if t == ((3,), 'f') else []

    def ty(self, p, t):
        if t != ((3,), 'f'):
            raise IllTyped
        return ((3,) if p[0] == 2 else ()), 'f'

    def build(self, ev, p, x):
        n = ev.InRange(ev.Argument('n', (), int), ev.constant(4))
        i = ev.loop_index('q', n)
        if p[0] == 1:
            return ev.loop_sum(ev.get(x, 0, i), i)
        total = ev.loop_sum(ev.astype(i + ev.constant(1), float), i)
        return total if p[0] == 0 else x * ev.insertaxis(total, 0, ev.constant(3))

    def ref(self, p, v):
        raise NotImplementedError   # needs the environment: handled in ref()


# ------------------------------------------------------------------ interpretation

def typeof(term, _memo=None):
    o = OPS[term[0]]
    return o.ty(term[1], *[typeof(c) for c in term[2:]])


def build(term, memo=None):
    'the real nutils node; memo shares python-identical subterms (nutils interns the rest)'
    from nutils import evaluable as ev
    if memo is None:
        memo = {}
    if term in memo:
        return memo[term]
    o = OPS[term[0]]
    r = o.build(ev, term[1], *[build(c, memo) for c in term[2:]])
    memo[term] = r
    return r


def ref(term, env, memo=None):
    '''reference value; env maps argument names to ndarrays and loop-index names to ints'''
    if memo is None:
        memo = {}
    key = term
    if key in memo:
        return memo[key]
    name, p = term[0], term[1]
    if name == 'arg':
        r = numpy.asarray(env[p[0]])
    elif name == 'loopidx':
        r = numpy.array(env['@' + p[0]], dtype=numpy.int64)
    elif name == 'loopsum':
        lname, length = p
        body = term[2]
        shape, kind = typeof(body)
        r = numpy.zeros(shape, dtype=npdtype(kind))
        for i in range(length):
            r = r + ref(body, dict(env, **{'@' + lname: i}), None if freevars(body) else memo)
    elif name == 'argsum':
        x = ref(term[2], env, memo)
        n = int(env['n'])
        if not 0 <= n <= 3:
            raise OutOfDomain
        tot = float(sum(l + 1 for l in range(n)))
        r = numpy.asarray(tot if p[0] == 0 else x[:n].sum() if p[0] == 1 else x * tot)
    elif name == 'loopcat':
        lname, length = p
        body = term[2]
        r = numpy.concatenate([ref(body, dict(env, **{'@' + lname: i})) for i in range(length)], axis=-1)
    else:
        vals = [ref(c, env, memo) for c in term[2:]]
        with numpy.errstate(all='ignore'):
            r = numpy.asarray(OPS[name].ref(p, *vals))
    shape, kind = typeof(term)
    if r.shape != tuple(shape):
        raise AssertionError('reference interpreter: {} has shape {} but type says {}'.format(term[0], r.shape, shape))
    r = r.astype(npdtype(kind), copy=False)
    if not freevars(term):
        memo[key] = r
    return r


_fv_cache = {}


def freevars(term):
    'names of loop indices that occur free'
    r = _fv_cache.get(term)
    if r is None:
        if term[0] == 'loopidx':
            r = frozenset([term[1][0]])
        elif term[0] in ('loopsum', 'loopcat'):
            r = freevars(term[2]) - {term[1][0]}
        else:
            r = frozenset().union(*[freevars(c) for c in term[2:]]) if len(term) > 2 else frozenset()
        if len(_fv_cache) < 200000:
            _fv_cache[term] = r
    return r


def arguments(term, acc=None):
    'dict name -> (shape, kind) of the arg leaves'
    if acc is None:
        acc = {}
    if term[0] == 'arg':
        acc[term[1][0]] = (tuple(term[1][1]), term[1][2])
    if term[0] == 'argsum':
        acc['n'] = ((), 'i')
    for c in term[2:]:
        arguments(c, acc)
    return acc


def size(term):
    return 1 + sum(size(c) for c in term[2:])


def depth(term):
    return 1 + max([depth(c) for c in term[2:]], default=0) if len(term) > 2 else 0


def subterms(term, acc=None):
    if acc is None:
        acc = []
    for c in term[2:]:
        subterms(c, acc)
    acc.append(term)
    return acc


def to_json(term):
    return [term[0], _listify(term[1])] + [to_json(c) for c in term[2:]]


def from_json(j):
    return (j[0], _tuplify(j[1])) + tuple(from_json(c) for c in j[2:])


def _listify(x):
    if isinstance(x, (list, tuple)):
        return [_listify(i) for i in x]
    return x


def show(term):
    p = ','.join(_fmt(x) for x in term[1])
    if term[0] == 'arg':
        return term[1][0]
    if term[0] == 'loopidx':
        return '@' + term[1][0]
    if term[0] == 'const':
        return 'const' + str(term[1][0]).replace(' ', '')
    kids = ','.join(show(c) for c in term[2:])
    return '{}{}({})'.format(term[0], '[' + p + ']' if p else '', kids)


def _fmt(x):
    return str(x).replace(' ', '')


# ------------------------------------------------------------------ leaves and valuations

def A(name, shape, kind='f'):
    return ('arg', (name, tuple(shape), kind))


FLOAT_LEAVES = [A('s', ()), A('a', (2,)), A('b', (3,)), A('A', (2, 2)), A('B', (2, 3)), A('C', (3, 3)), A('T', (2, 2, 2))]
INT_LEAVES = [A('I', (2,), 'i')]
BOOL_LEAVES = [A('p', (2,), 'b')]
COMPLEX_LEAVES = [A('z', (2,), 'c')]
CONST_LEAVES = [('const', (2., 'f')), ('const', ((1., 2.), 'f')), ('const', (((1., 2.), (3., 4.)), 'f')),
                ('zeros', ((2,), 'f')), ('ones', ((2, 2), 'f')), ('range', (3,)), ('const', ((1, 0), 'i')), ('zeros', ((2, 0), 'f'))]

_SEQ = [1.25, .75, 2., .5, 1.5, 2.25, .875, 1.125, 1.75, .625, 1.375, 2.125, .375, 1.625, 2.375, 1.0625, .5625, 1.9375,
        .8125, 1.3125, 2.0625, .6875, 1.4375, 2.3125, 1.1875, .4375, 1.6875]


def float_value(name, shape, vset):
    'fixed dyadic valuations; square trailing axes are made diagonally dominant so inverses are well conditioned'
    n = int(numpy.prod(shape)) if shape else 1
    off = sum(ord(c) for c in name) % 7
    v = numpy.array([_SEQ[(off + 3 * k) % len(_SEQ)] + .03125 * ((off + k) % 5) for k in range(n)]).reshape(shape)
    if vset == 1:   # mixed sign
        sgn = numpy.array([1 if (k * 5 + off) % 3 else -1 for k in range(n)]).reshape(shape)
        v = v * sgn
    elif vset == 2:  # large / small mix
        sc = numpy.array([(.25, 1., 2.)[(k + off) % 3] for k in range(n)]).reshape(shape)
        v = v * sc
    # every pair of equal-length axes gets a dominant diagonal, so that inverses over any axis pair are well conditioned
    for i in range(len(shape)):
        for j in range(i + 1, len(shape)):
            if shape[i] == shape[j] and shape[i] > 1:
                e = numpy.eye(shape[i]).reshape([shape[i] if k in (i, j) else 1 for k in range(len(shape))])
                v = v + 4. * e
    return v


def valuations(args, nsets=3, exhaustive_int=True, int_values=(0, 1), zero_first=False):
    '''list of env dicts: float/complex arguments take the fixed sets 0..nsets-1, int index arguments and bool
    arguments are enumerated exhaustively over {0,1} per entry (valid as index for every axis of length >= 2)'''
    floats = {n: t for n, t in args.items() if t[1] in 'fc'}
    discrete = {n: t for n, t in args.items() if t[1] in 'bi'}
    combos = [{}]
    for n, (shape, kind) in sorted(discrete.items()):
        m = int(numpy.prod(shape)) if shape else 1
        domain = (0, 1) if kind == 'b' else int_values
        if m > 4:   # large index arrays: a fixed family of patterns instead of the full product
            pats = [[domain[(k * a + b) % len(domain)] for k in range(m)] for a, b in ((0, 0), (0, 1), (1, 0), (1, 1), (3, 1))]
            vals = [numpy.array(pt, dtype=npdtype(kind)).reshape(shape) for pt in pats]
        else:
            vals = [numpy.array(bits, dtype=npdtype(kind)).reshape(shape) for bits in itertools.product(domain, repeat=m)]
        if not exhaustive_int:
            vals = vals[1:3] if len(vals) > 2 else vals
        combos = [dict(c, **{n: v}) for c in combos for v in vals]
    envs = []
    for vset in range(nsets):
        base = {}
        for n, (shape, kind) in floats.items():
            v = float_value(n, shape, vset)
            if kind == 'c':
                v = v + 1j * float_value(n + 'i', shape, (vset + 1) % 3)
            base[n] = v
        for c in combos:
            envs.append(dict(base, **c))
    if zero_first and floats:
        # one more valuation with an EXACT zero in the first entry of every float argument (0**0, x*0, ... are in the domain of polynomials)
        base = {}
        for n, (shape, kind) in floats.items():
            v = numpy.array(float_value(n, shape, 0), dtype=float if kind == 'f' else complex)
            v.reshape(-1)[:1] = 0
            base[n] = v
        for c in combos[:1]:
            envs.append(dict(base, **c))
    return envs


LOOP_L = ('loopidx', ('l', 3))
LOOP_M = ('loopidx', ('m', 2))


def loop_leaves(idx=LOOP_L):
    'loop-dependent leaves for loop bodies'
    b = A('b', (3,)) if idx[1][1] == 3 else A('a', (2,))
    B = A('C', (3, 3)) if idx[1][1] == 3 else A('A', (2, 2))
    return [('getl', (0,), b, idx),                       # scalar b[l]
            ('getl', (0,), B, idx),                       # row B[l]
            ('tofloat', (), idx),                         # float(l)
            ('add', (), ('range', (2,)), idx),            # int vector Range(2)+l : dofmap / gather index
            ('multiply', (), A('a', (2,)), ('tofloat', (), idx))]   # a*l


def closures(term):
    'all ways to bind the free loop indices of a term (sum / concatenate), innermost name first'
    fv = sorted(freevars(term))
    if not fv:
        yield term
        return
    name = fv[0]
    length = {'l': 3, 'm': 2}[name]
    shape, kind = typeof(term)
    outs = []
    if kind != 'b':
        outs.append(('loopsum', (name, length), term))
    if shape:
        outs.append(('loopcat', (name, length), term))
    for o in outs:
        yield from closures(o)


# ------------------------------------------------------------------ enumeration

def unary_apps(t, ops=None):
    'all (opname, params) applicable to a term of type ty(t)'
    ty = typeof(t)
    for name, o in OPS.items():
        if o.arity != 1 or (ops is not None and name not in ops) or name in ('loopsum', 'loopcat'):
            continue
        for p in o.params(ty):
            yield (name, _tuplify(p), t)


def binary_apps(t1, t2, ops=None):
    ty1, ty2 = typeof(t1), typeof(t2)
    for name, o in OPS.items():
        if o.arity != 2 or (ops is not None and name not in ops):
            continue
        for p in o.params(ty1, ty2):
            yield (name, _tuplify(p), t1, t2)


CORE = sorted(n for n, o in OPS.items() if o.core)


def level0(kinds='f', consts=True):
    out = []
    if 'f' in kinds:
        out += FLOAT_LEAVES
    if 'i' in kinds:
        out += INT_LEAVES
    if 'b' in kinds:
        out += BOOL_LEAVES
    if 'c' in kinds:
        out += COMPLEX_LEAVES
    if consts:
        out += CONST_LEAVES
    return out


def grow(terms, leaves, ops=None, binary=True):
    '''one more constructor on top of `terms`: every unary application; binary applications to
    (t, leaf), (leaf, t), (t, t) and to siblings that share a child'''
    for t in terms:
        yield from unary_apps(t, ops)
    if not binary:
        return
    bykid = {}
    for t in terms:
        for l in leaves:
            yield from binary_apps(t, l, ops)
            if l != t:
                yield from binary_apps(l, t, ops)
        if t not in leaves:
            yield from binary_apps(t, t, ops)
        if len(t) == 3:
            bykid.setdefault(t[2], []).append(t)
    for kid, sibs in bykid.items():
        for i, t1 in enumerate(sibs):
            for t2 in sibs[i + 1:i + 4]:
                yield from binary_apps(t1, t2, ops)
