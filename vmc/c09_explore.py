'''C09 part (a): menus of operations and the explicit-state explorer.'''

import itertools, json
import numpy
from . import c09_model as M
from . import core


def probe_elements(n, k):
    'at most k element numbers of an n-element sample: first, second, last, middle'
    cand = [0, 1, n - 1, n // 2]
    out = []
    for c in cand:
        if 0 <= c < n and c not in out:
            out.append(c)
    return sorted(out[:k]) if n > k else list(range(n))


def menu(mod, smp, level):
    '''operations applicable to a state.  level 'full': the complete parameter alphabet;
    level 'core': one to three representative parameters per operation kind.'''
    full = level == 'full'
    ops = []
    names = mod.names
    free = [k for k in M.KINDS if k not in names]
    n, npts = mod.nelems, mod.npoints
    # product with a base sample living in a space the state does not have
    if len(names) < 3:
        if full:
            for k in free:
                for b in M.BASES:
                    if b[0] == k:
                        ops.append(['mul', b])
                        ops.append(['rmul', b])
        elif free:
            k = free[0]
            ops.append(['mul', {'X': 'Xg2', 'Y': 'Yg1', 'Z': 'Zu2'}[k]])
            ops.append(['rmul', {'X': 'Xu2', 'Y': 'Yg2', 'Z': 'Zg1'}[free[-1]]])
    # sum with a sample on the same spaces
    ops.append(['addself'])
    if full:
        ops.append(['add', 'b2'])
        ops.append(['radd', 'g1'])
        ops.append(['add', 'u2'])
        ops.append(['radd', 'g2'])
    # take_elements: every ordered selection without repetition of <= 3 of the probe elements
    if n:
        if full:
            probe = probe_elements(n, 4)
            for r in (1, 2, 3):
                for sel in itertools.permutations(probe, r):
                    ops.append(['take', list(sel)])
        else:
            sels = [[n - 1]]
            if n >= 3:
                sels.append([n - 1, 0, 1])
            elif n == 2:
                sels.append([1, 0])
            for sel in sels:
                ops.append(['take', sel])
    # subset: masks over the result indices
    if npts:
        masks = [list(range(0, npts, 2))] if npts > 1 else [[0]]
        if full:
            masks += [[0], [npts - 1], [], [npts // 2, npts - 1]]
        seen = []
        for m in masks:
            if m not in seen:
                seen.append(m)
                ops.append(['subset', m])
    # zip with a located sample (weights given) in a free space, on either side
    if npts and free:
        if full:
            for k in free:
                ops.append(['zip', k, 'right'])
                ops.append(['zip', k, 'left'])
        else:
            ops.append(['zip', free[0], 'right'])
            ops.append(['zip', free[-1], 'left'])
    # custom index permutations (samples on a single topology only)
    if M.is_chain(smp) and npts >= 2:
        for p in (['reverse', 'rotate', 'swap01', 'interleave'] if full else ['reverse']):
            ops.append(['cidx', p])
    # rename_spaces: to a fresh name, onto a free base name, swap of the first two
    ops.append(['rename', [[names[0], 'U']]]) if 'U' not in names else None
    if full:
        if free:
            ops.append(['rename', [[names[-1], free[0]]]])
        if len(names) >= 2:
            ops.append(['rename', [[names[0], names[1]], [names[1], names[0]]]])
    return [op for op in ops if op is not None]


def fix_salt(op, depth):
    'zip operands at different positions of a history use different target points'
    if op[0] == 'zip':
        return op[:3] + [depth]
    return op


DEEP = True   # False: count states without compiling anything (calibration only)


class Failure(Exception):
    def __init__(self, kind, what, sig):
        self.kind, self.what, self.sig = kind, what, sig


def step(smp, mod, op, seen=None, integral=True):
    '''apply op and run the oracle.  returns (sample, model, note).  Raises Failure.
    note is a string when the implementation chose one of the permitted alternatives, and
    'seen' when the resulting sample object was verified before against an equal model
    (nutils samples are interned: structurally equal samples are one object).'''
    try:
        smp2, mod2 = M.apply_op(smp, mod, op)
    except M.Mismatch as e:
        raise Failure(e.kind, e.what, op[0])
    except M.HarnessProblem:
        raise
    except NotImplementedError as e:
        raise Failure('unsupported:' + M.root_cause(e), 'NotImplementedError in {} while applying {}'.format(M.root_cause(e), op), op[0])
    except Exception as e:
        raise Failure('raise:{}:{}'.format(type(e).__name__, M.root_cause(e)), '{!r} while applying {}'.format(e, op), op[0])
    if seen is not None and seen.get(smp2, (None,))[0] == mod2.key():
        obs = M.conform(smp2, mod2, deep=False)
        if obs:
            raise Failure(obs[0], obs[1], M.typesig(smp2, 1))
        return smp2, mod2, 'seen'
    memo = {}
    obs = M.conform(smp2, mod2, deep=DEEP, integral=integral, memo=memo)
    note = None
    if obs and op[0] == 'take' and obs[0] in ('eval', 'integrate', 'getindex') and list(op[1]) != sorted(op[1]):
        # the property does not fix the element order of a non-monotone take_elements: accept any
        # permutation of the requested elements, provided the sample is consistent with it
        for alt in itertools.permutations(op[1]):
            if list(alt) == list(op[1]):
                continue
            mod3 = mod.take(list(alt))
            if M.conform(smp2, mod3, deep=DEEP, integral=integral, memo=memo) is None:
                mod2, obs = mod3, None
                note = 'take_elements({}) of {} returned the elements in the order {}'.format(op[1], M.typesig(smp, 1), list(alt))
                break
    if obs:
        raise Failure(obs[0], obs[1], M.typesig(smp2, 1))
    return smp2, mod2, note


def run_history(bname, ops):
    'replay: returns None or the failure description'
    try:
        smp, mod = M.base(bname)
    except M.Mismatch as e:
        return 'base sample {}: {}'.format(bname, e.what)
    obs = M.conform(smp, mod)
    if obs:
        return 'base sample {}: {}'.format(bname, obs[1])
    for i, op in enumerate(ops):
        try:
            smp, mod, note = step(smp, mod, op)
        except Failure as f:
            return '{}: {}'.format(M.describe(bname, ops[:i + 1]), f.what)
    return None


def explore(bname, smp, mod, ops_so_far, levels, res, seen, first=None):
    'depth-first over operation sequences; levels[d] is the menu level of the d-th next operation'
    if not levels:
        return
    d = len(ops_so_far)
    for op in (menu(mod, smp, levels[0]) if first is None else first):
        op = fix_salt(op, d)
        ops = ops_so_far + [op]
        res.count('transitions')
        try:
            smp2, mod2, note = step(smp, mod, op, seen, integral=len(ops) <= 2)
        except Failure as f:
            res.count('evaluations')
            key = f.kind if f.kind.startswith(('unsupported:', 'raise:')) else '{}:{}'.format(f.kind, f.sig)
            res.violation(key, '{}: {}'.format(M.describe(bname, ops), f.what), {'part': 'a', 'base': bname, 'ops': ops})
            continue
        res.count('traces_validated_against_impl')
        rest = tuple(levels[1:])
        if note == 'seen':
            # verified before; expand again only if it was never expanded with at least these remaining levels
            done = seen[smp2][1]
            if not any(covers(prev, rest) for prev in done):
                done.add(rest)
                explore(bname, smp2, mod2, ops, levels[1:], res, seen)
            continue
        res.count('evaluations')
        if note:
            res.distinct('distinct_outcomes', 'note:' + note)
            res.count('element_order_alternatives')
        key = mod2.key()
        seen[smp2] = (key, {rest})
        res.count('states')
        res.maximum('max_depth', len(ops))
        res.maximum('max_npoints', mod2.npoints)
        res.distinct('distinct_nontrivial', key + M.typesig(smp2, 9))
        res.distinct('distinct_outcomes', M.typesig(smp2, 3))
        if (len(ops) == 3 or not res.samples) and mod2.npoints and mod2.nelems > 1:
            res.sample({'sample': M.describe(bname, ops), 'type': M.typesig(smp2, 3), 'nelems': mod2.nelems, 'npoints': mod2.npoints,
                        'index': [[i for l, w, i in e] for e in mod2.elems][:4], 'sum_wF': [round(float(v), 9) for v in mod2.integral()]})
        explore(bname, smp2, mod2, ops, levels[1:], res, seen)


def covers(prev, rest):
    'an expansion with remaining levels `prev` includes the one with `rest` (full includes core)'
    rank = {'core': 0, 'full': 1}
    return len(prev) >= len(rest) and all(rank[p] >= rank[r] for p, r in zip(prev, rest))
