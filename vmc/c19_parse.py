'''C19: an independent reader of the documented expression grammars.

parse(string, version) returns the abstract syntax tree (c19_ast) of a string
that is derivable from the documented grammar, or raises c19_ast.Reject with
the first rule that the string CERTAINLY violates (R3 unknown name, R4
misplaced number / whitespace, R5 unbalanced brackets) or 'other' when it is
not derivable but none of the listed rules certainly applies.  Index rules (R1,
R2) are decided afterwards by c19_ast.check on the tree.

Written from the module docstrings of nutils.expression_v1/v2 only; it shares no
code with those modules.
'''

from .c19_ast import Reject, FUNCS_V1, FUNCS_V2, BUILTIN_FUNCS
from . import c19_ns as NS

OPEN = {'(': ')', '[': ']', '{': '}', '<': '>'}
CLOSE = {v: k for k, v in OPEN.items()}


def check_brackets(s, version):
    stack = []
    for ch in s:
        if ch in '<>' and version == 2:
            raise Reject('other', 'symbol {!r} has no meaning in v2'.format(ch))
        if ch in OPEN:
            stack.append(ch)
        elif ch in CLOSE:
            if not stack or stack[-1] != CLOSE[ch]:
                raise Reject('R5', 'unbalanced {!r}'.format(ch))
            stack.pop()
    if stack:
        raise Reject('R5', 'unclosed {!r}'.format(stack[-1]))


def _isalpha1(ch):
    return ('a' <= ch <= 'z') or ('A' <= ch <= 'Z') or ('α' <= ch <= 'ω') or ('Α' <= ch <= 'Ω')


def _isdigit(ch):
    return '0' <= ch <= '9'


V2_NAME_STOP = set(' _()[]{}<>^')


class Parser:

    def __init__(self, s, version):
        self.s = s
        self.v = version
        self.i = 0

    # -- character level
    def peek(self, k=0):
        j = self.i + k
        return self.s[j] if j < len(self.s) else ''

    def eof(self):
        return self.i >= len(self.s)

    def ws(self):
        n = 0
        while self.peek() == ' ':
            self.i += 1
            n += 1
        return n

    def other(self, why):
        raise Reject('other', '{} at {}'.format(why, self.i))

    # -- grammar
    def top(self):
        e = self.expr('')
        if not self.eof():
            self.other('unexpected symbol')
        return e

    def expr(self, closers):
        self.ws()
        neg = False
        if self.peek() == '-':
            neg = True
            self.i += 1
            self.ws()
        operands = [self.frac(closers)]
        signs = ['-' if neg else '']
        while True:
            n = self.ws()
            ch = self.peek()
            if ch == '' or ch in closers:
                break
            if ch in '+-':
                if n == 0:
                    raise Reject('R4', 'operator {} is not preceded by whitespace'.format(ch))
                self.i += 1
                if self.eof():
                    self.other('dangling operator')
                if self.ws() == 0:
                    raise Reject('R4', 'operator {} is not followed by whitespace'.format(ch))
                signs.append(ch)
                operands.append(self.frac(closers))
                continue
            self.other('unexpected symbol')
        if len(operands) == 1 and not neg:
            return operands[0]
        return ('add', signs, operands)

    def frac(self, closers):
        t = self.term(closers)
        save = self.i
        n = self.ws()
        if self.peek() == '/':
            if n == 0:
                raise Reject('R4', 'operator / is not preceded by whitespace')
            self.i += 1
            if self.eof():
                self.other('dangling operator')
            if self.ws() == 0:
                raise Reject('R4', 'operator / is not followed by whitespace')
            d = self.term(closers)
            return ('frac', t, d)
        self.i = save
        return t

    def term(self, closers):
        factors = [self.power(closers, True)]
        while True:
            save = self.i
            n = self.ws()
            ch = self.peek()
            if ch == '' or ch in closers:
                self.i = save
                break
            if ch in '+-/':
                if n == 0:
                    raise Reject('R4', 'operator {} is not preceded by whitespace'.format(ch))
                self.i = save
                break
            if ch == '^' and n:
                raise Reject('R4', 'whitespace before ^')
            if n == 0:
                prev = factors[-1]
                if prev[0] == 'num' and (_isalpha1(ch)):
                    raise Reject('R4', 'number directly followed by a name')
                self.other('unexpected symbol after an item')
            if _isdigit(ch) or (ch == '.' and _isdigit(self.peek(1))):
                raise Reject('R4', 'number in a non-leading position of a term')
            factors.append(self.power(closers, False))
        if len(factors) == 1:
            return factors[0]
        return ('mul', factors)

    def power(self, closers, first):
        item = self.item(closers, first)
        if self.peek() != '^':
            return item
        self.i += 1
        ch = self.peek()
        if ch == ' ':
            raise Reject('R4', 'whitespace after ^')
        if ch == '(':
            self.i += 1
            e = self.expr(')')
            if self.peek() != ')':
                self.other('exponent not closed')
            self.i += 1
            exponent = ('scope', e)
        elif ch == '-' or _isdigit(ch):
            j = self.i + (1 if ch == '-' else 0)
            k = j
            while k < len(self.s) and _isdigit(self.s[k]):
                k += 1
            if k == j:
                self.other('exponent is not an integer')
            text = self.s[self.i:k]
            digits = self.s[j:k]
            if len(digits) > 1 and digits[0] == '0':
                self.other('leading zero')
            self.i = k
            exponent = ('int', text)
        else:
            self.other('exponent is neither an integer nor a compound')
        nxt = self.peek()
        if nxt and nxt != ' ' and nxt not in closers:
            self.other('symbols after an exponent')
        return ('pow', item, exponent)

    def number(self):
        j = self.i
        s = self.s
        k = j
        while k < len(s) and _isdigit(s[k]):
            k += 1
        nint = k - j
        if k < len(s) and s[k] == '.':
            k += 1
            m = k
            while k < len(s) and _isdigit(s[k]):
                k += 1
            if nint == 0 and k == m:
                self.other('lone dot')
            if nint and k == m:
                self.other('number ending in a dot')       # '1.' : not one of the documented forms
        text = s[j:k]
        if nint > 1 and text[0] == '0':
            self.other('leading zero')
        self.i = k
        nxt = self.peek()
        if nxt in ('e', 'E') or nxt == '.' or nxt == '_':
            self.other('number followed by {!r}'.format(nxt))
        return ('num', text)

    def indices(self):
        'the run of index characters after an underscore'
        j = self.i
        s = self.s
        k = j
        while k < len(s) and (('a' <= s[k] <= 'z') or _isdigit(s[k]) or (self.v == 1 and 'A' <= s[k] <= 'Z')):
            k += 1
        self.i = k
        return s[j:k]

    def name(self):
        j = self.i
        s = self.s
        k = j
        if self.v == 2:
            while k < len(s) and s[k] not in V2_NAME_STOP:
                k += 1
        else:
            while k < len(s) and (_isalpha1(s[k]) or (k > j and _isdigit(s[k]))):
                k += 1
        self.i = k
        return s[j:k]

    def bracketed(self, opener):
        self.i += 1
        e = self.expr(OPEN[opener])
        if self.peek() != OPEN[opener]:
            self.other('bracket not closed')
        self.i += 1
        return e

    def comma(self):
        'a separating comma must be followed by whitespace; a comma glued between indices and an index could also be read as a gradient'
        j = self.i
        self.i += 1
        if self.peek() == ' ':
            return
        k = j
        while k > 0 and (self.s[k - 1].isalnum()):
            k -= 1
        if self.peek().isalnum() and k > 0 and self.s[k - 1] == '_':
            self.other('comma that may be a gradient')
        raise Reject('R4', 'comma is not followed by whitespace')

    def arglist(self, closer, what):
        'comma separated expressions up to the closer (v1); the opener has been consumed'
        args = []
        self.ws()
        if self.peek() == closer:
            self.other('empty ' + what)
        while True:
            args.append(self.expr(closer + ','))
            if self.peek() == ',':
                self.comma()
                continue
            break
        if self.peek() != closer:
            self.other(what + ' not closed')
        self.i += 1
        return args

    def item(self, closers, first):
        ch = self.peek()
        v = self.v
        if ch == '':
            self.other('expected an item')
        if _isdigit(ch) or ch == '.':
            return self.number()
        if ch in '([{':
            e = self.bracketed(ch)
            node = ({'(': 'scope', '[': 'jump', '{': 'mean'}[ch], e)
            if v == 1 and ch == '(':
                node = self.v1_suffix(node)
            else:
                if self.peek() == '_':
                    self.other('indices on a compound')
                if self.peek() == '(':
                    self.other('call of a compound')
            return node
        if v == 1 and ch == '<':
            self.i += 1
            args = self.arglist('>', 'stack')
            if self.peek() != '_':
                self.other('stack without index')
            self.i += 1
            idx = self.indices()
            if not idx:
                self.other('stack without index')
            return ('stack', args, idx)
        if v == 1 and ch == '?':
            self.i += 1
            if not _isalpha1(self.peek()):
                self.other('argument without a name')
            name = self.name()
            idx = ''
            if self.peek() == '_':
                self.i += 1
                idx = self.indices()
                if not idx:
                    self.other('missing indices')
            return self.v1_suffix(('arg', name, idx), allow_grad=False)
        if v == 1 and ch in '$δ':
            self.i += 1
            idx = ''
            if self.peek() == '_':
                self.i += 1
                idx = self.indices()
                if not idx:
                    self.other('missing indices')
            nxt = self.peek()
            if nxt and nxt != ' ' and nxt not in closers and nxt != '^':
                self.other('symbols after the dirac')
            return ('eye', ch, idx)
        if v == 1 and not _isalpha1(ch):
            self.other('unexpected symbol')
        if v == 2 and ch in V2_NAME_STOP:
            self.other('unexpected symbol')
        name = self.name()
        if v == 2:
            for op in '+-/':
                if op in name:
                    raise Reject('R4', 'operator {} is not surrounded by whitespace'.format(op))
            if not (_isalpha1(name[0])) or not all(_isalpha1(c) or _isdigit(c) for c in name):
                # "a string of characters": legal as a name, but certainly not one that exists in the namespace
                raise Reject('R3', 'unknown name {!r}'.format(name))
        if v == 1 and name == 'd' and self.s.startswith(':x', self.i) and not (_isalpha1(self.peek(2)) or _isdigit(self.peek(2)) or self.peek(2) in ('_', ':', '(')):
            self.i += 2
            return ('jac',)
        idx = ''
        gradkind = gradidx = ''
        if self.peek() == '_':
            self.i += 1
            idx = self.indices()
            if v == 1 and self.peek() in (',', ';') and (self.peek(1).isalnum()):
                gradkind = self.peek()
                self.i += 1
                gradidx = self.indices()
            elif not idx:
                self.other('missing indices')
        cons = ''
        if v == 1 and self.peek() == ':':
            j = self.i + 1
            k = j
            while k < len(self.s) and 'a' <= self.s[k] <= 'z':
                k += 1
            if k == j or self.s[k:k + 1] != '(' or gradkind:
                self.other('colon')
            cons = self.s[j:k]
            self.i = k
        if self.peek() == '(':
            if v == 2:
                known = name in FUNCS_V2 or name in BUILTIN_FUNCS
                if not known and (name in NS.SHAPES or name in ('x', 'n')):
                    self.other('variable called as a function')
                if not known:
                    raise Reject('R3', 'unknown function {!r}'.format(name))
                e = self.bracketed('(')
                node = ('call', name, idx, '', [e])
                if self.peek() == '_' or self.peek() == '(':
                    self.other('symbols after a call')
                return node
            if name in NS.SHAPES or name == 'x':
                # v1: a variable followed by a substitution
                if cons:
                    self.other('consumed indices on a variable')
                node = ('var', name, idx)
                if gradkind:
                    node = ('grad', node, gradkind, gradidx)
                return self.v1_suffix(node, allow_grad=False)
            if gradkind:
                self.other('gradient between a function name and its arguments')
            if name == 'n':
                self.other('n(...) is outside the modelled grammar')
            if name not in FUNCS_V1 and name not in BUILTIN_FUNCS:
                raise Reject('R3', 'unknown function {!r}'.format(name))
            self.i += 1
            args = self.v1_callargs()
            node = ('call', name, idx, cons, args)
            return self.v1_suffix(node, allow_grad=False, allow_subs=False)
        # a variable
        if v == 1 and name == 'n':
            node = ('normal', idx)
            if gradkind:
                self.other('gradient of the normal')
            nxt = self.peek()
            if nxt and nxt != ' ' and nxt not in closers and nxt != '^':
                self.other('symbols after the normal')
            return node
        node = ('var', name, idx)
        if gradkind:
            node = ('grad', node, gradkind, gradidx)
        nxt = self.peek()
        if nxt and nxt != ' ' and nxt not in closers and nxt != '^':
            if nxt in '+-/':
                raise Reject('R4', 'operator {} is not preceded by whitespace'.format(nxt))
            self.other('symbols after a variable')
        return node

    def v1_callargs(self):
        'arguments of a v1 function call: either one variable with omitted indices (sum(u)) or expressions'
        save = self.i
        self.ws()
        j = self.i
        if _isalpha1(self.peek()):
            name = self.name()
            k = self.i
            self.ws()
            if self.peek() == ')' and name in NS.SHAPES and NS.SHAPES[name]:
                self.i += 1
                return [('omit', name)]
        self.i = save
        return self.arglist(')', 'argument list')

    def v1_suffix(self, node, allow_grad=True, allow_subs=True):
        'gradient of a compound `(...)_,i` and substitution `item(arg = value, ...)`'
        if allow_grad and self.peek() == '_':
            if self.peek(1) in (',', ';') and self.peek(2).isalnum():
                kind = self.peek(1)
                self.i += 2
                idx = self.indices()
                node = ('grad', node, kind, idx)
            else:
                self.other('indices on a compound')
        if self.peek() == '(':
            if not allow_subs:
                self.other('call of a call')
            self.i += 1
            subs = []
            self.ws()
            while True:
                if not _isalpha1(self.peek()):
                    self.other('expected an argument name')
                name = self.name()
                idx = ''
                if self.peek() == '_':
                    self.i += 1
                    idx = self.indices()
                    if not idx:
                        self.other('missing indices')
                self.ws()
                if self.peek() != '=':
                    self.other('expected =')
                self.i += 1
                e = self.expr('),')
                subs.append([name, idx, e])
                if self.peek() == ',':
                    self.comma()
                    self.ws()
                    continue
                break
            if self.peek() != ')':
                self.other('substitution not closed')
            self.i += 1
            node = ('subs', node, subs)
            if self.peek() in ('(', '_'):
                self.other('symbols after a substitution')
        return node


def parse(s, version):
    check_brackets(s, version)
    for ch in s:
        if ch != ' ' and ch.isspace():
            raise Reject('other', 'whitespace other than the space character')
    return Parser(s, version).top()
