'''framework self-tests (run by setup.sh): evidence validator, shard merging, pool crash detection'''
from . import core


def main():
    r = core.ShardResult()
    r.count('evaluations', 3)
    r.distinct('distinct_nontrivial', 'a')
    r.distinct('distinct_nontrivial', 'b')
    r.sample({'x': 1})
    r2 = core.ShardResult.unpack(r.pack())
    r2.merge(r)
    cov = r2.coverage()
    assert cov['evaluations'] == 6 and cov['distinct_nontrivial'] == 2, cov
    cov['rule'] = 'x'
    ev = {'property_id': 'X', 'tier': 'quick', 'seed': 0, 'level': 'exploration', 'coverage': cov, 'wall_s': 1.}
    assert not core.validate_evidence(ev), core.validate_evidence(ev)
    ev['coverage'] = dict(cov, distinct_nontrivial=1)
    assert core.validate_evidence(ev)
    assert core.seeded_order(5, 0) == [0, 1, 2, 3, 4] and sorted(core.seeded_order(5, 3)) == [0, 1, 2, 3, 4]
    print('selftest ok')


if __name__ == '__main__':
    main()
