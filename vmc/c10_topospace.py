'''Topology history space: rebuild a (topology, geometry) pair from a JSON history.

A history is ``{'mesh': <name>, 'ops': [op, ...]}`` with every op a JSON list:

  ['refined']                         topo.refined
  ['refine_spaces', ['X']]            topo.refine_spaces([...])           (product topologies: per-space refinement)
  ['refined_by', [i, ...]]            topo.refined_by(indices)
  ['take', [i, ...]]                  topo.take(indices)
  ['compress', [bool, ...]]           topo.compress(mask)
  ['slice', [start, stop, step], dim] topo.slice(slice(start, stop, step), dim)
  ['group', name]                     topo[name]
  ['boundary'] / ['interfaces']       topo.boundary / topo.interfaces
  ['union', [A], [B]]                 topo.take(A) | topo.take(B)
  ['diff', [A]]                       topo - topo.take(A)
  ['mul']                             topo * line(2, space 'Y'), geometry extended with the new coordinate
  ['trim', a, c, maxrefine]           topo.trim(a.x - c, maxrefine=maxrefine)      (a: list of floats, c: float)
  ['trimc', a, c, maxrefine]          topo - topo.trim(a.x - c, maxrefine=maxrefine)  (the complement of the trim)

`build(history)` is reusable by other checks; `menu(info, level)` enumerates the operations the C10 explorer
applies to a state.  Geometry is always a 1-D array (also for line meshes).
'''

import itertools
import numpy

MESHES = ['line3', 'rect22', 'per32', 'tri2', 'mix2', 'mp2', 'box112', 'per22']

# ambient dimension, element size, bounding box, period vectors, names of the sides of the box (None: no such names)
META = {
    'line3':  dict(d=1, h=1., lo=[0.], hi=[3.], periods=[], sides=False),   # mesh.line defines no boundary names
    'rect22': dict(d=2, h=1., lo=[0., 0.], hi=[2., 2.], periods=[], sides=True),
    'per32':  dict(d=2, h=1., lo=[0., 0.], hi=[3., 2.], periods=[[3., 0.]], sides=True),
    'per22':  dict(d=2, h=1., lo=[0., 0.], hi=[2., 2.], periods=[[2., 0.]], sides=True),
    'tri2':   dict(d=2, h=.5, lo=[0., 0.], hi=[1., 1.], periods=[], sides=True),
    'mix2':   dict(d=2, h=.5, lo=[0., 0.], hi=[1., 1.], periods=[], sides=True),
    'mp2':    dict(d=2, h=1., lo=[0., 0.], hi=[2., 1.], periods=[], sides=False),
    'box112': dict(d=3, h=1., lo=[0., 0., 0.], hi=[1., 1., 2.], periods=[], sides=True),
}

SIDE_NAMES = [('left', 'right'), ('bottom', 'top'), ('front', 'back')]

# volume groups as closed half spaces sign*(a.x - c) >= 0: a cell belongs to the group iff all its vertices satisfy it
VGROUPS = {
    'mp2': {'patch0': ([1., 0.], 1., -1), 'patch1': ([1., 0.], 1., 1)},
    'per32': {'lower': ([0., 1.], 1., -1)},
}

# level sets a.x - c; every cut of an element edge (at any bisection level <= 2) is a multiple of 1/8 of that edge.
# tags: i = through element interiors, v = through vertices, e = along element edges, m = misses the domain
LEVELSETS = {
    'line3': [([1.], 1.25, 'i'), ([1.], 1., 'v'), ([-1.], -1.625, 'i'), ([1.], 1.5, 'i'), ([1.], -1., 'm'), ([1.], 5., 'm')],
    'rect22': [([1., 0.], 1.25, 'i'), ([1., 1.], 1.5, 'i'), ([1., 0.], 1., 'e'), ([1., 1.], 2., 'v'), ([2., -1.], 1.5, 'i'),
               ([0., -1.], -1.75, 'i'), ([1., 0.], -5., 'm'), ([1., 0.], 9., 'm')],
    'per32': [([1., 0.], 1.25, 'i'), ([1., 1.], 1.5, 'i'), ([0., 1.], 1., 'e'), ([1., 1.], 2., 'v'), ([2., -1.], 1.5, 'i'),
              ([0., -1.], -1.75, 'i'), ([1., 0.], -5., 'm'), ([1., 0.], 9., 'm')],
    'per22': [([1., 0.], 1.25, 'i'), ([1., 1.], 1.5, 'i'), ([0., 1.], 1., 'e'), ([1., 1.], 2., 'v'), ([2., -1.], 1.5, 'i'),
              ([0., -1.], -1.75, 'i'), ([1., 0.], -5., 'm'), ([1., 0.], 9., 'm')],
    'mp2': [([1., 0.], 1.25, 'i'), ([1., 1.], 1.5, 'i'), ([1., 0.], 1., 'e'), ([1., 1.], 2., 'v'), ([2., -1.], 1.5, 'i'),
            ([0., -1.], -.75, 'i'), ([1., 0.], -5., 'm'), ([1., 0.], 9., 'm')],
    'tri2': [([1., 0.], .625, 'i'), ([1., 1.], .75, 'i'), ([1., 0.], .5, 'e'), ([1., 1.], 1., 'v'), ([1., -1.], .25, 'i'),
             ([0., -1.], -.875, 'i'), ([1., 0.], -5., 'm'), ([1., 0.], 9., 'm')],
    'mix2': [([1., 0.], .625, 'i'), ([1., 1.], .75, 'i'), ([1., 0.], .5, 'e'), ([1., 1.], 1., 'v'), ([1., -1.], .25, 'i'),
             ([0., -1.], -.875, 'i'), ([1., 0.], -5., 'm'), ([1., 0.], 9., 'm')],
    'box112': [([0., 0., 1.], 1.25, 'i'), ([1., 0., 1.], 1.5, 'i'), ([0., 0., 1.], 1., 'e'), ([1., 0., 1.], 1., 'v'),
               ([1., 1., 1.], 1.5, 'i'), ([0., 0., -1.], -1.75, 'i'), ([1., 0., 0.], -5., 'm'), ([1., 0., 0.], 9., 'm')],
}
# product states (after 'mul') live in d+1 dimensions; trimming them is not offered (nutils raises NotImplementedError)


def initial(name):
    'returns (topo, geom) for one of MESHES; geom is a 1-D array'
    from nutils import mesh
    if name == 'line3':
        topo, x = mesh.line(3)
        return topo, x[numpy.newaxis]
    if name == 'rect22':
        return mesh.rectilinear([[0, 1, 2], [0, 1, 2]])
    if name == 'per32':
        topo, geom = mesh.rectilinear([[0, 1, 2, 3], [0, 1, 2]], periodic=[0])
        return topo.withsubdomain(lower=topo[:, :1]), geom
    if name == 'per22':
        # two elements in the periodic direction: every element is twice a neighbour of the same element
        return mesh.rectilinear([[0, 1, 2], [0, 1, 2]], periodic=[0])
    if name == 'tri2':
        return mesh.unitsquare(2, 'triangle')
    if name == 'mix2':
        return mesh.unitsquare(2, 'mixed')
    if name == 'mp2':
        return mesh.multipatch(patches=[[0, 1, 2, 3], [2, 3, 4, 5]], patchverts=[[0, 0], [0, 1], [1, 0], [1, 1], [2, 0], [2, 1]], nelems=1)
    if name == 'box112':
        return mesh.rectilinear([[0, 1], [0, 1], [0, 1, 2]])
    raise KeyError(name)


def second_factor():
    'the line the product operation multiplies with: 2 elements on [0,2] in space Y'
    from nutils import mesh
    topo, y = mesh.line(2, space='Y')
    return topo, y[numpy.newaxis]


def levelset_function(geom, a, c):
    a = numpy.array(a, dtype=float)
    return (geom[:len(a)] * a).sum(0) - float(c)


def apply_op(topo, geom, op):
    'apply one JSON operation to a live topology; exceptions from nutils propagate'
    name = op[0]
    if name == 'refined':
        return topo.refined, geom
    if name == 'refine_spaces':
        return topo.refine_spaces(list(op[1])), geom
    if name == 'refined_by':
        return topo.refined_by(list(op[1])), geom
    if name == 'take':
        return topo.take(list(op[1])), geom
    if name == 'compress':
        return topo.compress(numpy.array(op[1], dtype=bool)), geom
    if name == 'slice':
        return topo.slice(slice(*op[1]), op[2]), geom
    if name == 'group':
        return topo[op[1]], geom
    if name == 'boundary':
        return topo.boundary, geom
    if name == 'interfaces':
        return topo.interfaces, geom
    if name == 'union':
        return topo.take(list(op[1])) | topo.take(list(op[2])), geom
    if name == 'diff':
        return topo - topo.take(list(op[1])), geom
    if name == 'mul':
        ytopo, y = second_factor()
        return topo * ytopo, numpy.concatenate([geom, y])
    if name == 'trim':
        return topo.trim(levelset_function(geom, op[1], op[2]), maxrefine=op[3]), geom
    if name == 'trimc':
        return topo - topo.trim(levelset_function(geom, op[1], op[2]), maxrefine=op[3]), geom
    raise ValueError('unknown operation {!r}'.format(op))


def build(history):
    '''rebuild the (topology, geometry) pair of a JSON history; also returns the list of intermediate pairs when
    called as build(history, trace=True)'''
    topo, geom = initial(history['mesh'])
    for op in history.get('ops', []):
        topo, geom = apply_op(topo, geom, op)
    return topo, geom


def build_trace(history):
    topo, geom = initial(history['mesh'])
    out = [(topo, geom)]
    for op in history.get('ops', []):
        topo, geom = apply_op(topo, geom, op)
        out.append((topo, geom))
    return out


# ------------------------------------------------------------------------------------------------ menu

def subset_family(n):
    'fixed family of element subsets for topologies that are too large for all subsets'
    fam = [[0], [n - 1], [n // 2], [0, 1], list(range(n // 2)), list(range(0, n, 2)), list(range(n - 1)), list(range(n))]
    out = []
    for s in fam:
        s = sorted(set(i for i in s if 0 <= i < n))
        if s and s not in out:
            out.append(s)
    return out


def all_subsets(n):
    return [list(s) for r in range(1, n + 1) for s in itertools.combinations(range(n), r)]


def menu(info, level):
    '''operations offered in a state.

    info: dict(mesh=, n=len(topo), kind='domain'|'product'|'manifold', structured=bool, ndims=, bgroups=[names],
               vgroups=[names])
    level: 'full' (complete alphabet), 'quick' (complete alphabet except that the level set x maxrefine grid is thinned to 15 of 24
           combinations), 'core' (reduced alphabet used for the deepest layer), 'tail' (the operations
           that close a chain: refined, boundary, interfaces, one refined_by)'''
    n = info['n']
    kind = info['kind']
    ops = []
    if n == 0:
        return ops
    small = n * 2 ** info.get('topdim', info['ndims']) <= info.get('cap', 256)     # uniform refinement only while the result stays small
    if small:
        ops.append(['refined'])
    if kind == 'product':
        if small:
            ops.append(['refine_spaces', ['X']])
            ops.append(['refine_spaces', ['Y']])
        ops.append(['boundary'])
        ops.append(['interfaces'])
        if level in ('full', 'quick'):
            ops.append(['take', [0, n - 1]])     # documented as unsupported on products: must be loud
            ops.append(['refined_by', [0]])
        return ops
    # hierarchical refinement: every subset if the topology has <= 6 elements
    if level in ('full', 'quick'):
        subsets = all_subsets(n) if n <= 6 else subset_family(n)
    elif level == 'core':
        subsets = all_subsets(n) if n <= 4 else ([[i] for i in range(n)] + [list(range(n))]) if n <= 6 else subset_family(n)[:4]
    else:
        subsets = [[0]]
    for s in subsets:
        ops.append(['refined_by', s])
    if kind == 'domain':
        ops.append(['boundary'])
        ops.append(['interfaces'])
    if level == 'tail':
        return ops
    fam = subset_family(n)
    takes = (all_subsets(n) if n <= 4 else fam) if level in ('full', 'quick') else fam[:3]
    for s in takes:
        if len(s) < n or level in ('full', 'quick'):
            ops.append(['take', s])
    if level in ('full', 'quick'):
        ops.append(['compress', [i % 2 == 0 for i in range(n)]])
        ops.append(['compress', [i % 3 != 0 for i in range(n)]])
    if info.get('structured') and kind == 'domain':
        for dim in range(info['ndims']):
            ops.append(['slice', [0, 1, None], dim])
            if level in ('full', 'quick'):
                ops.append(['slice', [1, None, None], dim])
                ops.append(['slice', [None, None, 2], dim])
    for g in info.get('vgroups', []) + info.get('bgroups', []):
        ops.append(['group', g])
    if n >= 2:
        pairs = [([0], [n - 1]), (list(range(n // 2 + 1)), list(range(n // 2, n))), (list(range(0, n, 2)), list(range(1, n, 2)))]
        if level not in ('full', 'quick'):
            pairs = pairs[1:2]
        for a, b in pairs:
            ops.append(['union', a, b])
        diffs = [[0], list(range(n // 2)), list(range(1, n))] if level in ('full', 'quick') else [[0]]
        for a in diffs:
            ops.append(['diff', a])
    if kind == 'domain':
        if info['ndims'] <= 2 and 2 * n <= info.get('cap', 256):
            ops.append(['mul'])
        ls = LEVELSETS[info['mesh']]
        if level == 'full':
            combos = [(a, c, m) for a, c, tag in ls for m in (0, 1, 2)]
        elif level == 'quick':
            combos = [(a, c, m) for (a, c, tag), ms in zip(ls, [(0, 1, 2), (0, 1, 2), (0, 1), (0, 1), (0, 1), (0, 1), (1,), ()]) for m in ms]
        else:
            combos = [(a, c, m) for (a, c, tag), ms in zip(ls[:4], [(0, 1), (1,), (1,), (0,)]) for m in ms]
        for a, c, m in combos:
            ops.append(['trim', a, c, m])
        for a, c, m in combos:
            ops.append(['trimc', a, c, m])
    return ops
