'''Importable (hence picklable) user-level classes for the C17 corpus.

The classes only store their arguments; they exist so that the generic
machinery of nutils.types (Immutable / Singleton / DataClass, dataclass and
__getnewargs__ hashing, hashable_function) is exercised on classes that are
not part of nutils itself, next to the real nutils classes.
'''

import collections, dataclasses
from nutils import types


class Imm(types.Immutable):
    def __init__(self, a, b=2):
        self.a = a
        self.b = b

    def m1(self):
        return self.a

    def m2(self):
        return self.b


class Imm2(types.Immutable):
    def __init__(self, a, b=2):
        self.a = a
        self.b = b


class ImmV(types.Immutable, version=1):
    def __init__(self, a, b=2):
        self.a = a
        self.b = b


class Sing(types.Singleton):
    def __init__(self, a, b=2):
        self.a = a
        self.b = b


class Sing2(types.Singleton):
    def __init__(self, a, b=2):
        self.a = a
        self.b = b


class DC(types.DataClass):
    a: object
    b: object = 2


class DC2(types.DataClass):
    a: object
    b: object = 2


class DCsub(DC):
    c: object = 3


class Outer:
    'same __name__ as the module level classes, different __qualname__'

    class Imm(types.Immutable):
        def __init__(self, a, b=2):
            self.a = a
            self.b = b

    class DC(types.DataClass):
        a: object
        b: object = 2


# ---- distinct classes that share a __name__

Twin1 = type('Twin', (), {'which': 1})
Twin2 = type('Twin', (), {'which': 2})
FakeInt = type('int', (), {})


def _make_pt(which):
    @dataclasses.dataclass(frozen=True)
    class Pt:
        x: object
        y: object = 0

        def norm(self):
            return which
    return Pt


Pt1 = _make_pt(1)   # Pt1 and Pt2: two dataclasses called 'Pt' with the same fields and different behaviour
Pt2 = _make_pt(2)


@dataclasses.dataclass(frozen=True)
class Pq:
    x: object
    y: object = 0


NT1 = collections.namedtuple('NT', ['a', 'b'])   # NT1(1, 2).a == 1
NT2 = collections.namedtuple('NT', ['b', 'a'])   # NT2(1, 2).a == 2
NU = collections.namedtuple('NU', ['a', 'b'])


# ---- functions

def _f_plus(x):
    return x + 1


def _f_times(x):
    return x * 2


def hf(identifier, which=0):
    'a hashable function with the given identifier; `which` selects the wrapped body (irrelevant by contract)'
    return types.hashable_function(identifier)((_f_plus, _f_times)[which % 2])


@types.hashable_function
def hf_src1(x):
    return x + 1


@types.hashable_function
def hf_src2(x):
    return x + 2


class Holder:
    @types.hashable_function('ident-a')
    def meth(x):
        return x


# constructors that collect keywords through **kwargs: the keyword part arrives in CALL order, so canonicalisation has to
# sort it (added after an independently seeded change that dropped the sorting was missed)
class ImmKw(types.Immutable):
    def __init__(self, a, **kw):
        self.a = a
        self.b = kw.get('b')
        self.c = kw.get('c')


class SingKw(types.Singleton):
    def __init__(self, a, **kw):
        self.a = a
        self.b = kw.get('b')
        self.c = kw.get('c')


def make_kw(cls):
    def mk(*args, **kw):
        if args:
            return cls(args[0], **dict(zip(('b', 'c'), args[1:])), **kw)
        return cls(**kw)   # keyword order of the call is preserved
    return mk
