'''C13 family "ndarg": argument manipulation on arguments with several axes.

The term language of c13_terms is typed over scalars and (2,) vectors.  This
family closes the remaining dimension of the alphabet: the SHAPE of the
argument.  For every shape of the menu (all shapes with 1..3 axes and lengths
in {1,2,3}, plus a few 3- and 4-axis shapes with pairwise different lengths)
and every polynomial body of the menu it builds the real nutils function and
checks, against closed-form numpy references, that

  derivative (by name / by Argument object), second derivative, linearize and
  replace_arguments, applied to the body and to its factor()ed form, evaluate
  to the derivative / directional derivative / substituted value of the body.

Seeded change C13-C (Monomial._derivative ravels the indices of a >=3-axis
argument with the wrong strides) is what prompted it.  Everything is
deterministic: coefficients and valuations are fixed functions of the shape.
'''

import itertools
import numpy

SHAPES_QUICK = [s for n in (1, 2, 3) for s in itertools.product((1, 2, 3), repeat=n)] + [(2, 3, 4), (4, 3, 2), (3, 1, 2, 2), (2, 3, 1, 2), (4, 2, 3, 2)]
SHAPES_THOROUGH = SHAPES_QUICK + [s for s in itertools.product((1, 2, 3), repeat=4) if s not in SHAPES_QUICK] + [(2, 3, 4, 5), (5, 4, 3, 2), (2, 1, 2, 1, 3)]
BODIES = ('quad-scalar', 'cubic-array', 'bilinear')
MANIPS = ('der-name', 'der-obj', 'der-w', 'der2', 'lin', 'replace', 'replace-swap')
TOL = 1e-9


def shapes(tier):
    return SHAPES_QUICK if tier == 'quick' else SHAPES_THOROUGH


def _coef(shape, k):
    n = int(numpy.prod(shape))
    return (numpy.sin(1.3 * numpy.arange(1, n + 1) + k) + .1 * k).reshape(shape)


def _valuation(shape):
    return {'u': _coef(shape, 3) * .9, 'v': _coef(shape, 5) * 1.1 + .2, 'w': numpy.array(1.7), 'q': numpy.array(-.6)}


class Body:
    'numpy reference of one body: value, du, dw, d2u (as functions of the valuation)'

    def __init__(self, name, shape):
        self.name = name
        self.shape = shape
        self.c = _coef(shape, 0)
        self.d = _coef(shape, 1)

    def nutils(self, function, u, v, w):
        if self.name == 'quad-scalar':
            return numpy.sum(self.c * u) * w + numpy.sum(self.d * u * u) + 3. * w * w
        if self.name == 'cubic-array':
            return self.c * u * u * w + self.d * u
        if self.name == 'bilinear':
            return numpy.sum(self.c * u * v) * w + numpy.sum(self.d * v)
        raise ValueError(self.name)

    def value(self, e):
        u, v, w = e['u'], e['v'], e['w']
        if self.name == 'quad-scalar':
            return numpy.sum(self.c * u) * w + numpy.sum(self.d * u * u) + 3. * w * w
        if self.name == 'cubic-array':
            return self.c * u * u * w + self.d * u
        return numpy.sum(self.c * u * v) * w + numpy.sum(self.d * v)

    def _diag(self, a):
        'array of shape `shape` -> shape+shape with a on the generalised diagonal'
        n = a.size
        return numpy.diag(a.ravel()).reshape(self.shape + self.shape)

    def du(self, e):
        u, v, w = e['u'], e['v'], e['w']
        if self.name == 'quad-scalar':
            return self.c * w + 2 * self.d * u
        if self.name == 'cubic-array':
            return self._diag(2 * self.c * u * w + self.d)
        return self.c * v * w

    def dw(self, e):
        u, v, w = e['u'], e['v'], e['w']
        if self.name == 'quad-scalar':
            return numpy.sum(self.c * u) + 6. * w
        if self.name == 'cubic-array':
            return self.c * u * u
        return numpy.sum(self.c * u * v)

    def d2u(self, e):
        u, v, w = e['u'], e['v'], e['w']
        if self.name == 'quad-scalar':
            return self._diag(2 * self.d)
        if self.name == 'cubic-array':
            n = u.size
            out = numpy.zeros((n, n, n))
            i = numpy.arange(n)
            out[i, i, i] = (2 * self.c * w * numpy.ones(self.shape)).ravel()
            return out.reshape(self.shape * 3)
        return numpy.zeros(self.shape * 2)


def run_case(shape, body, manip, factored):
    'returns (status, finding) with finding None or (key, what); status in value / error'
    from nutils import function
    shape = tuple(shape)
    B = Body(body, shape)
    u = function.Argument('u', shape, float)
    v = function.Argument('v', shape, float)
    w = function.Argument('w', (), float)
    e = _valuation(shape)
    label = '{}{}:{}'.format('factored-' if factored else '', body, manip)
    try:
        f = B.nutils(function, u, v, w)
        if factored:
            f = function.factor(f)
        if manip == 'der-name':
            g, ref = function.derivative(f, 'u'), B.du(e)
        elif manip == 'der-obj':
            g, ref = function.derivative(f, u), B.du(e)
        elif manip == 'der-w':
            g, ref = function.derivative(f, 'w'), B.dw(e)
        elif manip == 'der2':
            g, ref = function.derivative(function.derivative(f, 'u'), 'u'), B.d2u(e)
        elif manip == 'lin':
            g = function.linearize(f, 'u:v')
            du = B.du(e)
            ref = numpy.tensordot(du, e['v'], len(shape))
        elif manip == 'replace':
            # u -> v*q  (value in the outer environment), afterwards the body no longer depends on u
            q = function.Argument('q', (), float)
            g = function.replace_arguments(f, {'u': v * q})
            ref = B.value(dict(e, u=e['v'] * e['q']))
        elif manip == 'replace-swap':
            g = function.replace_arguments(f, 'u:v,v:u')
            ref = B.value(dict(e, u=e['v'], v=e['u']))
        else:
            raise ValueError(manip)
        args = {k: val for k, val in e.items() if k in g.arguments}
        val = numpy.asarray(function.eval(g, args))
    except Exception as ex:
        return 'error', ('ndarg:raised:' + label, 'shape {}: {} raised {}: {}'.format(shape, label, type(ex).__name__, str(ex)[:300]))
    ref = numpy.asarray(ref, dtype=float)
    if val.shape != ref.shape:
        return 'value', ('ndarg:wrong-shape:' + label, 'shape {}: {} has shape {} instead of {}'.format(shape, label, val.shape, ref.shape))
    if not numpy.allclose(val, ref, rtol=TOL, atol=TOL):
        bad = numpy.argwhere(~numpy.isclose(val, ref, rtol=TOL, atol=TOL))
        i = tuple(int(x) for x in bad[0])
        return 'value', ('ndarg:wrong-value:' + label, 'argument shape {}: {} differs from the closed form at {} of {} entries, first at index {}: {!r} instead of {!r}'.format(
            shape, label, len(bad), ref.size, i, float(val[i]), float(ref[i])))
    return 'value', None


def cases(tier):
    for shape in shapes(tier):
        for body in BODIES:
            for manip in MANIPS:
                if manip == 'der2' and len(shape) * 3 > 9:
                    continue
                for factored in (False, True):
                    yield shape, body, manip, factored
